package verifrt

import (
	"fmt"
	"time"
)

// Config of one exploration.
type Config struct {
	Name       string
	Bound      int // preemption bound; <0 = unbounded
	Shard      int
	NShards    int
	Deadline   time.Time // zero = none
	MaxExecs   int64     // 0 = none
	ShardDepth int       // deviation depth at which subtrees are dealt to shards (default 2)
	Sleep      bool      // sleep-set partial-order reduction (only valid with Bound < 0)
}

// Verdict of the per-execution oracle.
type Verdict struct {
	Outcome       string // canonical outcome string (distinct outcomes are counted)
	Fail          string // non-empty: the property is violated in this execution
	Key           string // stable key of the violation (for known-findings matching)
	NoReplayCheck bool   // the failure cannot be reproduced in the same process (race reports are de-duplicated by the detector)
}

type Violation struct {
	Key      string   `json:"key"`
	Msg      string   `json:"msg"`
	Choices  []int    `json:"choices"`
	Log      []string `json:"log"`
	Schedule []string `json:"schedule,omitempty"`
	Preempt  int      `json:"preemptions"`
}

type Stats struct {
	Name           string           `json:"name"`
	Bound          int              `json:"bound"`
	Executions     int64            `json:"executions"`
	States         int64            `json:"states"`
	Transitions    int64            `json:"transitions"`
	Outcomes       map[string]int64 `json:"outcomes"`
	Complete       bool             `json:"complete"`
	Diverged       int64            `json:"diverged,omitempty"` // executions that left the prefix they were given (see strictReplay)
	MaxDepth       int              `json:"max_depth"`
	MaxThreads     int              `json:"max_threads"`
	TimersFired    int64            `json:"timers_fired"`
	Violations     []*Violation     `json:"violations"`
	ViolationCount map[string]int64 `json:"violation_count"`
	Sample         []string         `json:"sample,omitempty"`
	WallS          float64          `json:"wall_s"`
	SleepBlocked   int64            `json:"sleep_blocked"`
}

type explorer struct {
	cfg    Config
	body   func()
	oracle func(*ExecResult) Verdict
	st     *Stats
	items  int64
	stop   bool
	// incomplete: some execution diverged from its prefix (nondeterminism the scheduler does not own)
	incomplete bool
}

// Explore enumerates every execution of body whose number of preemptions is at most
// cfg.Bound (all executions if Bound < 0) and applies oracle to each.
func Explore(cfg Config, body func(), oracle func(*ExecResult) Verdict) *Stats {
	if cfg.NShards <= 0 {
		cfg.NShards = 1
	}
	if cfg.ShardDepth == 0 {
		cfg.ShardDepth = 2
	}
	if cfg.Sleep && cfg.Bound >= 0 {
		toolFail("sleep sets must not be combined with a preemption bound")
	}
	if cfg.Bound >= 0 && cfg.ShardDepth > cfg.Bound {
		cfg.ShardDepth = cfg.Bound
	}
	e := &explorer{cfg: cfg, body: body, oracle: oracle}
	e.st = &Stats{Name: cfg.Name, Bound: cfg.Bound, Outcomes: map[string]int64{}, ViolationCount: map[string]int64{}}
	t0 := time.Now()
	e.explore(nil, 0, 0)
	e.st.Complete = !e.stop && !e.incomplete
	e.st.WallS = time.Since(t0).Seconds()
	return e.st
}

func (e *explorer) owner(depth int) bool {
	// nodes above the shard depth are executed by every shard (to discover children)
	// but owned (counted, checked) by shard 0 only; nodes at the shard depth are dealt
	// round-robin, and the whole subtree below belongs to the owner.
	if depth < e.cfg.ShardDepth {
		return e.cfg.Shard == 0
	}
	return true
}

func (e *explorer) explore(prefix []int, used int, depth int) {
	if e.stop {
		return
	}
	if depth == e.cfg.ShardDepth && e.cfg.NShards > 1 {
		k := e.items
		e.items++
		if int(k%int64(e.cfg.NShards)) != e.cfg.Shard {
			return
		}
	}
	if !e.cfg.Deadline.IsZero() && time.Now().After(e.cfg.Deadline) {
		e.stop = true
		return
	}
	if e.cfg.MaxExecs > 0 && e.st.Executions >= e.cfg.MaxExecs {
		e.stop = true
		return
	}
	x := runOnce(prefix, false, e.cfg.Sleep, e.body)
	if x.Status == "sleep-blocked" {
		e.st.SleepBlocked++
	} else if e.owner(depth) {
		e.record(x, prefix, used)
	}
	if x.Diverged {
		// the execution left the prefix it was given: what lies below cannot be enumerated from its trace
		e.st.Diverged++
		e.incomplete = true
		return
	}
	for i := len(prefix); i < len(x.Trace); i++ {
		d := x.Trace[i]
		for alt := d.Chosen + 1; alt < d.N; alt++ {
			if e.cfg.Sleep && d.Awake&(1<<uint(alt)) == 0 {
				continue
			}
			cost := 0
			if alt >= d.NFree {
				cost = 1
			}
			if e.cfg.Bound >= 0 && used+cost > e.cfg.Bound {
				continue
			}
			np := make([]int, i+1)
			for j := 0; j < i; j++ {
				np[j] = x.Trace[j].Chosen
			}
			np[i] = alt
			e.explore(np, used+cost, depth+1)
			if e.stop {
				return
			}
		}
	}
}

func (e *explorer) record(x *ExecResult, prefix []int, used int) {
	st := e.st
	st.Executions++
	newNodes := len(x.Trace) - len(prefix) + 1
	st.States += int64(newNodes)
	st.Transitions += int64(x.Steps)
	st.TimersFired += int64(x.Fired)
	if len(x.Trace) > st.MaxDepth {
		st.MaxDepth = len(x.Trace)
	}
	if x.Threads > st.MaxThreads {
		st.MaxThreads = x.Threads
	}
	v := e.oracle(x)
	st.Outcomes[v.Outcome]++
	if v.Fail != "" {
		key := v.Key
		if key == "" {
			key = v.Fail
		}
		st.ViolationCount[key]++
		if st.ViolationCount[key] == 1 {
			// deterministic? replay the same choices five times, with descriptions
			ch := x.Choices()
			var desc []string
			varies := false
			for r := 0; r < 5 && !v.NoReplayCheck; r++ {
				// four plain replays must reproduce the observations byte for byte; the
				// fifth runs with call-site descriptions (which may appear in messages)
				y := runOnce(ch, r == 4, e.cfg.Sleep, e.body)
				w := e.oracle(y)
				same := w.Key == v.Key && fmt.Sprint(y.Choices()) == fmt.Sprint(ch)
				if w.Fail != "" && (!same || w.Fail != v.Fail || (r < 4 && fmt.Sprint(y.Log) != fmt.Sprint(x.Log))) {
					// the schedule fails every time it is replayed, only the details (or the number of steps the code
					// takes, or - where the observed results are part of the clause's key - the key) differ: something
					// the scheduler does not own (map iteration order in the code under test, or state the code keeps
					// from one execution to the next) reaches the observation. The failure itself is reproducible - it
					// is reported, with that remark; a replay that does NOT fail is another matter (below).
					if !varies {
						varies = true
						v.Fail += " [the details of this failure vary between replays of the one schedule: something outside the scheduler's control - e.g. map iteration order in the code under test, or state it keeps between executions - reaches the observation]"
					}
					desc = y.Desc
					continue
				}
				if r < 4 {
					same = same && w.Fail == v.Fail && fmt.Sprint(y.Log) == fmt.Sprint(x.Log)
				}
				if !same {
					toolFail(fmt.Sprintf("NONDETERMINISM replaying a violating schedule of %s:\nfirst:  %s\n        %v\nreplay: %s\n        %v", e.cfg.Name, v.Fail, x.Log, w.Fail, y.Log))
				}
				desc = y.Desc
				if r == 4 && !varies {
					v.Fail = w.Fail
				}
			}
			st.Violations = append(st.Violations, &Violation{Key: key, Msg: v.Fail, Choices: ch, Log: x.Log, Schedule: desc, Preempt: used})
		}
	}
	if len(st.Sample) == 0 && len(prefix) > 0 {
		y := runOnce(x.Choices(), true, e.cfg.Sleep, e.body)
		st.Sample = y.Desc
	}
}

// Replay runs one recorded schedule and returns the execution with descriptions.
func Replay(choices []int, body func()) *ExecResult {
	return RunOnce(choices, true, body)
}
