//go:build race

package verifrt

import (
	"runtime"
	"syscall"
	"unsafe"
)

// Hand-off primitives for -race builds. The race detector treats sync.Mutex,
// channels and sync/atomic as synchronisation; a scheduler built on them would order
// every step of every thread after the previous one and the detector would never see
// two unordered accesses. Everything here is a spin lock / futex wait on words that are
// only touched by assembly or inside //go:norace functions, so the detector sees
// exactly the synchronisation of the program under test and nothing else.

type schedLock struct{ w uint32 }

//go:norace
func (l *schedLock) lock() {
	for i := 0; !cas32(&l.w, 0, 1); i++ {
		if i%64 == 63 {
			runtime.Gosched()
		}
	}
}

//go:norace
func (l *schedLock) unlock() { store32(&l.w, 0) }

const (
	futexWaitPrivate = 0 | 128
	futexWakePrivate = 1 | 128
)

// waker: a tiny queue of ints with a futex-backed counter.
type waker struct {
	lk   schedLock
	q    [4]int
	head uint32
	n    uint32 // number of queued values; futex word
}

//go:norace
func (w *waker) init() {}

//go:norace
func (w *waker) put(v int) {
	w.lk.lock()
	cnt := load32(&w.n)
	if cnt >= 4 {
		w.lk.unlock()
		toolFail("verifrt: waker overflow")
	}
	w.q[(w.head+cnt)%4] = v
	xadd32(&w.n, 1)
	w.lk.unlock()
	syscall.Syscall6(syscall.SYS_FUTEX, uintptr(unsafe.Pointer(&w.n)), futexWakePrivate, 1, 0, 0, 0)
}

//go:norace
func (w *waker) get() int {
	for {
		if load32(&w.n) == 0 {
			syscall.Syscall6(syscall.SYS_FUTEX, uintptr(unsafe.Pointer(&w.n)), futexWaitPrivate, 0, 0, 0, 0)
			continue
		}
		w.lk.lock()
		if load32(&w.n) == 0 {
			w.lk.unlock()
			continue
		}
		v := w.q[w.head%4]
		w.head++
		xadd32(&w.n, ^uint32(0))
		w.lk.unlock()
		return v
	}
}

type activeFlag struct{ v uint32 }

//go:norace
func (a *activeFlag) set(b bool) {
	if b {
		store32(&a.v, 1)
	} else {
		store32(&a.v, 0)
	}
}

//go:norace
func (a *activeFlag) get() bool { return load32(&a.v) != 0 }

// goroutine -> thread table: fixed array, linear scan, no map (the runtime's map code
// reports its own accesses to the detector).
const maxThreads = 256

var (
	tabLock schedLock
	tabG    [maxThreads]unsafe.Pointer
	tabT    [maxThreads]*thread
)

//go:norace
func lookupThread(g unsafe.Pointer) *thread {
	for i := 0; i < maxThreads; i++ {
		if tabG[i] == g {
			return tabT[i]
		}
	}
	return nil
}

//go:norace
func registerThread(g unsafe.Pointer, t *thread) {
	tabLock.lock()
	for i := 0; i < maxThreads; i++ {
		if tabG[i] == nil {
			tabT[i] = t
			tabG[i] = g
			tabLock.unlock()
			return
		}
	}
	tabLock.unlock()
	toolFail("verifrt: more than 256 live controlled goroutines")
}

//go:norace
func unregisterThread(g unsafe.Pointer) {
	tabLock.lock()
	for i := 0; i < maxThreads; i++ {
		if tabG[i] == g {
			tabG[i] = nil
			tabT[i] = nil
		}
	}
	tabLock.unlock()
}

// RaceBuild reports whether the hand-off is the race-detector-invisible one.
const RaceBuild = true
