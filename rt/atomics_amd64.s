#include "textflag.h"

// Atomic operations the race detector cannot see (assembly is not instrumented):
// the scheduler's hand-off must not create happens-before edges between threads.

// func cas32(p *uint32, old, new uint32) bool
TEXT ·cas32(SB),NOSPLIT,$0-17
	MOVQ p+0(FP), BX
	MOVL old+8(FP), AX
	MOVL new+12(FP), CX
	LOCK
	CMPXCHGL CX, 0(BX)
	SETEQ ret+16(FP)
	RET

// func xadd32(p *uint32, d uint32) uint32   (returns the new value)
TEXT ·xadd32(SB),NOSPLIT,$0-20
	MOVQ p+0(FP), BX
	MOVL d+8(FP), AX
	MOVL AX, CX
	LOCK
	XADDL AX, 0(BX)
	ADDL CX, AX
	MOVL AX, ret+16(FP)
	RET

// func load32(p *uint32) uint32
TEXT ·load32(SB),NOSPLIT,$0-12
	MOVQ p+0(FP), BX
	MOVL 0(BX), AX
	MOVL AX, ret+8(FP)
	RET

// func store32(p *uint32, v uint32)
TEXT ·store32(SB),NOSPLIT,$0-12
	MOVQ p+0(FP), BX
	MOVL v+8(FP), AX
	XCHGL AX, 0(BX)
	RET
