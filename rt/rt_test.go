package verifrt_test

import (
	"context"
	"fmt"
	"testing"

	"verifrt"
	sync "verifrt/vsync"
)

// lost update: two threads do read; yield-free; write under separate lock sections
func TestLostUpdate(t *testing.T) {
	body := func() {
		var mu sync.Mutex
		x := 0
		var wg sync.WaitGroup
		wg.Add(2)
		for i := 0; i < 2; i++ {
			verifrt.Go(func() {
				defer wg.Done()
				mu.Lock()
				v := x
				mu.Unlock()
				mu.Lock()
				x = v + 1
				mu.Unlock()
			})
		}
		wg.Wait()
		verifrt.Logf("x=%d", x)
	}
	for b := 0; b <= 2; b++ {
		st := verifrt.Explore(verifrt.Config{Name: "lost", Bound: b}, body, func(x *verifrt.ExecResult) verifrt.Verdict {
			o := fmt.Sprint(x.Status, x.Log)
			v := verifrt.Verdict{Outcome: o}
			if len(x.Log) != 1 || x.Log[0] != "x=2" {
				v.Fail = "lost update " + o
			}
			return v
		})
		t.Logf("bound %d: execs=%d states=%d outcomes=%v viol=%v", b, st.Executions, st.States, st.Outcomes, st.ViolationCount)
		if b == 0 && len(st.Violations) != 0 {
			t.Fatal("violation at pb0")
		}
		if b >= 1 && len(st.Violations) == 0 {
			t.Fatal("no violation at pb>=1")
		}
		if b == 1 {
			t.Logf("schedule: %v", st.Violations[0].Schedule)
		}
	}
}

func TestChannels(t *testing.T) {
	body := func() {
		ch := make(chan int)
		ctx, cancel := verifrt.WithCancel(context.Background())
		out := make(chan int)
		verifrt.Go(func() { // forwarder
			defer verifrt.Close(out)
			for {
				verifrt.BeforeRecv(ch)
				v, ok := <-ch
				if !ok {
					return
				}
				switch verifrt.Select(false, verifrt.DoneCase(ctx), verifrt.SendCase(out)) {
				case 0:
					<-ctx.Done()
					return
				case 1:
					out <- v
					verifrt.AfterSend()
				}
			}
		})
		verifrt.Go(func() { // producer
			for i := 1; i <= 2; i++ {
				verifrt.BeforeSend(ch)
				ch <- i
				verifrt.AfterSend()
			}
			verifrt.Close(ch)
		})
		verifrt.Go(func() { cancel() })
		got := []int{}
		for {
			v, ok := verifrt.Recv2(out)
			if !ok {
				break
			}
			got = append(got, v)
		}
		verifrt.WaitIdle()
		verifrt.Logf("got=%v alive=%v", got, verifrt.Alive())
	}
	for b := 0; b <= 3; b++ {
		st := verifrt.Explore(verifrt.Config{Name: "chan", Bound: b}, body, func(x *verifrt.ExecResult) verifrt.Verdict {
			return verifrt.Verdict{Outcome: fmt.Sprint(x.Status, x.Log, x.Msg)}
		})
		t.Logf("bound %d: execs=%d states=%d depth=%d outcomes=%d", b, st.Executions, st.States, st.MaxDepth, len(st.Outcomes))
		for o, n := range st.Outcomes {
			t.Logf("   %d  %s", n, o)
		}
	}
	st := verifrt.Explore(verifrt.Config{Name: "chan", Bound: -1}, body, func(x *verifrt.ExecResult) verifrt.Verdict {
		return verifrt.Verdict{Outcome: fmt.Sprint(x.Status, x.Log, x.Msg)}
	})
	t.Logf("unbounded: execs=%d outcomes=%d wall=%.2fs", st.Executions, len(st.Outcomes), st.WallS)
}

func TestTimerAndAbort(t *testing.T) {
	body := func() {
		ctx, cancel := verifrt.WithTimeout(context.Background(), 5e9)
		defer cancel()
		ch := make(chan int)
		var mu sync.Mutex
		verifrt.Go(func() { // leaks, holding a lock with deferred unlock
			mu.Lock()
			defer mu.Unlock()
			verifrt.BeforeRecv(ch)
			<-ch
		})
		switch verifrt.Select(false, verifrt.DoneCase(ctx), verifrt.SendCase(make(chan int))) {
		case 0:
			<-ctx.Done()
		}
		verifrt.Logf("err=%v", ctx.Err())
	}
	st := verifrt.Explore(verifrt.Config{Name: "timer", Bound: 2}, body, func(x *verifrt.ExecResult) verifrt.Verdict {
		return verifrt.Verdict{Outcome: fmt.Sprint(x.Status, x.Log, x.Leaks, x.Fired)}
	})
	t.Logf("execs=%d outcomes=%v", st.Executions, st.Outcomes)
}

func outcomesOf(st *verifrt.Stats) string {
	var ks []string
	for k := range st.Outcomes {
		ks = append(ks, k)
	}
	sortStrings(ks)
	return fmt.Sprint(ks)
}

func sortStrings(a []string) {
	for i := range a {
		for j := i + 1; j < len(a); j++ {
			if a[j] < a[i] {
				a[i], a[j] = a[j], a[i]
			}
		}
	}
}

// sleep sets must preserve the set of outcomes of the full unbounded search
func TestSleepSets(t *testing.T) {
	bodies := map[string]func(){
		"pipeline": func() {
			ch := make(chan int)
			ctx, cancel := verifrt.WithCancel(context.Background())
			out := make(chan int)
			var mu sync.Mutex
			shared := 0
			verifrt.Go(func() {
				defer verifrt.Close(out)
				for {
					v, ok := verifrt.Recv2(ch)
					if !ok {
						return
					}
					mu.Lock()
					shared += v
					mu.Unlock()
					switch verifrt.Select(false, verifrt.DoneCase(ctx), verifrt.SendCase(out)) {
					case 0:
						<-ctx.Done()
						return
					case 1:
						out <- v
						verifrt.AfterSend()
					}
				}
			})
			verifrt.Go(func() {
				for i := 1; i <= 2; i++ {
					verifrt.BeforeSend(ch)
					ch <- i
					verifrt.AfterSend()
				}
				verifrt.Close(ch)
			})
			verifrt.Go(func() { mu.Lock(); shared *= 2; mu.Unlock(); cancel() })
			got := []int{}
			for {
				v, ok := verifrt.Recv2(out)
				if !ok {
					break
				}
				got = append(got, v)
			}
			verifrt.WaitIdle()
			mu.Lock()
			verifrt.Logf("got=%v shared=%d alive=%d", got, shared, len(verifrt.Alive()))
			mu.Unlock()
		},
		"locks": func() {
			var a, b sync.Mutex
			x, y := 0, 0
			var wg sync.WaitGroup
			wg.Add(3)
			verifrt.Go(func() {
				defer wg.Done()
				a.Lock()
				x = x*2 + 1
				l := x
				a.Unlock()
				b.Lock()
				y += l
				b.Unlock()
			})
			verifrt.Go(func() {
				defer wg.Done()
				b.Lock()
				y = y*3 + 1
				b.Unlock()
				a.Lock()
				x += 5
				a.Unlock()
			})
			verifrt.Go(func() { defer wg.Done(); a.Lock(); x += 7; a.Unlock() })
			wg.Wait()
			verifrt.Logf("x=%d y=%d", x, y)
		},
		"stamps": func() {
			var wg sync.WaitGroup
			wg.Add(2)
			var s1, s2, s3, s4 int64
			verifrt.Go(func() { defer wg.Done(); s1 = verifrt.Stamp(); s2 = verifrt.Stamp() })
			verifrt.Go(func() { defer wg.Done(); s3 = verifrt.Stamp(); s4 = verifrt.Stamp() })
			wg.Wait()
			verifrt.Logf("%v %v %v", s2 < s3, s4 < s1, s1 < s3)
		},
	}
	for name, body := range bodies {
		or := func(x *verifrt.ExecResult) verifrt.Verdict {
			return verifrt.Verdict{Outcome: fmt.Sprint(x.Status, x.Log, x.Msg)}
		}
		full := verifrt.Explore(verifrt.Config{Name: name, Bound: -1}, body, or)
		red := verifrt.Explore(verifrt.Config{Name: name, Bound: -1, Sleep: true}, body, or)
		t.Logf("%s: full execs=%d outcomes=%d | sleep execs=%d blocked=%d outcomes=%d", name, full.Executions, len(full.Outcomes), red.Executions, red.SleepBlocked, len(red.Outcomes))
		if outcomesOf(full) != outcomesOf(red) {
			t.Fatalf("%s: outcome sets differ\nfull:  %s\nsleep: %s", name, outcomesOf(full), outcomesOf(red))
		}
		// sharded sleep exploration covers the same outcomes
		merged := map[string]bool{}
		var total int64
		for sh := 0; sh < 3; sh++ {
			st := verifrt.Explore(verifrt.Config{Name: name, Bound: -1, Sleep: true, Shard: sh, NShards: 3}, body, or)
			total += st.Executions
			for k := range st.Outcomes {
				merged[k] = true
			}
		}
		if len(merged) != len(full.Outcomes) || total != red.Executions {
			t.Fatalf("%s: sharded sleep run differs: outcomes %d vs %d, execs %d vs %d", name, len(merged), len(full.Outcomes), total, red.Executions)
		}
	}
}

func TestDeadlinePropagation(t *testing.T) {
	body := func() {
		ctx, cancel := verifrt.WithTimeout(context.Background(), 5e9)
		defer cancel()
		type k struct{}
		child, ccancel := verifrt.WithCancel(context.WithValue(ctx, k{}, 1)) // through a value context, as wrap does
		defer ccancel()
		verifrt.RecvDone(child) // nothing else can move: the virtual timer fires
		verifrt.Logf("parent=%v child=%v", ctx.Err(), child.Err())
	}
	st := verifrt.Explore(verifrt.Config{Name: "deadline", Bound: -1, Sleep: true}, body, func(x *verifrt.ExecResult) verifrt.Verdict {
		return verifrt.Verdict{Outcome: fmt.Sprint(x.Status, x.Log, x.Fired)}
	})
	want := "ok[parent=context deadline exceeded child=context deadline exceeded] 1"
	if len(st.Outcomes) != 1 || st.Outcomes[want] == 0 {
		t.Fatalf("outcomes %v", st.Outcomes)
	}
}

// virtual ticker and clock: ticks come in deadline order with other timers, carry the virtual time,
// a timer due at the instant of a tick goes off together with it (both orders of the woken threads are
// explored), and a ticker nobody listens to does not keep the execution alive.
func TestVirtualTicker(t *testing.T) {
	body := func() {
		verifrt.VirtualClock()
		start := verifrt.Now()
		tk := verifrt.NewTicker(10e6)
		forgotten := verifrt.NewTicker(1e6) // never read, never stopped
		_ = forgotten
		var mu sync.Mutex
		var order []string
		done := make(chan struct{})
		verifrt.Go(func() {
			// due exactly at the second tick
			c, cancel := verifrt.WithTimeout(context.Background(), 20e6)
			verifrt.RecvDone(c)
			cancel()
			mu.Lock()
			order = append(order, "timer")
			mu.Unlock()
			verifrt.Close(done)
		})
		for i := 0; i < 2; i++ {
			verifrt.BeforeRecv(tk.C)
			at := <-tk.C
			mu.Lock()
			order = append(order, fmt.Sprintf("tick@%dms", at.Sub(start).Milliseconds()))
			mu.Unlock()
		}
		tk.Stop()
		verifrt.BeforeRecv(done)
		<-done
		verifrt.Logf("%v now=%dms", order, verifrt.Now().Sub(start).Milliseconds())
	}
	st := verifrt.Explore(verifrt.Config{Name: "ticker", Bound: -1}, body, func(x *verifrt.ExecResult) verifrt.Verdict {
		return verifrt.Verdict{Outcome: fmt.Sprint(x.Status, x.Log)}
	})
	got := outcomesOf(st)
	want := "[ok[[tick@10ms tick@20ms timer] now=20ms] ok[[tick@10ms timer tick@20ms] now=20ms]]"
	if got != want {
		t.Fatalf("outcomes %s\nwant     %s", got, want)
	}
}
