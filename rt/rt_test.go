package verifrt_test

import (
	"context"
	"fmt"
	"testing"

	"verifrt"
	sync "verifrt/vsync"
)

// lost update: two threads do read; yield-free; write under separate lock sections
func TestLostUpdate(t *testing.T) {
	body := func() {
		var mu sync.Mutex
		x := 0
		var wg sync.WaitGroup
		wg.Add(2)
		for i := 0; i < 2; i++ {
			verifrt.Go(func() {
				defer wg.Done()
				mu.Lock()
				v := x
				mu.Unlock()
				mu.Lock()
				x = v + 1
				mu.Unlock()
			})
		}
		wg.Wait()
		verifrt.Logf("x=%d", x)
	}
	for b := 0; b <= 2; b++ {
		st := verifrt.Explore(verifrt.Config{Name: "lost", Bound: b}, body, func(x *verifrt.ExecResult) verifrt.Verdict {
			o := fmt.Sprint(x.Status, x.Log)
			v := verifrt.Verdict{Outcome: o}
			if len(x.Log) != 1 || x.Log[0] != "x=2" {
				v.Fail = "lost update " + o
			}
			return v
		})
		t.Logf("bound %d: execs=%d states=%d outcomes=%v viol=%v", b, st.Executions, st.States, st.Outcomes, st.ViolationCount)
		if b == 0 && len(st.Violations) != 0 {
			t.Fatal("violation at pb0")
		}
		if b >= 1 && len(st.Violations) == 0 {
			t.Fatal("no violation at pb>=1")
		}
		if b == 1 {
			t.Logf("schedule: %v", st.Violations[0].Schedule)
		}
	}
}

func TestChannels(t *testing.T) {
	body := func() {
		ch := make(chan int)
		ctx, cancel := verifrt.WithCancel(context.Background())
		out := make(chan int)
		verifrt.Go(func() { // forwarder
			defer verifrt.Close(out)
			for {
				verifrt.BeforeRecv(ch)
				v, ok := <-ch
				if !ok {
					return
				}
				switch verifrt.Select(false, verifrt.DoneCase(ctx), verifrt.SendCase(out)) {
				case 0:
					<-ctx.Done()
					return
				case 1:
					out <- v
					verifrt.AfterSend()
				}
			}
		})
		verifrt.Go(func() { // producer
			for i := 1; i <= 2; i++ {
				verifrt.BeforeSend(ch)
				ch <- i
				verifrt.AfterSend()
			}
			verifrt.Close(ch)
		})
		verifrt.Go(func() { cancel() })
		got := []int{}
		for {
			v, ok := verifrt.Recv2(out)
			if !ok {
				break
			}
			got = append(got, v)
		}
		verifrt.WaitIdle()
		verifrt.Logf("got=%v alive=%v", got, verifrt.Alive())
	}
	for b := 0; b <= 3; b++ {
		st := verifrt.Explore(verifrt.Config{Name: "chan", Bound: b}, body, func(x *verifrt.ExecResult) verifrt.Verdict {
			return verifrt.Verdict{Outcome: fmt.Sprint(x.Status, x.Log, x.Msg)}
		})
		t.Logf("bound %d: execs=%d states=%d depth=%d outcomes=%d", b, st.Executions, st.States, st.MaxDepth, len(st.Outcomes))
		for o, n := range st.Outcomes {
			t.Logf("   %d  %s", n, o)
		}
	}
	st := verifrt.Explore(verifrt.Config{Name: "chan", Bound: -1}, body, func(x *verifrt.ExecResult) verifrt.Verdict {
		return verifrt.Verdict{Outcome: fmt.Sprint(x.Status, x.Log, x.Msg)}
	})
	t.Logf("unbounded: execs=%d outcomes=%d wall=%.2fs", st.Executions, len(st.Outcomes), st.WallS)
}

func TestTimerAndAbort(t *testing.T) {
	body := func() {
		ctx, cancel := verifrt.WithTimeout(context.Background(), 5e9)
		defer cancel()
		ch := make(chan int)
		var mu sync.Mutex
		verifrt.Go(func() { // leaks, holding a lock with deferred unlock
			mu.Lock()
			defer mu.Unlock()
			verifrt.BeforeRecv(ch)
			<-ch
		})
		switch verifrt.Select(false, verifrt.DoneCase(ctx), verifrt.SendCase(make(chan int))) {
		case 0:
			<-ctx.Done()
		}
		verifrt.Logf("err=%v", ctx.Err())
	}
	st := verifrt.Explore(verifrt.Config{Name: "timer", Bound: 2}, body, func(x *verifrt.ExecResult) verifrt.Verdict {
		return verifrt.Verdict{Outcome: fmt.Sprint(x.Status, x.Log, x.Leaks, x.Fired)}
	})
	t.Logf("execs=%d outcomes=%v", st.Executions, st.Outcomes)
}
