package verifrt

import "unsafe"

// getg returns the address of the running goroutine's g structure: a stable,
// unique-while-alive identity used to map goroutines to controlled threads.
func getg() unsafe.Pointer
