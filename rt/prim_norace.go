//go:build !race

package verifrt

import (
	"sync"
	"sync/atomic"
	"unsafe"
)

// Default hand-off primitives: ordinary Go synchronisation.

type schedLock struct{ mu sync.Mutex }

func (l *schedLock) lock()   { l.mu.Lock() }
func (l *schedLock) unlock() { l.mu.Unlock() }

type waker struct {
	once sync.Once
	ch   chan int
}

func (w *waker) init()     { w.once.Do(func() { w.ch = make(chan int, 4) }) }
func (w *waker) put(v int) { w.init(); w.ch <- v }
func (w *waker) get() int  { w.init(); return <-w.ch }

type activeFlag struct{ v atomic.Bool }

func (a *activeFlag) set(b bool) { a.v.Store(b) }
func (a *activeFlag) get() bool  { return a.v.Load() }

var (
	tmapMu sync.RWMutex
	byG    = map[unsafe.Pointer]*thread{}
)

func lookupThread(g unsafe.Pointer) *thread {
	tmapMu.RLock()
	t := byG[g]
	tmapMu.RUnlock()
	return t
}

func registerThread(g unsafe.Pointer, t *thread) {
	tmapMu.Lock()
	byG[g] = t
	tmapMu.Unlock()
}

func unregisterThread(g unsafe.Pointer) {
	tmapMu.Lock()
	delete(byG, g)
	tmapMu.Unlock()
}

// RaceBuild reports whether the hand-off is the race-detector-invisible one.
const RaceBuild = false
