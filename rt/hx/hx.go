// Package hx is the common command-line / reporting shell of the harness binaries.
//
//	harness -tier quick|thorough -shard i/n -budget seconds -out report.json [-only substr] [-replay file]
package hx

import (
	"encoding/json"
	"flag"
	"fmt"
	"hash/fnv"
	"io"
	"log"
	"os"
	"runtime/debug"
	"runtime/pprof"
	"sort"
	"strings"
	"time"

	"verifrt"
)

type Oracle func(*verifrt.ExecResult) verifrt.Verdict

type schedScenario struct {
	name        string
	quick, thor int // preemption bounds; -1 = unbounded; -2 = skip in that tier
	body        func()
	oracle      Oracle
	setup       func() // runs once, outside any exploration, before the scenario is explored
}

type seqScenario struct {
	name string
	fn   func(*Seq)
}

type H struct {
	Property string
	Tier     string
	Shard    int
	NShards  int
	Seed     int64
	NoSleep  bool
	sched    []schedScenario
	seq      []seqScenario
	order    []string
	deadline time.Time
	only     string
}

func New(property string) *H { return &H{Property: property} }

// Sched registers a schedule-exploration scenario with its preemption bounds for
// the quick and thorough tiers (-1 = unbounded, -2 = not run in that tier).
func (h *H) Sched(name string, quick, thorough int, body func(), oracle Oracle) {
	h.sched = append(h.sched, schedScenario{name, quick, thorough, body, oracle, nil})
	h.order = append(h.order, "sched:"+name)
}

// SchedWithSetup is Sched plus a setup function that runs once, free-running (outside
// any exploration), right before the scenario is explored or replayed.
func (h *H) SchedWithSetup(name string, quick, thorough int, setup func(), body func(), oracle Oracle) {
	h.sched = append(h.sched, schedScenario{name, quick, thorough, body, oracle, setup})
	h.order = append(h.order, "sched:"+name)
}

// Seq registers a sequential / input enumeration scenario.
func (h *H) Seq(name string, fn func(*Seq)) {
	h.seq = append(h.seq, seqScenario{name, fn})
	h.order = append(h.order, "seq:"+name)
}

type ScenarioReport struct {
	Name           string           `json:"name"`
	Kind           string           `json:"kind"`
	BoundTarget    int              `json:"bound_target"`
	BoundCompleted int              `json:"bound_completed"` // -1: unbounded completed; -3: none
	Complete       bool             `json:"complete"`
	Executions     int64            `json:"executions"`
	States         int64            `json:"states"`
	Transitions    int64            `json:"transitions"`
	Outcomes       map[string]int64 `json:"outcomes,omitempty"`
	Distinct       int64            `json:"distinct"`
	MaxDepth       int              `json:"max_depth,omitempty"`
	MaxThreads     int              `json:"max_threads,omitempty"`
	TimersFired    int64            `json:"timers_fired,omitempty"`
	SleepBlocked   int64            `json:"sleep_blocked,omitempty"`
	Violations     []*Finding       `json:"violations,omitempty"`
	ViolationCount map[string]int64 `json:"violation_count,omitempty"`
	Samples        []any            `json:"samples,omitempty"`
	WallS          float64          `json:"wall_s"`
	Notes          []string         `json:"notes,omitempty"`
}

type Finding struct {
	Key    string `json:"key"`
	Msg    string `json:"msg"`
	Replay any    `json:"replay"`
}

type Report struct {
	Property  string            `json:"property"`
	Tier      string            `json:"tier"`
	Shard     int               `json:"shard"`
	NShards   int               `json:"nshards"`
	Scenarios []*ScenarioReport `json:"scenarios"`
	WallS     float64           `json:"wall_s"`
}

type replayFile struct {
	Property string          `json:"property"`
	Scenario string          `json:"scenario"`
	Kind     string          `json:"kind"`
	Choices  []int           `json:"choices,omitempty"`
	Case     json.RawMessage `json:"case,omitempty"`
	Key      string          `json:"key,omitempty"`
	Msg      string          `json:"msg,omitempty"`
}

func (h *H) Run() {
	tier := flag.String("tier", "quick", "quick|thorough")
	shard := flag.String("shard", "0/1", "i/n")
	budget := flag.Float64("budget", 0, "wall-clock budget in seconds (0 = none)")
	out := flag.String("out", "", "report file")
	only := flag.String("only", "", "run only scenarios whose name contains this")
	replay := flag.String("replay", "", "replay file")
	seed := flag.Int64("seed", 0, "seed (only permutes enumeration order where used)")
	list := flag.Bool("list", false, "list scenarios")
	nosleep := flag.Bool("nosleep", false, "unbounded searches without sleep-set reduction (cross-check)")
	scen := flag.String("scen", "0/1", "i/n: run only scenarios with index%n==i")
	cpuprof := flag.String("cpuprofile", "", "write a CPU profile of the whole run here (tuning aid)")
	flag.Parse()
	if *cpuprof != "" {
		if f, err := os.Create(*cpuprof); err == nil {
			pprof.StartCPUProfile(f)
			defer pprof.StopCPUProfile()
		}
	}
	h.Tier = *tier
	h.Seed = *seed
	h.NoSleep = *nosleep
	fmt.Sscanf(*shard, "%d/%d", &h.Shard, &h.NShards)
	if h.NShards <= 0 {
		h.NShards = 1
	}
	h.only = *only
	debug.SetGCPercent(400)
	log.SetOutput(io.Discard) // resource.timeoutAlarm logs from abandoned executions
	if *list {
		for _, o := range h.order {
			fmt.Println(o)
		}
		return
	}
	if *replay != "" {
		os.Exit(h.replay(*replay))
	}
	t0 := time.Now()
	if *budget > 0 {
		h.deadline = t0.Add(time.Duration(*budget * float64(time.Second)))
	}
	rep := &Report{Property: h.Property, Tier: h.Tier, Shard: h.Shard, NShards: h.NShards}
	var todo []string
	si, sn := 0, 1
	fmt.Sscanf(*scen, "%d/%d", &si, &sn)
	if sn <= 0 {
		sn = 1
	}
	for i, o := range h.order {
		if (h.only == "" || strings.Contains(o, h.only)) && i%sn == si {
			todo = append(todo, o)
		}
	}
	for i, o := range todo {
		var dl time.Time
		if !h.deadline.IsZero() {
			left := time.Until(h.deadline)
			if left < 0 {
				left = 0
			}
			dl = time.Now().Add(left / time.Duration(len(todo)-i))
		}
		kind, name, _ := strings.Cut(o, ":")
		if kind == "sched" {
			for _, sc := range h.sched {
				if sc.name == name {
					if r := h.runSched(sc, dl); r != nil {
						rep.Scenarios = append(rep.Scenarios, r)
					}
				}
			}
		} else {
			for _, sc := range h.seq {
				if sc.name == name {
					rep.Scenarios = append(rep.Scenarios, h.runSeq(sc, dl))
				}
			}
		}
	}
	rep.WallS = time.Since(t0).Seconds()
	b, _ := json.Marshal(rep)
	if *out != "" {
		if err := os.WriteFile(*out, b, 0o644); err != nil {
			fmt.Fprintln(os.Stderr, err)
			os.Exit(2)
		}
	} else {
		os.Stdout.Write(b)
		fmt.Println()
	}
}

func (h *H) runSched(sc schedScenario, dl time.Time) *ScenarioReport {
	target := sc.quick
	if h.Tier == "thorough" {
		target = sc.thor
	}
	if target == -2 {
		return nil
	}
	r := &ScenarioReport{Name: sc.name, Kind: "sched", BoundTarget: target, BoundCompleted: -3}
	t0 := time.Now()
	if sc.setup != nil {
		sc.setup()
	}
	bounds := []int{}
	if target < 0 {
		bounds = []int{-1}
	} else {
		for b := 0; b <= target; b++ {
			bounds = append(bounds, b)
		}
	}
	for _, b := range bounds {
		st := verifrt.Explore(verifrt.Config{Name: sc.name, Bound: b, Shard: h.Shard, NShards: h.NShards, Deadline: dl, Sleep: b < 0 && !h.NoSleep}, sc.body, sc.oracle)
		if st.Diverged > 0 {
			r.Notes = append(r.Notes, fmt.Sprintf("bound %d: %d execution(s) left the schedule prefix they were given - the code's path depends on something the scheduler does not own (map iteration order, ...); they were judged but not expanded, the scenario is NOT exhaustive", b, st.Diverged))
			mergeViol(r, st)
			r.Executions, r.States, r.Transitions = st.Executions, st.States, st.Transitions
			break
		}
		if !st.Complete {
			r.Notes = append(r.Notes, fmt.Sprintf("bound %d stopped by the time budget after %d executions (no violation among them unless listed)", b, st.Executions))
			mergeViol(r, st)
			break
		}
		r.BoundCompleted = b
		r.Executions, r.States, r.Transitions = st.Executions, st.States, st.Transitions
		r.Outcomes = st.Outcomes
		r.MaxDepth, r.MaxThreads, r.TimersFired = st.MaxDepth, st.MaxThreads, st.TimersFired
		r.SleepBlocked = st.SleepBlocked
		if len(st.Sample) > 0 {
			r.Samples = []any{map[string]any{"scenario": sc.name, "bound": b, "schedule": st.Sample}}
		}
		// violations accumulate over the bounds (deduplicated by key): an oracle that reports a thing once per
		// process - the race detector - does not repeat at bound b+1 what it reported at bound b
		mergeViol(r, st)
	}
	r.Complete = r.BoundCompleted == target
	r.Distinct = int64(len(r.Outcomes))
	r.WallS = time.Since(t0).Seconds()
	return r
}

func mergeViol(r *ScenarioReport, st *verifrt.Stats) {
	if r.ViolationCount == nil {
		r.ViolationCount = map[string]int64{}
	}
	have := map[string]bool{}
	for _, v := range r.Violations {
		have[v.Key] = true
	}
	for _, v := range st.Violations {
		if have[v.Key] {
			continue
		}
		r.Violations = append(r.Violations, &Finding{Key: v.Key, Msg: v.Msg, Replay: map[string]any{
			"kind": "sched", "scenario": st.Name, "choices": v.Choices, "preemptions": v.Preempt, "schedule": v.Schedule, "log": v.Log}})
	}
	for k, n := range st.ViolationCount {
		if n > r.ViolationCount[k] {
			r.ViolationCount[k] = n // a higher bound re-explores the lower one: keep the larger count
		}
	}
}

// ---------------------------------------------------------------- Seq

// Seq is the bookkeeping handle of a sequential enumeration.
type Seq struct {
	h        *H
	r        *ScenarioReport
	deadline time.Time
	counter  int64
	states   map[uint64]struct{}
	distinct map[uint64]struct{}
	stopped  bool
	replay   json.RawMessage // non-nil: replaying one case
	Thorough bool
	checkCtr int
}

// Own deals enumeration items round-robin to the shards: call once per top-level
// item and skip the item when it returns false.
func (s *Seq) Own() bool {
	if s.replay != nil {
		return true
	}
	k := s.counter
	s.counter++
	if int(k%int64(s.h.NShards)) != s.h.Shard {
		return false
	}
	return !s.Stop()
}

// Stop reports whether the time budget is exhausted (the scenario is then reported
// as not exhaustive).
func (s *Seq) Stop() bool {
	if s.stopped {
		return true
	}
	s.checkCtr++
	if s.checkCtr%64 == 0 && !s.deadline.IsZero() && time.Now().After(s.deadline) {
		s.stopped = true
	}
	return s.stopped
}

func hash(k string) uint64 { f := fnv.New64a(); f.Write([]byte(k)); return f.Sum64() }

func (s *Seq) Eval(n int)  { s.r.Executions += int64(n) }
func (s *Seq) Trans(n int) { s.r.Transitions += int64(n) }

// State records a visited (canonical) state; returns true if it is new.
func (s *Seq) State(key string) bool {
	k := hash(key)
	if _, ok := s.states[k]; ok {
		return false
	}
	s.states[k] = struct{}{}
	return true
}

// Distinct records a distinct non-trivial case/outcome.
func (s *Seq) Distinct(key string) { s.distinct[hash(key)] = struct{}{} }

func (s *Seq) Sample(v any) {
	if len(s.r.Samples) < 3 {
		s.r.Samples = append(s.r.Samples, v)
	}
}

func (s *Seq) Note(f string, a ...any) { s.r.Notes = append(s.r.Notes, fmt.Sprintf(f, a...)) }

// Fail records a violation. key identifies the failing case stably; replay is
// whatever the scenario needs to re-run exactly this case.
func (s *Seq) Fail(key, msg string, replay any) {
	if s.r.ViolationCount == nil {
		s.r.ViolationCount = map[string]int64{}
	}
	s.r.ViolationCount[key]++
	if s.r.ViolationCount[key] == 1 && len(s.r.Violations) < 200 {
		s.r.Violations = append(s.r.Violations, &Finding{Key: key, Msg: msg, Replay: map[string]any{"kind": "seq", "scenario": s.r.Name, "case": replay}})
	}
}

// Replaying returns the recorded case when the scenario is run by -replay.
func (s *Seq) Replaying(into any) bool {
	if s.replay == nil {
		return false
	}
	if err := json.Unmarshal(s.replay, into); err != nil {
		fmt.Fprintln(os.Stderr, "bad replay case:", err)
		os.Exit(2)
	}
	return true
}

func (h *H) runSeq(sc seqScenario, dl time.Time) *ScenarioReport {
	r := &ScenarioReport{Name: sc.name, Kind: "seq"}
	s := &Seq{h: h, r: r, deadline: dl, states: map[uint64]struct{}{}, distinct: map[uint64]struct{}{}, Thorough: h.Tier == "thorough"}
	t0 := time.Now()
	sc.fn(s)
	r.Complete = !s.stopped
	r.States = int64(len(s.states))
	r.Distinct = int64(len(s.distinct))
	r.WallS = time.Since(t0).Seconds()
	if s.stopped {
		r.Notes = append(r.Notes, "stopped by the time budget; counts are what was covered")
	}
	return r
}

// ---------------------------------------------------------------- replay

func (h *H) replay(file string) int {
	b, err := os.ReadFile(file)
	if err != nil {
		fmt.Fprintln(os.Stderr, err)
		return 2
	}
	var rf replayFile
	if err := json.Unmarshal(b, &rf); err != nil {
		fmt.Fprintln(os.Stderr, err)
		return 2
	}
	if rf.Kind == "sched" {
		for _, sc := range h.sched {
			if sc.name != rf.Scenario {
				continue
			}
			if sc.setup != nil {
				sc.setup()
			}
			x := verifrt.Replay(rf.Choices, sc.body)
			v := sc.oracle(x)
			for i, d := range x.Desc {
				fmt.Printf("  %3d %s\n", i, d)
			}
			fmt.Printf("status=%s msg=%s\nlog=%v\nleaks=%v\noutcome=%s\n", x.Status, x.Msg, x.Log, x.Leaks, v.Outcome)
			if v.Fail != "" {
				fmt.Printf("VIOLATION property=%s replay=%s\n  %s\n", h.Property, file, v.Fail)
				return 1
			}
			fmt.Println("no violation on this schedule")
			return 0
		}
	} else {
		for _, sc := range h.seq {
			if sc.name != rf.Scenario {
				continue
			}
			r := &ScenarioReport{Name: sc.name, Kind: "seq"}
			s := &Seq{h: h, r: r, states: map[uint64]struct{}{}, distinct: map[uint64]struct{}{}, replay: rf.Case, Thorough: true}
			sc.fn(s)
			if len(r.Violations) > 0 {
				keys := []string{}
				for _, v := range r.Violations {
					keys = append(keys, v.Key+": "+v.Msg)
				}
				sort.Strings(keys)
				fmt.Printf("VIOLATION property=%s replay=%s\n  %s\n", h.Property, file, strings.Join(keys, "\n  "))
				return 1
			}
			fmt.Println("no violation on this case")
			return 0
		}
	}
	fmt.Fprintln(os.Stderr, "unknown scenario", rf.Scenario)
	return 2
}

// StdOracle: an execution fails if it did not end normally or if the harness logged a
// line "FAIL <key> ## <detail>". Lines starting with "OUT " form the outcome.
func StdOracle(x *verifrt.ExecResult) verifrt.Verdict {
	var v verifrt.Verdict
	var outs []string
	for _, l := range x.Log {
		if strings.HasPrefix(l, "OUT ") {
			outs = append(outs, l[4:])
		} else if strings.HasPrefix(l, "FAIL ") && v.Fail == "" {
			k, _, _ := strings.Cut(l[5:], " ## ")
			v.Key = k
			v.Fail = l[5:]
		}
	}
	if x.Status != "ok" {
		outs = append(outs, x.Status)
		if v.Fail == "" {
			v.Key = x.Status
			v.Fail = x.Status + " ## " + x.Msg
		}
	}
	v.Outcome = strings.Join(outs, " ")
	return v
}
