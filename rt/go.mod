module verifrt

go 1.23
