package verifrt

func cas32(p *uint32, old, new uint32) bool
func xadd32(p *uint32, d uint32) uint32
func load32(p *uint32) uint32
func store32(p *uint32, v uint32)
