// Package vsync mirrors the parts of package sync that sc-golang uses. Each
// blocking operation first parks at a scheduling point of verifrt (when called by a
// controlled thread) and then performs the real operation, which by then cannot
// block. Outside an exploration everything passes straight through.
package vsync

import (
	"sync"

	"verifrt"
)

type (
	Once   = sync.Once
	Map    = sync.Map
	Pool   = sync.Pool
	Cond   = sync.Cond
	Locker = sync.Locker
)

func NewCond(l Locker) *Cond { return sync.NewCond(l) }

func OnceFunc(f func()) func() { return sync.OnceFunc(f) }

type Mutex struct {
	real sync.Mutex
	st   verifrt.MuState
}

func (m *Mutex) Lock() { verifrt.MuLock(&m.st); m.real.Lock() }
func (m *Mutex) Unlock() {
	if verifrt.MuUnlock(&m.st) {
		m.real.Unlock()
	}
}

type RWMutex struct {
	real sync.RWMutex
	st   verifrt.RWState
}

func (m *RWMutex) Lock() { verifrt.RWLock(&m.st); m.real.Lock() }
func (m *RWMutex) Unlock() {
	if verifrt.RWUnlock(&m.st) {
		m.real.Unlock()
	}
}
func (m *RWMutex) RLock() { verifrt.RWRLock(&m.st); m.real.RLock() }
func (m *RWMutex) RUnlock() {
	if verifrt.RWRUnlock(&m.st) {
		m.real.RUnlock()
	}
}

type rlocker RWMutex

func (r *rlocker) Lock()   { (*RWMutex)(r).RLock() }
func (r *rlocker) Unlock() { (*RWMutex)(r).RUnlock() }

func (m *RWMutex) RLocker() Locker { return (*rlocker)(m) }

type WaitGroup struct {
	real sync.WaitGroup
	st   verifrt.WGState
}

func (w *WaitGroup) Add(n int) { verifrt.WGAdd(&w.st, n); w.real.Add(n) }
func (w *WaitGroup) Done()     { verifrt.WGAdd(&w.st, -1); w.real.Done() }
func (w *WaitGroup) Wait()     { verifrt.WGWait(&w.st); w.real.Wait() }
