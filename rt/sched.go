// Package verifrt is the controlled runtime used to model check sc-golang:
// a cooperative scheduler that owns every scheduling decision of the
// instrumented code (thread switches at lock / channel / select / close /
// cancel operations, select case choice, rendezvous partner choice, virtual
// timers), plus explorers that enumerate all decision sequences up to a
// preemption bound.
//
// Nothing in here samples: every source of nondeterminism is a numbered
// decision, and an execution is a deterministic function of its decision list.
package verifrt

import (
	"context"
	"fmt"
	"os"
	"reflect"
	"runtime"
	"sort"
	"strconv"
	"strings"
	"sync"
	"sync/atomic"
	"time"
	"unsafe"
)

type opKind uint8

const (
	opStart opKind = iota
	opLock
	opRLock
	opWLock
	opWLockAnnounce
	opWait
	opSend
	opRecv
	opDone
	opSelect
	opClose
	opCancel
	opIdle
	opYield
	opStamp
	opCtxErr
)

var opNames = [...]string{"start", "lock", "rlock", "wlock", "wlock-announce", "wgwait", "send", "recv", "done", "select", "close", "cancel", "idle", "yield", "stamp", "ctxerr"}

const (
	dirRecv int8 = iota
	dirSend
	dirDone
)

// Case is one communication clause of a select statement.
type Case struct {
	dir int8
	ch  unsafe.Pointer
	chv any
	cap int
	ctx context.Context
}

type op struct {
	kind       opKind
	mu         *MuState
	rw         *RWState
	wg         *WGState
	c          Case
	cases      []Case
	hasDefault bool
	site       string
}

const abortSignal = -1000

type thread struct {
	id      int
	epoch   uint64
	wake    waker
	pend    op
	parked  bool
	baton   bool // sender of a rendezvous waiting to continue after its partner's step
	rdv     bool // set at grant: the granted send is one half of a rendezvous
	done    bool
	aborted bool
	exited  chan struct{}
	site    string
	name    string
	key     string // stable name: parent's key + index among the parent's children
	nspawn  int
	held    []heldLock // model locks granted to this thread and not yet released by it
}

// heldLock: one lock this thread was granted. Only consulted while a thread is torn down: code
// of the shape "Unlock(); defer Lock()" re-locks in a deferred call, which an aborted thread
// skips (park ends it), so the matching deferred Unlock must skip the real mutex too.
type heldLock struct {
	p    unsafe.Pointer
	read bool
}

// release forgets one grant of (p, read); reports whether the thread had it. s.lk held.
//
//go:norace
func (t *thread) release(p unsafe.Pointer, read bool) bool {
	for i := len(t.held) - 1; i >= 0; i-- {
		if t.held[i].p == p && t.held[i].read == read {
			t.held = append(t.held[:i], t.held[i+1:]...)
			return true
		}
	}
	return false
}

// Decision records one scheduling decision: N alternatives in canonical order, of
// which the first NFree do not cost a preemption; Chosen was taken.
type Decision struct {
	N, NFree, Chosen int
	Awake            uint64 // sleep-set mode: bit k set = alternative k is not asleep (N <= 64)
}

type vtimer struct {
	fired    atomic.Bool
	stopped  bool
	deadline time.Time
	cancel   context.CancelFunc
	seq      int
	// a ticker: fires every period by putting the virtual time into tick (capacity 1, like time.Ticker)
	period time.Duration
	tick   chan time.Time
}

// ExecResult is what one complete execution produced.
type ExecResult struct {
	Status  string // ok | deadlock | panic
	Trace   []Decision
	Log     []string
	Leaks   []string // threads alive when the root returned
	Msg     string   // deadlock / panic description
	Steps   int
	Fired   int // virtual timers fired
	Threads int
	Desc    []string // per-decision description (only when Describe is on)
	Rdv     [][2]int // rendezvous in order: {sender thread, receiver thread}
	Sends   []int    // sender thread of every granted channel send, in order (buffered or rendezvous)
	// Diverged: (lenient replays only) the recorded choices stopped fitting the execution at some decision - the code
	// took another path than in the recorded run although it was given the same schedule - and the default choice
	// was taken from there on
	Diverged bool
}

// strictReplay: a recorded choice that does not fit the execution is a tool failure (the replay of a saved
// counterexample file, the runtime's own tests). The explorer runs without it: there an execution that leaves its
// prefix is marked Diverged, judged by the oracle like any other, not expanded, and the scenario is reported as
// NOT exhaustive - code whose path depends on something the scheduler does not own (map iteration order, say) cannot
// be enumerated, but a failure it shows is a failure all the same.
var strictReplay bool

//go:norace
func (x *ExecResult) Choices() []int {
	r := make([]int, len(x.Trace))
	for i, d := range x.Trace {
		r[i] = d.Chosen
	}
	return r
}

type sched struct {
	lk         schedLock
	epoch      uint64
	threads    []*thread
	running    int
	forced     *thread
	lastRan    [2]int
	timers     []*vtimer
	timerSeq   int
	closed     []unsafe.Pointer
	prefix     []int
	res        *ExecResult
	finished   bool
	doneCh     chan struct{}
	all        sync.WaitGroup
	clock      int64
	describe   bool
	writerPref bool
	vnow       time.Time
	vclock     bool // Now reports vnow

	// sleep sets (unbounded mode only)
	sleepMode bool
	sleep     []sleepEntry
	pendSleep []sleepEntry
	chosenSig sig
	havePend  bool
	ctxNodes  []ctxEntry
}

var (
	s        = &sched{}
	active   activeFlag
	toolFail = func(msg string) {
		fmt.Fprintln(os.Stderr, "TOOL-ERROR:", msg)
		buf := make([]byte, 1<<20)
		n := runtime.Stack(buf, true)
		os.Stderr.Write(buf[:n])
		os.Exit(2)
	}
)

//go:norace
func cur() *thread {
	if !active.get() {
		return nil
	}
	return lookupThread(getg())
}

// Active reports whether the caller is a thread of a running exploration.
//
//go:norace
func Active() bool { return cur() != nil }

// ThreadID returns the caller's thread id (root = 0) or -1.
//
//go:norace
func ThreadID() int {
	if t := cur(); t != nil {
		return t.id
	}
	return -1
}

//go:norace
func callerSite(skip int) string {
	if !s.describe {
		return ""
	}
	pc := make([]uintptr, 8)
	n := runtime.Callers(skip+1, pc)
	fr := runtime.CallersFrames(pc[:n])
	for {
		f, more := fr.Next()
		if !strings.HasPrefix(f.Function, "verifrt.") && !strings.HasPrefix(f.Function, "verifrt/") {
			fn := f.Function
			if i := strings.LastIndex(fn, "/"); i >= 0 {
				fn = fn[i+1:]
			}
			return fmt.Sprintf("%s:%d", fn, f.Line)
		}
		if !more {
			return ""
		}
	}
}

// park blocks the calling thread at a scheduling point until the scheduler
// grants the operation; returns the selected case for opSelect.
//
//go:norace
func (t *thread) park(o op) int {
	if s.describe {
		o.site = callerSite(3)
	}
	s.lk.lock()
	if t.aborted || t.epoch != s.epoch {
		s.lk.unlock()
		runtime.Goexit()
	}
	t.pend = o
	t.parked = true
	s.running--
	if s.running == 0 {
		s.decide()
	}
	s.lk.unlock()
	r := t.wake.get()
	if r == abortSignal {
		runtime.Goexit()
	}
	return r
}

//go:norace
func (s *sched) spawn(parent *thread, fn func(), name string) *thread {
	// s.mu held
	t := &thread{id: len(s.threads), epoch: s.epoch, exited: make(chan struct{}), parked: true, name: name}
	t.pend = op{kind: opStart}
	if parent == nil {
		t.key = "0"
	} else {
		t.key = parent.key + "." + strconv.Itoa(parent.nspawn)
		parent.nspawn++
	}
	if s.describe {
		t.site = callerSite(3)
	}
	s.threads = append(s.threads, t)
	s.all.Add(1)
	go s.threadMain(t, fn)
	return t
}

// threadMain is the body of every controlled goroutine.
//
//go:norace
func (s *sched) threadMain(t *thread, fn func()) {
	g := getg()
	registerThread(g, t)
	defer s.threadExit(t, g)
	if r := t.wake.get(); r == abortSignal {
		return
	}
	fn()
}

//go:norace
func (s *sched) threadExit(t *thread, g unsafe.Pointer) {
	r := recover()
	unregisterThread(g)
	s.lk.lock()
	t.done = true
	if t.epoch == s.epoch && !t.aborted && !s.finished {
		if r != nil {
			buf := make([]byte, 16<<10)
			n := runtime.Stack(buf, false)
			s.finish("panic", fmt.Sprintf("thread %d panicked: %v at %s", t.id, r, trimStack(string(buf[:n]))))
		} else if t.id == 0 {
			s.finish("ok", "")
		} else {
			s.running--
			if s.running == 0 {
				s.decide()
			}
		}
	}
	s.lk.unlock()
	close(t.exited)
	s.all.Done()
}

//go:norace
func trimStack(st string) string {
	// keep "function file:line" frames only: no goroutine ids, no argument words
	lines := strings.Split(st, "\n")
	var out []string
	for i := 0; i+1 < len(lines) && len(out) < 12; i++ {
		l := lines[i]
		if l == "" || strings.HasPrefix(l, "goroutine ") || strings.HasPrefix(l, "\t") {
			continue
		}
		nx := strings.TrimSpace(lines[i+1])
		if !strings.HasPrefix(lines[i+1], "\t") {
			continue
		}
		if j := strings.LastIndex(l, "("); j > 0 {
			l = l[:j]
		}
		if strings.HasPrefix(l, "runtime.") || strings.HasPrefix(l, "panic") || strings.HasPrefix(l, "verifrt.") {
			continue
		}
		if j := strings.Index(nx, " +0x"); j > 0 {
			nx = nx[:j]
		}
		if j := strings.LastIndex(nx, "/"); j >= 0 {
			nx = nx[j+1:]
		}
		if j := strings.LastIndex(l, "/"); j >= 0 {
			l = l[j+1:]
		}
		out = append(out, l+"@"+nx)
	}
	return strings.Join(out, " < ")
}

// finish ends the execution: everything still alive is aborted. s.mu held.
//
//go:norace
func (s *sched) finish(status, msg string) {
	if s.finished {
		return
	}
	s.finished = true
	s.res.Status = status
	s.res.Msg = msg
	for _, t := range s.threads {
		if t.done {
			continue
		}
		if status == "ok" {
			s.res.Leaks = append(s.res.Leaks, s.descThread(t))
		}
		t.aborted = true
	}
	close(s.doneCh)
}

//go:norace
func (s *sched) descThread(t *thread) string {
	d := fmt.Sprintf("T%d", t.id)
	if t.name != "" {
		d += "(" + t.name + ")"
	}
	if t.site != "" {
		d += " spawned@" + t.site
	}
	if t.parked {
		d += " blocked at " + s.descOp(&t.pend)
	}
	return d
}

//go:norace
func (s *sched) descOp(o *op) string {
	d := opNames[o.kind]
	if o.kind == opSelect {
		var cs []string
		for _, c := range o.cases {
			cs = append(cs, [...]string{"recv", "send", "done"}[c.dir])
		}
		d += "[" + strings.Join(cs, ",") + "]"
	}
	if o.site != "" {
		d += "@" + o.site
	}
	return d
}

type trans struct {
	a, b   int // b = -1 unless rendezvous (a = sender, b = receiver)
	ca, cb int // selected case index for a / b (-1: not a select, or default)
}

//go:norace
func (s *sched) chanLen(c *Case) int {
	if c.cap == 0 {
		return 0
	}
	return reflect.ValueOf(c.chv).Len()
}

//go:norace
func (s *sched) sendAlts(out []trans, t *thread, ci int, c *Case) []trans {
	if c.ch == nil {
		return out
	}
	if s.isClosed(c.ch) {
		return append(out, trans{t.id, -1, ci, -1})
	}
	if c.cap > 0 {
		if s.chanLen(c) < c.cap {
			out = append(out, trans{t.id, -1, ci, -1})
		}
		return out
	}
	for _, r := range s.threads {
		if r == t || !r.parked || r.done {
			continue
		}
		switch r.pend.kind {
		case opRecv:
			if r.pend.c.ch == c.ch {
				out = append(out, trans{t.id, r.id, ci, -1})
			}
		case opSelect:
			for k := range r.pend.cases {
				rc := &r.pend.cases[k]
				if rc.dir == dirRecv && rc.ch == c.ch {
					out = append(out, trans{t.id, r.id, ci, k})
				}
			}
		}
	}
	return out
}

//go:norace
func (s *sched) recvAlts(out []trans, t *thread, ci int, c *Case) []trans {
	if c.ch == nil {
		return out
	}
	if s.isClosed(c.ch) || (c.cap > 0 && s.chanLen(c) > 0) {
		return append(out, trans{t.id, -1, ci, -1})
	}
	return out // unbuffered rendezvous is generated from the sender's side
}

//go:norace
func ctxDone(ctx context.Context) bool { return ctx != nil && ctx.Err() != nil }

//go:norace
func (s *sched) enabled() []trans {
	var out []trans
	for _, t := range s.threads {
		if !t.parked || t.done {
			continue
		}
		o := &t.pend
		switch o.kind {
		case opStart, opClose, opCancel, opYield, opWLockAnnounce, opStamp, opCtxErr:
			out = append(out, trans{t.id, -1, -1, -1})
		case opLock:
			if !o.mu.held {
				out = append(out, trans{t.id, -1, -1, -1})
			}
		case opRLock:
			if !o.rw.writer && !(s.writerPref && o.rw.pendingW > 0) {
				out = append(out, trans{t.id, -1, -1, -1})
			}
		case opWLock:
			if !o.rw.writer && o.rw.readers == 0 {
				out = append(out, trans{t.id, -1, -1, -1})
			}
		case opWait:
			if o.wg.n == 0 {
				out = append(out, trans{t.id, -1, -1, -1})
			}
		case opSend:
			out = s.sendAlts(out, t, -1, &o.c)
		case opRecv:
			out = s.recvAlts(out, t, -1, &o.c)
		case opDone:
			if ctxDone(o.c.ctx) {
				out = append(out, trans{t.id, -1, -1, -1})
			}
		case opSelect:
			n0 := len(out)
			for k := range o.cases {
				c := &o.cases[k]
				switch c.dir {
				case dirSend:
					out = s.sendAlts(out, t, k, c)
				case dirRecv:
					out = s.recvAlts(out, t, k, c)
				case dirDone:
					if ctxDone(c.ctx) {
						out = append(out, trans{t.id, -1, k, -1})
					}
				}
			}
			if len(out) == n0 && o.hasDefault && !s.selectHasPartner(t) {
				out = append(out, trans{t.id, -1, -1, -1})
			}
		}
	}
	return out
}

// selectHasPartner: a select with default whose recv case could pair with a parked
// sender is not "nothing ready": Go would take the recv case. (Sender-side
// enumeration lists that transition.)
//
//go:norace
func (s *sched) selectHasPartner(t *thread) bool {
	for k := range t.pend.cases {
		c := &t.pend.cases[k]
		if c.dir != dirRecv || c.ch == nil || c.cap > 0 {
			continue
		}
		for _, o := range s.threads {
			if o == t || !o.parked || o.done {
				continue
			}
			switch o.pend.kind {
			case opSend:
				if o.pend.c.ch == c.ch {
					return true
				}
			case opSelect:
				for j := range o.pend.cases {
					oc := &o.pend.cases[j]
					if oc.dir == dirSend && oc.ch == c.ch {
						return true
					}
				}
			}
		}
	}
	return false
}

//go:norace
func (s *sched) involvesLast(tr trans) bool {
	for _, l := range s.lastRan {
		if l >= 0 && (tr.a == l || tr.b == l) {
			return true
		}
	}
	return false
}

// ---- independence (sleep sets)

type objRef struct {
	p unsafe.Pointer
	w bool
}

// sig is what a transition (its granted operation) touches; global = conflicts with
// everything (cancel: context state is read by un-instrumented ctx.Err() calls).
type sig struct {
	global bool
	objs   []objRef
}

type sleepEntry struct {
	ka, kb string
	ca, cb int
	sg     sig
}

var clockObj byte

// ctxNode: a context created through verifrt.WithCancel/WithTimeout/WithDeadline,
// found again (also through value-context wrappers) by its Done channel.
type ctxNode struct {
	parent *ctxNode
}

type ctxEntry struct {
	p unsafe.Pointer
	n *ctxNode
}

//go:norace
func (s *sched) ctxNode(p unsafe.Pointer) *ctxNode {
	for i := range s.ctxNodes {
		if s.ctxNodes[i].p == p {
			return s.ctxNodes[i].n
		}
	}
	return nil
}

//go:norace
func (s *sched) isClosed(p unsafe.Pointer) bool {
	for _, c := range s.closed {
		if c == p {
			return true
		}
	}
	return false
}

//go:norace
func donePtr(ctx context.Context) unsafe.Pointer {
	if ctx == nil {
		return nil
	}
	d := ctx.Done()
	if d == nil {
		return nil
	}
	return reflect.ValueOf(d).UnsafePointer()
}

// ctxObjs: what an operation on ctx touches. Reading (Done, Err) depends on the
// context and all its ancestors; cancel writes the context itself. A context that
// was not created through verifrt is conservatively global.
//
//go:norace
func (s *sched) ctxObjs(ctx context.Context, write bool, g *sig) {
	p := donePtr(ctx)
	if p == nil {
		return
	}
	n := s.ctxNode(p)
	if n == nil {
		g.global = true
		return
	}
	g.objs = append(g.objs, objRef{unsafe.Pointer(n), write})
	if !write {
		for a := n.parent; a != nil; a = a.parent {
			g.objs = append(g.objs, objRef{unsafe.Pointer(a), false})
		}
	}
}

//go:norace
func (s *sched) registerCtx(ctx, parent context.Context) {
	n := &ctxNode{}
	if pp := donePtr(parent); pp != nil {
		n.parent = s.ctxNode(pp)
	}
	s.ctxNodes = append(s.ctxNodes, ctxEntry{donePtr(ctx), n})
}

//go:norace
func (s *sched) caseObj(c *Case, g *sig) {
	switch c.dir {
	case dirDone:
		s.ctxObjs(c.ctx, false, g)
	default:
		if c.ch != nil {
			g.objs = append(g.objs, objRef{c.ch, true})
		}
	}
}

//go:norace
func (s *sched) sigAdd(g *sig, t *thread, ci int) {
	o := &t.pend
	switch o.kind {
	case opLock:
		g.objs = append(g.objs, objRef{unsafe.Pointer(o.mu), true})
	case opRLock:
		g.objs = append(g.objs, objRef{unsafe.Pointer(o.rw), false})
	case opWLock, opWLockAnnounce:
		g.objs = append(g.objs, objRef{unsafe.Pointer(o.rw), true})
	case opWait:
		g.objs = append(g.objs, objRef{unsafe.Pointer(o.wg), false})
	case opSend, opRecv, opClose:
		s.caseObj(&o.c, g)
	case opDone, opCtxErr:
		s.ctxObjs(o.c.ctx, false, g)
	case opCancel:
		s.ctxObjs(o.c.ctx, true, g)
	case opStamp:
		g.objs = append(g.objs, objRef{unsafe.Pointer(&clockObj), true})
	case opSelect:
		if ci >= 0 {
			s.caseObj(&o.cases[ci], g)
		} else {
			for k := range o.cases {
				s.caseObj(&o.cases[k], g)
			}
		}
	}
}

//go:norace
func (s *sched) sigOf(tr trans) sig {
	var g sig
	s.sigAdd(&g, s.threads[tr.a], tr.ca)
	if tr.b >= 0 {
		s.sigAdd(&g, s.threads[tr.b], tr.cb)
	}
	return g
}

//go:norace
func dependent(e *sleepEntry, ka, kb string, g *sig) bool {
	if e.ka == ka || (kb != "" && (e.ka == kb || e.kb == kb)) || (e.kb != "" && e.kb == ka) {
		return true
	}
	if e.sg.global || g.global {
		return true
	}
	for _, x := range e.sg.objs {
		for _, y := range g.objs {
			if x.p == y.p && (x.w || y.w) {
				return true
			}
		}
	}
	return false
}

// touch records an object modified by a non-point operation of the running step
// (WaitGroup.Add/Done): it can disable a sleeping transition, so it counts as part
// of the executed transition's footprint.
//
//go:norace
func (s *sched) touch(p unsafe.Pointer) {
	if s.sleepMode && s.havePend {
		s.chosenSig.objs = append(s.chosenSig.objs, objRef{p, true})
	}
}

//go:norace
func (s *sched) keyOf(id int) string {
	if id < 0 {
		return ""
	}
	return s.threads[id].key
}

// decide is called with s.mu held when no thread is running.
//
//go:norace
func (s *sched) decide() {
	if s.finished {
		return
	}
	if f := s.forced; f != nil {
		s.forced = nil
		f.baton = false
		s.running++
		f.wake.put(0)
		return
	}
	// A thread's first step (from its start to its first scheduling point) touches
	// nothing another thread can observe (data-race freedom: everything it reads was
	// published before the go statement), so it is independent of every other
	// transition: run it eagerly, in creation order, without making it a choice.
	for _, t := range s.threads {
		if t.parked && !t.done && t.pend.kind == opStart {
			t.parked = false
			s.running++
			t.wake.put(0)
			return
		}
	}
	if s.sleepMode && s.havePend {
		// the previous transition's step is complete: its footprint is final
		s.havePend = false
		s.sleep = s.sleep[:0]
		for i := range s.pendSleep {
			e := &s.pendSleep[i]
			if !dependent(e, s.keyOf(s.lastRan[0]), s.keyOf(s.lastRan[1]), &s.chosenSig) {
				s.sleep = append(s.sleep, *e)
			}
		}
	}
	var trs []trans
	for {
		trs = s.enabled()
		if len(trs) > 0 {
			break
		}
		// nothing can move: idle waiters first, then virtual time, else deadlock
		var idle *thread
		for _, t := range s.threads {
			if t.parked && !t.done && t.pend.kind == opIdle {
				idle = t
				break
			}
		}
		if idle != nil {
			s.lastRan = [2]int{idle.id, -1}
			idle.parked = false
			s.running++
			idle.wake.put(0)
			if s.sleepMode {
				// waking an idle waiter is not a choice and conflicts with nothing that is enabled
				s.pendSleep = s.pendSleep[:0]
				for i := range s.sleep {
					s.pendSleep = append(s.pendSleep, s.sleep[i])
				}
				s.chosenSig = sig{}
				s.havePend = true
			}
			return
		}
		if s.fireTimer() {
			if s.sleepMode {
				s.sleep = s.sleep[:0] // a timer is global
			}
			continue
		}
		var bl []string
		for _, t := range s.threads {
			if !t.done {
				bl = append(bl, s.descThread(t))
			}
		}
		s.finish("deadlock", "no enabled transition: "+strings.Join(bl, "; "))
		return
	}
	// canonical order: transitions involving a thread of the previous step first (stable partition)
	{
		ordered := make([]trans, 0, len(trs))
		for _, tr := range trs {
			if s.involvesLast(tr) {
				ordered = append(ordered, tr)
			}
		}
		for _, tr := range trs {
			if !s.involvesLast(tr) {
				ordered = append(ordered, tr)
			}
		}
		trs = ordered
	}
	nfree := 0
	for _, tr := range trs {
		if s.involvesLast(tr) {
			nfree++
		}
	}
	if nfree == 0 {
		nfree = len(trs)
	}
	awake := ^uint64(0)
	first := 0
	if s.sleepMode {
		if len(trs) > 64 {
			toolFail("more than 64 enabled transitions in sleep-set mode")
		}
		awake = 0
		first = -1
		for k, tr := range trs {
			asleep := false
			ka, kb := s.keyOf(tr.a), s.keyOf(tr.b)
			for j := range s.sleep {
				e := &s.sleep[j]
				if e.ka == ka && e.kb == kb && e.ca == tr.ca && e.cb == tr.cb {
					asleep = true
					break
				}
			}
			if !asleep {
				awake |= 1 << uint(k)
				if first < 0 {
					first = k
				}
			}
		}
		if first < 0 {
			s.finish("sleep-blocked", "")
			return
		}
	}
	i := len(s.res.Trace)
	c := first
	if i < len(s.prefix) {
		c = s.prefix[i]
		if !strictReplay && (c < 0 || c >= len(trs) || awake&(1<<uint(c)) == 0) {
			s.res.Diverged = true
			s.prefix = s.prefix[:i]
			c = first
		} else if c < 0 || c >= len(trs) || awake&(1<<uint(c)) == 0 {
			toolFail(fmt.Sprintf("replay divergence at decision %d: choice %d of %d enabled (awake mask %b)", i, c, len(trs), awake))
		}
	}
	s.res.Trace = append(s.res.Trace, Decision{N: len(trs), NFree: nfree, Chosen: c, Awake: awake})
	if s.describe {
		s.res.Desc = append(s.res.Desc, s.descTrans(trs[c]))
	}
	if len(s.res.Trace) > maxDecisions {
		s.finish("deadlock", fmt.Sprintf("livelock: more than %d decisions in one execution", maxDecisions))
		return
	}
	if s.sleepMode {
		// earlier awake siblings have been (or will be, by another shard) explored from
		// this state: they sleep in the chosen branch as long as they stay independent
		s.pendSleep = s.pendSleep[:0]
		for i := range s.sleep {
			s.pendSleep = append(s.pendSleep, s.sleep[i])
		}
		for k := 0; k < c; k++ {
			if awake&(1<<uint(k)) != 0 {
				tr := trs[k]
				s.pendSleep = append(s.pendSleep, sleepEntry{s.keyOf(tr.a), s.keyOf(tr.b), tr.ca, tr.cb, s.sigOf(tr)})
			}
		}
		s.chosenSig = s.sigOf(trs[c])
		s.havePend = true
	}
	s.apply(trs[c])
}

var maxDecisions = 100000

//go:norace
func (s *sched) descTrans(tr trans) string {
	a := s.threads[tr.a]
	d := fmt.Sprintf("T%d %s", a.id, s.descOp(&a.pend))
	if tr.ca >= 0 {
		d += fmt.Sprintf(" case%d", tr.ca)
	} else if a.pend.kind == opSelect {
		d += " default"
	}
	if tr.b >= 0 {
		b := s.threads[tr.b]
		d += fmt.Sprintf(" <-> T%d %s", b.id, s.descOp(&b.pend))
		if tr.cb >= 0 {
			d += fmt.Sprintf(" case%d", tr.cb)
		}
	}
	return d
}

//go:norace
func (s *sched) apply(tr trans) {
	s.res.Steps++
	a := s.threads[tr.a]
	s.lastRan = [2]int{tr.a, tr.b}
	if tr.b >= 0 {
		// rendezvous: receiver runs its step first; the sender physically performs the
		// real send (which meets the receiver) and then waits for the baton.
		b := s.threads[tr.b]
		s.res.Rdv = append(s.res.Rdv, [2]int{tr.a, tr.b})
		s.res.Sends = append(s.res.Sends, tr.a)
		b.parked = false
		s.running++
		b.wake.put(tr.cb)
		a.parked = false
		a.baton = true
		a.rdv = true
		s.forced = a
		a.wake.put(tr.ca)
		return
	}
	o := &a.pend
	switch o.kind {
	case opLock:
		o.mu.held = true
		a.held = append(a.held, heldLock{unsafe.Pointer(o.mu), false})
	case opRLock:
		o.rw.readers++
		a.held = append(a.held, heldLock{unsafe.Pointer(o.rw), true})
	case opWLock:
		o.rw.writer = true
		a.held = append(a.held, heldLock{unsafe.Pointer(o.rw), false})
		if o.rw.pendingW > 0 {
			o.rw.pendingW--
		}
	case opWLockAnnounce:
		o.rw.pendingW++
	case opClose:
		s.closed = append(s.closed, o.c.ch)
	case opSend:
		s.res.Sends = append(s.res.Sends, tr.a)
	case opSelect:
		if tr.ca >= 0 && o.cases[tr.ca].dir == dirSend {
			s.res.Sends = append(s.res.Sends, tr.a)
		}
	}
	a.parked = false
	s.running++
	a.wake.put(tr.ca)
}

//go:norace
func (s *sched) fireTimer() bool {
	var best *vtimer
	for _, tm := range s.timers {
		if tm.stopped || tm.fired.Load() {
			continue
		}
		if tm.tick != nil && len(tm.tick) == cap(tm.tick) {
			continue // nobody took the previous tick: another one would be dropped and change nothing
		}
		if best == nil || tm.deadline.Before(best.deadline) || (tm.deadline.Equal(best.deadline) && tm.seq < best.seq) {
			best = tm
		}
	}
	if best == nil {
		return false
	}
	// Timers due at the same instant as a tick go off together with it, so that what they wake runs
	// interleaved with the ticker's consumer in every order (without tickers: one timer per quiescence).
	group := []*vtimer{best}
	at := best.deadline
	hasTick := best.tick != nil
	for _, tm := range s.timers {
		if tm != best && !tm.stopped && !tm.fired.Load() && tm.deadline.Equal(at) && !(tm.tick != nil && len(tm.tick) == cap(tm.tick)) {
			group = append(group, tm)
			hasTick = hasTick || tm.tick != nil
		}
	}
	if !hasTick {
		group = group[:1]
	}
	if at.After(s.vnow) {
		s.vnow = at
	}
	for _, tm := range group {
		if tm.tick != nil {
			tm.tick <- s.vnow
			tm.deadline = tm.deadline.Add(tm.period)
			if s.describe {
				s.res.Desc = append(s.res.Desc, "virtual ticker ticked (nothing else enabled)")
			}
			continue
		}
		tm.fired.Store(true)
		tm.cancel()
		s.res.Fired++
		if s.describe {
			s.res.Desc = append(s.res.Desc, "virtual timer fired (nothing else enabled)")
		}
	}
	return true
}

// ---------------------------------------------------------------- public hooks

// Go starts fn as a controlled thread (created parked) when called from a
// controlled thread, and as a plain goroutine otherwise.
//
//go:norace
func Go(fn func()) {
	t := cur()
	if t == nil {
		go fn()
		return
	}
	s.lk.lock()
	if t.aborted {
		s.lk.unlock()
		runtime.Goexit()
	}
	s.spawn(t, fn, "")
	s.lk.unlock()
}

// GoNamed is Go with a label used in reports.
//
//go:norace
func GoNamed(name string, fn func()) {
	t := cur()
	if t == nil {
		go fn()
		return
	}
	s.lk.lock()
	if t.aborted {
		s.lk.unlock()
		runtime.Goexit()
	}
	s.spawn(t, fn, name)
	s.lk.unlock()
}

//go:norace
func chanCase(c any, dir int8) Case {
	v := reflect.ValueOf(c)
	if v.Kind() != reflect.Chan {
		toolFail(fmt.Sprintf("verifrt: not a channel: %T", c))
	}
	if v.IsNil() {
		return Case{dir: dir}
	}
	return Case{dir: dir, ch: v.UnsafePointer(), chv: c, cap: v.Cap()}
}

//go:norace
func SendCase(c any) Case { return chanCase(c, dirSend) }

//go:norace
func RecvCase(c any) Case { return chanCase(c, dirRecv) }

//go:norace
func DoneCase(ctx context.Context) Case { return Case{dir: dirDone, ctx: ctx} }

// BeforeSend is the scheduling point in front of `c <- v`.
//
//go:norace
func BeforeSend(c any) {
	if t := cur(); t != nil {
		t.park(op{kind: opSend, c: chanCase(c, dirSend)})
	}
}

// AfterSend follows the real send: the sender of a rendezvous waits here until its
// partner's step is over, so that exactly one thread runs at any time.
//
//go:norace
func AfterSend() {
	t := cur()
	if t == nil || !t.rdv {
		return
	}
	t.rdv = false
	if r := t.wake.get(); r == abortSignal {
		runtime.Goexit()
	}
}

//go:norace
func BeforeRecv(c any) {
	if t := cur(); t != nil {
		t.park(op{kind: opRecv, c: chanCase(c, dirRecv)})
	}
}

//go:norace
func Recv[T any](c <-chan T) T {
	BeforeRecv(c)
	return <-c
}

//go:norace
func Recv2[T any](c <-chan T) (T, bool) {
	BeforeRecv(c)
	v, ok := <-c
	return v, ok
}

// RecvDone is `<-ctx.Done()`.
//
//go:norace
func RecvDone(ctx context.Context) struct{} {
	if t := cur(); t != nil {
		t.park(op{kind: opDone, c: Case{dir: dirDone, ctx: ctx}})
	}
	<-ctx.Done()
	return struct{}{}
}

//go:norace
func Close[T any](c chan<- T) {
	if t := cur(); t != nil {
		t.park(op{kind: opClose, c: chanCase(c, dirSend)})
	}
	close(c)
}

// Select is the scheduling point of a select statement; it returns the index of the
// case to execute (which is then guaranteed not to block) or -1 for default.
//
//go:norace
func Select(hasDefault bool, cases ...Case) int {
	t := cur()
	if t == nil {
		return passThroughSelect(hasDefault, cases)
	}
	return t.park(op{kind: opSelect, cases: cases, hasDefault: hasDefault})
}

// passThroughSelect is used outside an exploration: it waits with reflect.Select on
// readiness only (it must not consume), so it polls. Only used by free-running
// reference code paths, never by a controlled thread.
//
//go:norace
func passThroughSelect(hasDefault bool, cases []Case) int {
	for {
		for i := range cases {
			c := &cases[i]
			switch c.dir {
			case dirDone:
				if ctxDone(c.ctx) {
					return i
				}
			}
		}
		// general case: use reflect.Select on Done channels and a probe for data
		// channels. Data channels cannot be probed without consuming, so let the real
		// operation decide: we build a reflect.Select that performs the operation for
		// recv of struct{}-like done channels only.
		rc := make([]reflect.SelectCase, 0, len(cases)+1)
		idx := make([]int, 0, len(cases)+1)
		for i := range cases {
			c := &cases[i]
			if c.dir == dirDone && c.ctx != nil {
				rc = append(rc, reflect.SelectCase{Dir: reflect.SelectRecv, Chan: reflect.ValueOf(c.ctx.Done())})
				idx = append(idx, i)
			}
		}
		if len(rc) == len(cases) && len(rc) > 0 && !hasDefault {
			ch, _, _ := reflect.Select(rc)
			return idx[ch]
		}
		if hasDefault && len(rc) == len(cases) {
			return -1
		}
		toolFail("verifrt.Select with data channels called outside an exploration (pass-through not supported)")
	}
}

// WaitIdle blocks the caller until no other thread has an enabled transition: an
// exact quiescence test. Virtual timers do not fire while a thread waits idle.
//
//go:norace
func WaitIdle() {
	if t := cur(); t != nil {
		t.park(op{kind: opIdle})
	}
}

// Yield is an explicit scheduling point.
//
//go:norace
func Yield() {
	if t := cur(); t != nil {
		t.park(op{kind: opYield})
	}
}

// Alive lists the other threads that have not finished, with what they are parked at.
//
//go:norace
func Alive() []string {
	t := cur()
	if t == nil {
		return nil
	}
	s.lk.lock()
	defer s.lk.unlock()
	var r []string
	for _, o := range s.threads {
		if o != t && !o.done {
			r = append(r, s.descThread(o))
		}
	}
	return r
}

// AliveCount is len(Alive()) without the descriptions.
//
//go:norace
func AliveCount() int {
	t := cur()
	if t == nil {
		return 0
	}
	s.lk.lock()
	defer s.lk.unlock()
	n := 0
	for _, o := range s.threads {
		if o != t && !o.done {
			n++
		}
	}
	return n
}

// Logf appends to the execution's observation log.
//
//go:norace
func Logf(format string, a ...any) {
	if cur() == nil {
		return
	}
	s.lk.lock()
	s.res.Log = append(s.res.Log, fmt.Sprintf(format, a...))
	s.lk.unlock()
}

// Stamp returns a strictly increasing logical time (one thread runs at a time, so
// stamp order is real-time order). It is itself a scheduling point, and two stamps
// never commute, so every relative order of two threads' stamps is explored.
//
//go:norace
func Stamp() int64 {
	if t := cur(); t != nil {
		t.park(op{kind: opStamp})
	}
	return atomic.AddInt64(&s.clock, 1)
}

// Rendezvous returns the {sender, receiver} thread pairs of all unbuffered channel
// hand-overs so far in this execution, in order.
//
//go:norace
func Rendezvous() [][2]int {
	s.lk.lock()
	defer s.lk.unlock()
	return append([][2]int(nil), s.res.Rdv...)
}

// Sends returns the sender thread of every channel send granted so far, in order.
//
//go:norace
func Sends() []int {
	s.lk.lock()
	defer s.lk.unlock()
	return append([]int(nil), s.res.Sends...)
}

// FiredTimers returns how many virtual timers fired so far in this execution.
//
//go:norace
func FiredTimers() int {
	s.lk.lock()
	defer s.lk.unlock()
	return s.res.Fired
}

// ---------------------------------------------------------------- sync models

type MuState struct {
	epoch uint64
	held  bool
}
type RWState struct {
	epoch    uint64
	readers  int
	writer   bool
	pendingW int
}
type WGState struct {
	epoch uint64
	n     int
}

//go:norace
func MuLock(st *MuState) {
	if t := cur(); t != nil {
		if st.epoch != t.epoch {
			*st = MuState{epoch: t.epoch}
		}
		t.park(op{kind: opLock, mu: st})
	}
}

// MuUnlock (like RWUnlock, RWRUnlock) reports whether the real mutex is to be unlocked too: always,
// except in a thread that is being torn down and never got the lock (see heldLock).
//
//go:norace
func MuUnlock(st *MuState) bool {
	if t := cur(); t != nil {
		s.lk.lock()
		defer s.lk.unlock()
		had := t.release(unsafe.Pointer(st), false)
		if !had && (t.aborted || t.epoch != s.epoch) {
			return false
		}
		if st.epoch == t.epoch {
			st.held = false
		}
	}
	return true
}

//go:norace
func RWRLock(st *RWState) {
	if t := cur(); t != nil {
		if st.epoch != t.epoch {
			*st = RWState{epoch: t.epoch}
		}
		t.park(op{kind: opRLock, rw: st})
	}
}

//go:norace
func RWRUnlock(st *RWState) bool {
	if t := cur(); t != nil {
		s.lk.lock()
		defer s.lk.unlock()
		had := t.release(unsafe.Pointer(st), true)
		if !had && (t.aborted || t.epoch != s.epoch) {
			return false
		}
		if st.epoch == t.epoch && st.readers > 0 {
			st.readers--
		}
	}
	return true
}

//go:norace
func RWLock(st *RWState) {
	if t := cur(); t != nil {
		if st.epoch != t.epoch {
			*st = RWState{epoch: t.epoch}
		}
		if s.writerPref {
			t.park(op{kind: opWLockAnnounce, rw: st})
		}
		t.park(op{kind: opWLock, rw: st})
	}
}

//go:norace
func RWUnlock(st *RWState) bool {
	if t := cur(); t != nil {
		s.lk.lock()
		defer s.lk.unlock()
		had := t.release(unsafe.Pointer(st), false)
		if !had && (t.aborted || t.epoch != s.epoch) {
			return false
		}
		if st.epoch == t.epoch {
			st.writer = false
		}
	}
	return true
}

//go:norace
func WGAdd(st *WGState, n int) {
	if t := cur(); t != nil {
		s.lk.lock()
		if st.epoch != t.epoch {
			*st = WGState{epoch: t.epoch}
		}
		st.n += n
		s.touch(unsafe.Pointer(st))
		s.lk.unlock()
	}
}

//go:norace
func WGWait(st *WGState) {
	if t := cur(); t != nil {
		if st.epoch != t.epoch {
			*st = WGState{epoch: t.epoch}
		}
		t.park(op{kind: opWait, wg: st})
	}
}

// ---------------------------------------------------------------- contexts

// vtimerCtx is the context behind verifrt.WithTimeout / WithDeadline: a cancel
// context whose deadline is a virtual timer. It implements the standard library's
// AfterFunc hook, so contexts derived from it are cancelled synchronously, with
// this context's own error (DeadlineExceeded when the timer fired), exactly like
// children of a real deadline context.
type vtimerCtx struct {
	parent context.Context
	tm     *vtimer
	mu     sync.Mutex
	done   chan struct{}
	err    error
	funcs  map[int]func()
	nfunc  int
}

//go:norace
func (c *vtimerCtx) Done() <-chan struct{} { return c.done }

//go:norace
func (c *vtimerCtx) Deadline() (time.Time, bool) { return c.tm.deadline, true }

//go:norace
func (c *vtimerCtx) Value(key any) any { return c.parent.Value(key) }

//go:norace
func (c *vtimerCtx) Err() error {
	c.mu.Lock()
	defer c.mu.Unlock()
	return c.err
}

// AfterFunc: see context.AfterFunc; f runs synchronously in the thread that ends c.
//
//go:norace
func (c *vtimerCtx) AfterFunc(f func()) (stop func() bool) {
	c.mu.Lock()
	defer c.mu.Unlock()
	if c.err != nil {
		go f()
		return func() bool { return false }
	}
	id := c.nfunc
	c.nfunc++
	c.funcs[id] = f
	return func() bool {
		c.mu.Lock()
		defer c.mu.Unlock()
		_, ok := c.funcs[id]
		delete(c.funcs, id)
		return ok
	}
}

//go:norace
func (c *vtimerCtx) finish(err error) {
	c.mu.Lock()
	if c.err != nil {
		c.mu.Unlock()
		return
	}
	c.err = err
	close(c.done)
	fs := c.funcs
	c.funcs = map[int]func(){}
	c.mu.Unlock()
	ids := make([]int, 0, len(fs))
	for id := range fs {
		ids = append(ids, id)
	}
	sort.Ints(ids)
	for _, id := range ids {
		fs[id]()
	}
}

//go:norace
func wrapCancel(ctx context.Context, cancel context.CancelFunc) context.CancelFunc {
	return func() {
		if t := cur(); t != nil && ctx.Err() == nil {
			t.park(op{kind: opCancel, c: Case{ctx: ctx}})
		}
		cancel()
	}
}

// CtxErr is `ctx.Err()`: a scheduling point, because the answer depends on whether a
// cancel of ctx (or of an ancestor) has already happened.
//
//go:norace
func CtxErr(ctx context.Context) error {
	if t := cur(); t != nil && donePtr(ctx) != nil {
		t.park(op{kind: opCtxErr, c: Case{dir: dirDone, ctx: ctx}})
	}
	return ctx.Err()
}

//go:norace
func WithCancel(parent context.Context) (context.Context, context.CancelFunc) {
	ctx, cancel := context.WithCancel(parent)
	if cur() == nil {
		return ctx, cancel
	}
	s.lk.lock()
	s.registerCtx(ctx, parent)
	s.lk.unlock()
	return ctx, wrapCancel(ctx, cancel)
}

// VNow is the virtual wall clock: it only advances when a virtual timer fires.
//
//go:norace
func VNow() time.Time {
	s.lk.lock()
	defer s.lk.unlock()
	return s.vnow
}

// VirtualClock makes Now report the virtual wall clock for the rest of this execution.
//
//go:norace
func VirtualClock() {
	if cur() == nil {
		return
	}
	s.lk.lock()
	s.vclock = true
	s.lk.unlock()
}

// Now stands in for time.Now in instrumented code: the virtual wall clock once the execution asked
// for it (VirtualClock), the real one otherwise.
//
//go:norace
func Now() time.Time {
	if cur() == nil {
		return time.Now()
	}
	s.lk.lock()
	defer s.lk.unlock()
	if !s.vclock {
		return time.Now()
	}
	return s.vnow
}

// Ticker stands in for time.Ticker in instrumented code. Under the scheduler it ticks in virtual time:
// like every virtual timer only when nothing else can move, in deadline order, and never into a full channel.
type Ticker struct {
	C    <-chan time.Time
	real *time.Ticker
	tm   *vtimer
}

//go:norace
func NewTicker(d time.Duration) *Ticker {
	if cur() == nil {
		rt := time.NewTicker(d)
		return &Ticker{C: rt.C, real: rt}
	}
	if d <= 0 {
		panic("non-positive interval for NewTicker")
	}
	ch := make(chan time.Time, 1)
	s.lk.lock()
	tm := &vtimer{deadline: s.vnow.Add(d), period: d, tick: ch, seq: s.timerSeq}
	s.timerSeq++
	s.timers = append(s.timers, tm)
	s.lk.unlock()
	return &Ticker{C: ch, tm: tm}
}

//go:norace
func (t *Ticker) Stop() {
	if t.real != nil {
		t.real.Stop()
		return
	}
	s.lk.lock()
	t.tm.stopped = true
	s.lk.unlock()
}

//go:norace
func (t *Ticker) Reset(d time.Duration) {
	if t.real != nil {
		t.real.Reset(d)
		return
	}
	if d <= 0 {
		panic("non-positive interval for Ticker.Reset")
	}
	s.lk.lock()
	t.tm.period = d
	t.tm.deadline = s.vnow.Add(d)
	t.tm.stopped = false
	s.lk.unlock()
}

// deadlineCtx is what WithDeadline hands out: a standard cancel context (so that
// contexts derived from it - also through value contexts - are registered with it and
// cancelled synchronously) whose parent is the hidden vtimerCtx root; when the virtual
// timer fires the root ends with DeadlineExceeded and the standard library propagates
// exactly that error down the tree.
type deadlineCtx struct {
	context.Context
	deadline time.Time
}

//go:norace
func (c *deadlineCtx) Deadline() (time.Time, bool) { return c.deadline, true }

//go:norace
func WithDeadline(parent context.Context, d time.Time) (context.Context, context.CancelFunc) {
	t := cur()
	if t == nil {
		return context.WithDeadline(parent, d)
	}
	root := &vtimerCtx{parent: parent, done: make(chan struct{}), funcs: map[int]func(){}}
	s.lk.lock()
	tm := &vtimer{deadline: d, cancel: func() { root.finish(context.DeadlineExceeded) }, seq: s.timerSeq}
	root.tm = tm
	s.timerSeq++
	s.timers = append(s.timers, tm)
	s.lk.unlock()
	inner, icancel := context.WithCancel(root) // registers with root through its AfterFunc hook
	ctx := &deadlineCtx{Context: inner, deadline: d}
	s.lk.lock()
	s.registerCtx(ctx, parent)
	s.lk.unlock()
	if parent.Done() != nil {
		// a cancellable parent: follow it (the standard library runs this callback on its own
		// goroutine; harnesses use background parents for timed contexts)
		context.AfterFunc(parent, func() { root.finish(parent.Err()) })
	}
	return ctx, func() {
		if t := cur(); t != nil && ctx.Err() == nil {
			t.park(op{kind: opCancel, c: Case{ctx: ctx}})
		}
		s.lk.lock()
		tm.stopped = true
		s.lk.unlock()
		icancel()
	}
}

//go:norace
func WithTimeout(parent context.Context, d time.Duration) (context.Context, context.CancelFunc) {
	if cur() == nil {
		return context.WithTimeout(parent, d)
	}
	return WithDeadline(parent, VNow().Add(d))
}

// ---------------------------------------------------------------- running one execution

var epochCounter uint64

// RunOnce runs body as the root thread under the given decision prefix (choice 0
// afterwards) and returns when the execution is over and every goroutine it
// started has gone.
//
//go:norace
func RunOnce(prefix []int, describe bool, body func()) *ExecResult {
	return runOnce(prefix, describe, false, body)
}

//go:norace
func runOnce(prefix []int, describe, sleepMode bool, body func()) *ExecResult {
	s.lk.lock()
	epochCounter++
	s.epoch = epochCounter
	s.threads = s.threads[:0]
	s.running = 0
	s.forced = nil
	s.lastRan = [2]int{0, -1}
	s.timers = nil
	s.timerSeq = 0
	s.closed = s.closed[:0]
	s.prefix = prefix
	s.res = &ExecResult{}
	s.finished = false
	s.doneCh = make(chan struct{})
	s.clock = 0
	s.describe = describe
	s.vnow = time.Unix(1_000_000, 0)
	s.vclock = false
	s.sleepMode = sleepMode
	s.ctxNodes = s.ctxNodes[:0]
	s.sleep = s.sleep[:0]
	s.pendSleep = s.pendSleep[:0]
	s.havePend = false
	active.set(true)
	root := s.spawn(nil, body, "root")
	root.parked = false
	s.running = 1
	root.wake.put(0)
	done := s.doneCh
	res := s.res
	s.lk.unlock()

	watchdog := time.NewTimer(60 * time.Second)
	select {
	case <-done:
	case <-watchdog.C:
		toolFail("stuck execution: a released thread neither parked nor exited within 60s (blocked in an operation the instrumenter did not see?)")
	}
	// tear down one thread at a time: aborted threads run their deferred calls, and
	// those must not run concurrently with each other.
	s.lk.lock()
	ths := append([]*thread(nil), s.threads...)
	s.lk.unlock()
	for _, t := range ths {
		s.lk.lock()
		d := t.done
		s.lk.unlock()
		if !d {
			t.wake.put(abortSignal)
		}
		select {
		case <-t.exited:
		case <-watchdog.C:
			toolFail("stuck teardown: an aborted thread did not exit within 60s")
		}
	}
	s.all.Wait()
	watchdog.Stop()
	active.set(false)
	res.Threads = len(s.threads)
	return res
}

// SetWriterPreference turns on the RWMutex writer-pending model (Lock becomes two
// points: announce, acquire; a pending writer blocks new readers, like Go's RWMutex).
//
//go:norace
func SetWriterPreference(on bool) { s.writerPref = on }
