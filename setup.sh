#!/bin/sh
# Offline setup: build the instrumenter and warm the Go build cache for every harness.
set -e
cd "$(dirname "$0")"
export GOFLAGS=-mod=mod GOPROXY=off GOSUMDB=off GOTOOLCHAIN=local
mkdir -p bin evidence replays
(cd tools/vinst && go build -o ../../bin/vinst .)
ids=$(python3 -c "import json;print(' '.join(json.load(open('checks.json')).keys()))")
./check --build-only $ids
