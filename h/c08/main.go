// C08 — include-filtered List/Pull behave as the filtered collection: all 64
// predicates over (id in {a,b}) x (value in {absent, v1, v2}) x all write
// histories x backpressure on/off (the lossy path under every schedule), plus the
// booking server's period-intersection predicate.
package main

import (
	"context"
	"fmt"
	"sort"
	"strings"

	"google.golang.org/protobuf/proto"
	"google.golang.org/protobuf/types/known/timestamppb"

	"github.com/smart-core-os/sc-api/go/traits"
	"github.com/smart-core-os/sc-api/go/types"
	sctime "github.com/smart-core-os/sc-api/go/types/time"
	"github.com/smart-core-os/sc-golang/internal/testproto"
	"github.com/smart-core-os/sc-golang/pkg/resource"
	"github.com/smart-core-os/sc-golang/pkg/trait/bookingpb"
	"github.com/smart-core-os/sc-golang/pkg/wrap"
	"verifrt"
	"verifrt/hx"
)

type T = testproto.TestAllTypes

// nested: the number the predicates read lives in a sub-message (default_nested_message.a), next to a sibling the
// histories never touch, and updates write it through an update mask naming just that path - the stored item and
// the event's old value are then two messages that must not share the sub-message the update writes into
var nested bool

func msg(v int) *T {
	if nested {
		return &T{DefaultNestedMessage: &testproto.TestAllTypes_NestedMessage{A: int32(v)}}
	}
	return &T{DefaultInt32: int32(v)}
}
func vOf(m proto.Message) int {
	if m == nil {
		return 0
	}
	if nested {
		return int(m.(*T).GetDefaultNestedMessage().GetA())
	}
	return int(m.(*T).DefaultInt32)
}

// predicate number p: bit (idIndex*3 + value) where value 0 = absent (nil), 1, 2
type pred int

func (p pred) holds(id string, v int) bool {
	i := 0
	if id == "b" {
		i = 1
	}
	return int(p)&(1<<uint(i*3+v)) != 0
}
func (p pred) fn() resource.FilterFunc {
	return func(id string, item proto.Message) bool { return p.holds(id, vOf(item)) }
}
func (p pred) String() string { return fmt.Sprintf("p%06b", int(p)) }

type wop struct {
	Kind string // add update delete
	ID   string
	V    int
}

func (w wop) String() string { return fmt.Sprintf("%s(%s,%d)", w.Kind, w.ID, w.V) }

func histories(n int) [][]wop {
	var out [][]wop
	var rec func(cur []wop, st map[string]int)
	rec = func(cur []wop, st map[string]int) {
		if len(cur) > 0 {
			out = append(out, append([]wop{}, cur...))
		}
		if len(cur) == n {
			return
		}
		for _, id := range []string{"a", "b"} {
			var next []wop
			if st[id] == 0 {
				next = []wop{{"add", id, 1}, {"add", id, 2}, {"update", id, 1}, {"delete", id, 0}} // the last two fail
			} else {
				next = []wop{{"update", id, 1}, {"update", id, 2}, {"delete", id, 0}, {"add", id, 1}} // the last fails
			}
			for _, w := range next {
				s2 := map[string]int{"a": st["a"], "b": st["b"]}
				switch {
				case w.Kind == "add" && st[id] == 0, w.Kind == "update" && st[id] != 0:
					s2[id] = w.V
				case w.Kind == "delete" && st[id] != 0:
					s2[id] = 0
				}
				rec(append(cur, w), s2)
			}
		}
	}
	rec(nil, map[string]int{})
	return out
}

// singleIDHistories: every history of 1..n successful writes on id "a" starting from an empty collection
func singleIDHistories(n int) [][]wop {
	var out [][]wop
	var rec func(cur []wop, v int)
	rec = func(cur []wop, v int) {
		if len(cur) > 0 {
			out = append(out, append([]wop{}, cur...))
		}
		if len(cur) == n {
			return
		}
		if v == 0 {
			rec(append(cur, wop{"add", "a", 1}), 1)
			rec(append(cur, wop{"add", "a", 2}), 2)
			return
		}
		rec(append(cur, wop{"update", "a", 3 - v}), 3-v)
		rec(append(cur, wop{"delete", "a", 0}), 0)
	}
	rec(nil, 0)
	return out
}

type ev struct {
	kind     string
	id       string
	old, new int
}

func (e ev) String() string { return fmt.Sprintf("%s:%s:%d>%d", e.kind, e.id, e.old, e.new) }

func listStr(col *resource.Collection, p pred) string {
	var parts []string
	for _, id := range []string{"a", "b"} {
		if m, ok := col.Get(id); ok && p.holds(id, vOf(m)) {
			parts = append(parts, fmt.Sprintf("%s=%d", id, vOf(m)))
		}
	}
	return strings.Join(parts, ",")
}

func realList(col *resource.Collection, p pred) string {
	var parts []string
	for _, m := range col.List(resource.WithInclude(p.fn())) {
		parts = append(parts, fmt.Sprint(vOf(m)))
	}
	return strings.Join(parts, ",")
}

func apply(col *resource.Collection, w wop) error {
	var err error
	switch w.Kind {
	case "add":
		_, err = col.Add(w.ID, msg(w.V))
	case "update":
		if nested {
			_, err = col.Update(w.ID, msg(w.V), resource.WithUpdatePaths("default_nested_message.a"))
			break
		}
		_, err = col.Update(w.ID, msg(w.V))
	case "delete":
		_, err = col.Delete(w.ID)
	}
	return err
}

// body runs one (predicate, history, backpressure, subscribe position) case; failures go to report.
func body(p pred, hist []wop, backpressure bool, subAfter int, report func(k, m string)) func() {
	return bodyM(p, hist, backpressure, subAfter, false, report)
}

// bodyM: masked = the Pull also carries a read mask that hides the field the predicate looks at. The predicate
// speaks about the ITEM, not about what this subscriber is shown of it: membership must not change.
func bodyM(p pred, hist []wop, backpressure bool, subAfter int, masked bool, report func(k, m string)) func() {
	return func() {
		col := resource.NewCollection()
		ctx, cancel := context.WithCancel(context.Background())
		defer cancel()
		if backpressure {
			// a neighbour registered earlier, with backpressure and a read mask hiding the field the predicates
			// read: what it is shown is its own business and must not reach the subscriber under test
			nb := col.Pull(ctx, resource.WithBackpressure(true), resource.WithReadPaths(&T{}, "default_string"))
			go func() {
				for range nb {
				}
			}()
		}
		var got []ev
		view := map[string]int{}
		subscribe := func() string {
			seedWant := listStr(col, p)
			popts := []resource.ReadOption{resource.WithInclude(p.fn()), resource.WithBackpressure(backpressure)}
			if masked {
				popts = append(popts, resource.WithReadPaths(&T{}, "default_string"))
			}
			ch := col.Pull(ctx, popts...)
			go func() {
				for e := range ch {
					x := ev{e.ChangeType.String(), e.Id, vOf(e.OldValue), vOf(e.NewValue)}
					got = append(got, x)
					if e.ChangeType == types.ChangeType_REMOVE {
						delete(view, e.Id)
					} else {
						view[e.Id] = x.new
					}
				}
			}()
			return seedWant
		}
		viewStr := func() string {
			var parts []string
			for _, id := range []string{"a", "b"} {
				if v, ok := view[id]; ok {
					if masked {
						parts = append(parts, id) // the value is hidden from this subscriber: membership only
					} else {
						parts = append(parts, fmt.Sprintf("%s=%d", id, v))
					}
				}
			}
			return strings.Join(parts, ",")
		}
		listStr := func(col *resource.Collection, p pred) string {
			if !masked {
				return listStr(col, p)
			}
			var parts []string
			for _, id := range []string{"a", "b"} {
				if m, ok := col.Get(id); ok && p.holds(id, vOf(m)) {
					parts = append(parts, id)
				}
			}
			return strings.Join(parts, ",")
		}
		st := map[string]int{}
		subscribed := false
		var want []ev
		noAbsent := !p.holds("a", 0) && !p.holds("b", 0)
		if subAfter == 0 {
			subscribe()
			subscribed = true
		}
		for k, w := range hist {
			old := st[w.ID]
			err := apply(col, w)
			if err == nil {
				nv := w.V
				if w.Kind == "delete" {
					nv = 0
				}
				st[w.ID] = nv
				if subscribed {
					oldIn := old != 0 && p.holds(w.ID, old)
					newIn := nv != 0 && p.holds(w.ID, nv)
					switch {
					case !oldIn && newIn:
						want = append(want, ev{"ADD", w.ID, 0, nv})
					case oldIn && !newIn:
						want = append(want, ev{"REMOVE", w.ID, old, 0})
					case oldIn && newIn:
						want = append(want, ev{"UPDATE", w.ID, old, nv})
					}
				}
			}
			if k+1 == subAfter {
				subscribe()
				subscribed = true
			}
			if subscribed && backpressure {
				verifrt.WaitIdle()
				// folding the filtered stream always yields List with the same predicate
				if v, l := viewStr(), listStr(col, p); v != l {
					report("fold", fmt.Sprintf("after %v the folded filtered stream is {%s}, the filtered collection is {%s}; events %v", w, v, l, got))
					return
				}
			}
		}
		verifrt.WaitIdle()
		if v, l := viewStr(), listStr(col, p); v != l {
			report("fold", fmt.Sprintf("at the end the folded filtered stream is {%s}, the filtered collection is {%s}; events %v", v, l, got))
			return
		}
		// List with the predicate is the filtered collection
		var wl []string
		for _, id := range []string{"a", "b"} {
			if m, ok := col.Get(id); ok && p.holds(id, vOf(m)) {
				wl = append(wl, fmt.Sprint(vOf(m)))
			}
		}
		if rl := realList(col, p); rl != strings.Join(wl, ",") {
			report("list", fmt.Sprintf("List(WithInclude) gives [%s], the filtered collection is [%s]", rl, strings.Join(wl, ",")))
			return
		}
		if backpressure && noAbsent && !masked {
			// per-event decision table (seed events excluded)
			var nonSeed []ev
			seeds := 0
			for _, e := range got {
				_ = e
			}
			// seeds come first: count them as the items matching at subscribe time
			nonSeed = got
			if subAfter > 0 || true {
				// number of seed events = len(got) - len(want) when everything is right
				seeds = len(got) - len(want)
				if seeds < 0 {
					seeds = 0
				}
				nonSeed = got[seeds:]
			}
			if len(nonSeed) != len(want) {
				report("decision-table", fmt.Sprintf("events after the seed %v, the inclusion table gives %v", nonSeed, want))
				return
			}
			for i := range want {
				g, w := nonSeed[i], want[i]
				kindOK := g.kind == w.kind || (w.kind == "UPDATE" && g.kind != "REMOVE")
				if !kindOK || g.id != w.id || g.new != w.new || (w.kind != "ADD" && g.old != w.old) {
					report("decision-table", fmt.Sprintf("event %d is %v, the inclusion table gives %v (all: %v vs %v)", i, g, w, nonSeed, want))
					return
				}
			}
		}
	}
}

// bodyConc: the subscription is opened by another thread WHILE the history is written: wherever the Pull lands
// between the writes (and between a write's commit and its event), the seed is the filtered list of that moment
// and the events are the filtered rest - folding them gives List with the same predicate.
func bodyConc(p pred, hist []wop, backpressure bool, name string) func() {
	return func() {
		col := resource.NewCollection(resource.WithInitialRecord("a", msg(1)))
		ctx, cancel := context.WithCancel(context.Background())
		defer cancel()
		view := map[string]int{}
		var got []ev
		go func() {
			for e := range col.Pull(ctx, resource.WithInclude(p.fn()), resource.WithBackpressure(backpressure)) {
				got = append(got, ev{e.ChangeType.String(), e.Id, vOf(e.OldValue), vOf(e.NewValue)})
				if e.ChangeType == types.ChangeType_REMOVE {
					delete(view, e.Id)
				} else {
					view[e.Id] = vOf(e.NewValue)
				}
			}
		}()
		go func() {
			for _, w := range hist {
				apply(col, w)
			}
		}()
		verifrt.WaitIdle()
		var parts []string
		for _, id := range []string{"a", "b"} {
			if v, ok := view[id]; ok {
				parts = append(parts, fmt.Sprintf("%s=%d", id, v))
			}
		}
		if v, l := strings.Join(parts, ","), listStr(col, p); v != l {
			verifrt.Logf("FAIL fold-concurrent-subscribe %s ## the folded filtered stream is {%s}, the filtered collection is {%s}; events %v", name, v, l, got)
		}
		verifrt.Logf("OUT %v", got)
	}
}

// bodySeedThenList: a subscription is opened and, before its consumer has read a thing, the same caller writes an
// item and lists the collection (and opens a second subscription) with another predicate: the first subscriber's
// seed is still ITS filtered list as it was when it subscribed, and folding seed and events gives its filtered
// collection as it is now.
func bodySeedThenList(p, other pred, name string) func() {
	return func() {
		col := resource.NewCollection(resource.WithInitialRecord("a", msg(1)), resource.WithInitialRecord("b", msg(2)))
		ctx, cancel := context.WithCancel(context.Background())
		defer cancel()
		view := map[string]int{}
		var seed []string
		seedWant := listStr(col, p)
		ch := col.Pull(ctx, resource.WithInclude(p.fn()))
		if _, err := col.Update("b", msg(1)); err != nil {
			verifrt.Logf("FAIL seed-then-list-write %s ## %v", name, err)
		}
		listed := realList(col, other)
		ch2 := col.Pull(ctx, resource.WithInclude(other.fn()))
		go func() {
			for e := range ch {
				if e.SeedValue {
					seed = append(seed, fmt.Sprintf("%s=%d", e.Id, vOf(e.NewValue)))
				}
				if e.ChangeType == types.ChangeType_REMOVE {
					delete(view, e.Id)
				} else {
					view[e.Id] = vOf(e.NewValue)
				}
			}
		}()
		go func() {
			for range ch2 {
			}
		}()
		verifrt.WaitIdle()
		var parts, wl []string
		for _, id := range []string{"a", "b"} {
			if v, ok := view[id]; ok {
				parts = append(parts, fmt.Sprintf("%s=%d", id, v))
			}
			if m, ok := col.Get(id); ok && other.holds(id, vOf(m)) {
				wl = append(wl, fmt.Sprint(vOf(m)))
			}
		}
		if got := strings.Join(seed, ","); got != seedWant {
			verifrt.Logf("FAIL seed-then-list-seed %s ## the subscriber was seeded with {%s}, its filtered collection was {%s} when it subscribed", name, got, seedWant)
		}
		if v, l := strings.Join(parts, ","), listStr(col, p); v != l {
			verifrt.Logf("FAIL seed-then-list %s ## the folded filtered stream is {%s}, the filtered collection is {%s}", name, v, l)
		}
		if listed != strings.Join(wl, ",") {
			verifrt.Logf("FAIL seed-then-list-list %s ## List(WithInclude) gives [%s], the filtered collection is [%s]", name, listed, strings.Join(wl, ","))
		}
	}
}

// bodyEquiv: the collection was built with a COARSE equivalence (every two values of an item are "the same" - a
// tolerance wider than the predicate's threshold). That may thin out UPDATE events between two values that both match;
// whether an item matches the predicate at all is another matter: crossing the predicate's boundary is an ADD or a
// REMOVE for the filtered subscriber, and folding the filtered stream still gives List's MEMBERS.
func bodyEquiv(p pred, hist []wop, backpressure bool, name string) func() {
	return func() {
		col := resource.NewCollection(resource.WithMessageEquivalence(func(x, y proto.Message) bool { return x != nil && y != nil }))
		ctx, cancel := context.WithCancel(context.Background())
		defer cancel()
		view := map[string]bool{}
		var got []ev
		ch := col.Pull(ctx, resource.WithInclude(p.fn()), resource.WithBackpressure(backpressure))
		go func() {
			for e := range ch {
				got = append(got, ev{e.ChangeType.String(), e.Id, vOf(e.OldValue), vOf(e.NewValue)})
				if e.ChangeType == types.ChangeType_REMOVE {
					delete(view, e.Id)
				} else {
					view[e.Id] = true
				}
			}
		}()
		for _, w := range hist {
			apply(col, w)
			if backpressure {
				verifrt.WaitIdle()
			}
		}
		verifrt.WaitIdle()
		var parts, wl []string
		for _, id := range []string{"a", "b"} {
			if view[id] {
				parts = append(parts, id)
			}
			if m, ok := col.Get(id); ok && p.holds(id, vOf(m)) {
				wl = append(wl, id)
			}
		}
		if v, l := strings.Join(parts, ","), strings.Join(wl, ","); v != l {
			verifrt.Logf("FAIL fold-members-coarse-equivalence %s ## the folded filtered stream holds {%s}, the filtered collection {%s}; events %v", name, v, l, got)
		}
	}
}

type bcase struct {
	P      int
	H      []wop
	BP     bool
	Masked bool
	SubA   int
	Nested bool
}

func runSeq(c bcase) (string, string) {
	var fk, fm string
	nested = c.Nested
	defer func() { nested = false }()
	res := verifrt.RunOnce(nil, false, bodyM(pred(c.P), c.H, c.BP, c.SubA, c.Masked, func(k, m string) {
		if fk == "" {
			fk, fm = k, m
		}
	}))
	if fk == "" && res.Status != "ok" {
		return res.Status, res.Msg
	}
	return fk, fm
}

// ---------------------------------------------------------------- booking server

func bookings(s *hx.Seq) {
	if !s.Own() {
		return
	}
	ts := func(sec int64) *timestamppb.Timestamp {
		if sec < 0 {
			return nil
		}
		return &timestamppb.Timestamp{Seconds: sec}
	}
	grid := []int64{-1, 0, 2, 4}
	var periods [][2]int64
	for _, a := range grid {
		for _, b := range grid {
			if a < 0 || b < 0 || a < b {
				periods = append(periods, [2]int64{a, b})
			}
		}
	}
	inter := func(p, q [2]int64) bool {
		lo, hi := int64(-1<<62), int64(1<<62)
		for _, x := range [][2]int64{p, q} {
			if x[0] >= 0 && x[0] > lo {
				lo = x[0]
			}
			if x[1] >= 0 && x[1] < hi {
				hi = x[1]
			}
		}
		return lo < hi
	}
	ctx := context.Background()
	for _, q := range periods {
		m := bookingpb.NewModel()
		srv := bookingpb.NewModelServer(m)
		var want []string
		for i, p := range periods {
			id := fmt.Sprintf("b%02d", i)
			if _, err := m.CreateBooking(&traits.Booking{Id: id, Booked: &sctime.Period{StartTime: ts(p[0]), EndTime: ts(p[1])}}); err != nil {
				s.Fail("booking-create", err.Error(), nil)
				return
			}
			if inter(p, q) {
				want = append(want, id)
			}
		}
		// a booking that has no period at all intersects nothing, whatever is asked for (also "all time")
		if _, err := m.CreateBooking(&traits.Booking{Id: "zz-no-period"}); err != nil {
			s.Fail("booking-create", err.Error(), nil)
			return
		}
		s.Eval(1)
		s.Trans(len(periods))
		resp, err := srv.ListBookings(ctx, &traits.ListBookingsRequest{Name: "n", BookingIntersects: &sctime.Period{StartTime: ts(q[0]), EndTime: ts(q[1])}})
		if err != nil {
			s.Fail("booking-list-error", err.Error(), nil)
			continue
		}
		var got []string
		for _, b := range resp.Bookings {
			got = append(got, b.Id)
		}
		sort.Strings(got)
		name := fmt.Sprintf("booking_intersects=[%d,%d)", q[0], q[1])
		s.State(name)
		s.Distinct(name)
		if fmt.Sprint(got) != fmt.Sprint(want) {
			s.Fail("booking-list "+name, fmt.Sprintf("ListBookings returned %v, the bookings intersecting the period are %v", got, want), nil)
		}
		// PullBookings with the same predicate folds to the same set: its seed, then a booking moved onto each
		// grid period in turn (starts / stops matching, stays)
		var pulled []string
		res := verifrt.RunOnce(nil, false, func() {
			client := traits.NewBookingApiClient(wrap.ServerToClient(traits.BookingApi_ServiceDesc, srv))
			pctx, cancel := context.WithCancel(ctx)
			defer cancel()
			stream, err := client.PullBookings(pctx, &traits.ListBookingsRequest{Name: "n", BookingIntersects: &sctime.Period{StartTime: ts(q[0]), EndTime: ts(q[1])}})
			if err != nil {
				s.Fail("booking-pull-error "+name, err.Error(), nil)
				return
			}
			view := map[string]bool{}
			go func() {
				for {
					r, err := stream.Recv()
					if err != nil {
						return
					}
					for _, c := range r.Changes {
						if c.NewValue == nil {
							delete(view, c.OldValue.GetId())
						} else {
							view[c.NewValue.Id] = true
						}
					}
				}
			}()
			verifrt.WaitIdle()
			check := func(when string) bool {
				l, err := srv.ListBookings(ctx, &traits.ListBookingsRequest{Name: "n", BookingIntersects: &sctime.Period{StartTime: ts(q[0]), EndTime: ts(q[1])}})
				if err != nil {
					return true
				}
				var lw, vw []string
				for _, b := range l.Bookings {
					lw = append(lw, b.Id)
				}
				for id := range view {
					vw = append(vw, id)
				}
				sort.Strings(lw)
				sort.Strings(vw)
				if fmt.Sprint(lw) != fmt.Sprint(vw) {
					s.Fail("booking-pull "+name, fmt.Sprintf("%s: folding PullBookings gives %v, ListBookings gives %v", when, vw, lw), nil)
					return false
				}
				pulled = vw
				return true
			}
			if !check("after the seed") {
				return
			}
			for _, p := range periods {
				if _, err := m.UpdateBooking(&traits.Booking{Id: "b00", Booked: &sctime.Period{StartTime: ts(p[0]), EndTime: ts(p[1])}}); err != nil {
					continue
				}
				verifrt.WaitIdle()
				if !check(fmt.Sprintf("after moving b00 to [%d,%d)", p[0], p[1])) {
					return
				}
			}
		})
		if res.Status != "ok" {
			s.Fail("booking-pull-"+res.Status+" "+name, res.Msg, nil)
		}
		_ = pulled
	}
	s.Sample("ListBookings(booking_intersects=q) over 13 bookings with periods on a grid incl. unbounded ends, for every q of the grid, against an interval oracle")
}

func main() {
	h := hx.New("C08")
	h.Seq("booking", bookings)
	// the lossy path: merged events depend on the schedule, so every schedule is explored
	lossyPreds := []int{0b010010, 0b100010, 0b110000, 0b000110, 0b111111, 0b010001}
	for _, p := range lossyPreds {
		for hi, hist := range histories(3) {
			if len(hist) < 2 || hi%5 != 0 {
				continue
			}
			p, hist := p, hist
			name := fmt.Sprintf("lossy/%v/%v", pred(p), hist)
			q := -1
			if len(hist) == 3 && hi%15 != 0 {
				q = -2
			}
			h.Sched(name, q, -1, body(pred(p), hist, false, 0, func(k, m string) {
				verifrt.Logf("FAIL %s %s ## %s", k, name, m)
			}), hx.StdOracle)
		}
	}
	// longer lossy histories on ONE id, subscribed before or after the first write: the merge window can
	// then hold remove+add+remove (REPLACE followed by REMOVE) for an item the subscriber already holds,
	// with a predicate that tells the held value from the intermediate one
	for _, p := range []int{0b000010, 0b000100, 0b000110} {
		for _, hist := range singleIDHistories(4) {
			if len(hist) < 3 {
				continue
			}
			readd := false
			for i := 0; i+1 < len(hist); i++ {
				if hist[i].Kind == "delete" && hist[i+1].Kind == "add" {
					readd = true
				}
			}
			for _, sub := range []int{0, 1} {
				p, hist, sub := p, hist, sub
				name := fmt.Sprintf("lossy1/%v/%v/sub=%d", pred(p), hist, sub)
				q := -2
				if readd && len(hist) == 4 {
					q = -1
				}
				h.Sched(name, q, -1, body(pred(p), hist, false, sub, func(k, m string) {
					verifrt.Logf("FAIL %s %s ## %s", k, name, m)
				}), hx.StdOracle)
			}
		}
	}
	for _, pp := range [][2]int{{0b111111, 0b111111}, {0b111111, 0b010000}, {0b100010, 0b111111}, {0b100000, 0b010010}} {
		p, o := pred(pp[0]), pred(pp[1])
		name := fmt.Sprintf("seed-then-list/Pull %v; update b; List and Pull %v/a=1,b=2", p, o)
		h.Sched(name, 2, 3, bodySeedThenList(p, o, name), hx.StdOracle)
	}
	for _, p := range []int{0b000100, 0b000010, 0b100100} {
		for _, bp := range []bool{true, false} {
			for _, hist := range [][]wop{
				{{"add", "a", 1}, {"update", "a", 2}},
				{{"add", "a", 2}, {"update", "a", 1}},
				{{"add", "a", 1}, {"update", "a", 2}, {"update", "a", 1}},
				{{"add", "b", 1}, {"add", "a", 2}, {"update", "b", 2}, {"update", "a", 1}},
			} {
				p, bp, hist := p, bp, hist
				name := fmt.Sprintf("coarse-equivalence/bp=%v/%v/%v", bp, pred(p), hist)
				h.Sched(name, -1, -1, bodyEquiv(pred(p), hist, bp, name), hx.StdOracle)
			}
		}
	}
	// the subscription opened concurrently with the writes
	for _, p := range []int{0b111111, 0b000110, 0b010010} {
		for _, bp := range []bool{true, false} {
			for _, hist := range [][]wop{
				{{"add", "b", 2}},
				{{"delete", "a", 0}},
				{{"update", "a", 2}, {"add", "b", 1}},
				{{"add", "b", 2}, {"delete", "a", 0}},
			} {
				p, hist, bp := p, hist, bp
				name := fmt.Sprintf("concurrent-subscribe/bp=%v/%v/a=1 then %v", bp, pred(p), hist)
				h.Sched(name, -1, -1, bodyConc(pred(p), hist, bp, name), hx.StdOracle)
			}
		}
	}
	// last, so that it inherits whatever time the small scenarios above did not use
	h.Seq("backpressure", func(s *hx.Seq) {
		var rc bcase
		if s.Replaying(&rc) {
			if k, m := runSeq(rc); k != "" {
				s.Fail(k, m, rc)
			}
			return
		}
		n := 3
		if s.Thorough {
			n = 4
		}
		hs := histories(n)
		for p := 0; p < 64; p++ {
			for hi, hist := range hs {
				if !s.Own() {
					continue
				}
				for sub := 0; sub < len(hist); sub++ {
					if sub > 0 && hi%2 == 1 && !s.Thorough {
						continue
					}
					c := bcase{P: p, H: hist, BP: true, SubA: sub}
					s.Eval(1)
					s.Trans(len(hist))
					if k, m := runSeq(c); k != "" {
						s.Fail(fmt.Sprintf("%s %v %v sub=%d", k, pred(p), hist, sub), m, c)
					}
					if p%3 == 0 || s.Thorough {
						// the same history once more with a read mask that hides what the predicate reads
						cm := c
						cm.Masked = true
						s.Eval(1)
						s.Trans(len(hist))
						if k, m := runSeq(cm); k != "" {
							s.Fail(fmt.Sprintf("%s(masked) %v %v sub=%d", k, pred(p), hist, sub), m, cm)
						}
					}
					if p%3 == 1 || s.Thorough {
						// the same history with the number in a sub-message and updates masked down to it
						cn := c
						cn.Nested = true
						s.Eval(1)
						s.Trans(len(hist))
						if k, m := runSeq(cn); k != "" {
							s.Fail(fmt.Sprintf("%s(nested field, masked updates) %v %v sub=%d", k, pred(p), hist, sub), m, cn)
						}
					}
					s.State(fmt.Sprint(p, hist, sub))
					if len(hist) > 1 {
						s.Distinct(fmt.Sprint(p, hist, sub))
					}
				}
				if s.Stop() {
					return
				}
			}
		}
		s.Sample(map[string]any{"predicate": pred(0b010110).String(), "history": fmt.Sprint(hs[len(hs)/2]), "meaning": "predicate bits = truth table over (a,b) x (absent,1,2); the history runs on a fresh collection with a backpressured include-filtered subscriber opened before it or after a prefix; after every write (at quiescence) the folded stream must equal List(WithInclude); the events must follow the inclusion decision table"})
	})
	h.Run()
}
