// C20 — trait models keep derived state consistent with their rules: operation
// sequences (bounded-exhaustive) on each model against a small executable spec.
package main

import (
	"fmt"
	"strings"

	"verifrt/hx"
)

func guard(f func()) (p any) {
	defer func() { p = recover() }()
	f()
	return nil
}

// seqs enumerates all sequences over n symbols up to the given depth (shortest first)
func seqs(n, depth int, visit func(path []int) bool) {
	var cur []int
	var rec func(d int) bool
	for d := 1; d <= depth; d++ {
		rec = func(left int) bool {
			if left == 0 {
				return visit(cur)
			}
			for i := 0; i < n; i++ {
				cur = append(cur, i)
				ok := rec(left - 1)
				cur = cur[:len(cur)-1]
				if !ok {
					return false
				}
			}
			return true
		}
		if !rec(d) {
			return
		}
	}
}

func names(path []int, alpha []string) string {
	var s []string
	for _, i := range path {
		s = append(s, alpha[i])
	}
	return strings.Join(s, " ; ")
}

func main() {
	h := hx.New("C20")
	registerParentConcurrent(h)
	h.Seq("parent", parentScenario)
	h.Seq("vending", vendingScenario)
	h.Seq("fanspeed", fanScenario)
	h.Seq("mode", modeScenario)
	h.Seq("enterleave", enterLeaveScenario)
	h.Seq("meter", meterScenario)
	h.Seq("publication", publicationScenario)
	h.Run()
}

var _ = fmt.Sprint
