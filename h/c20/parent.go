package main

import (
	"fmt"
	"sort"
	"strings"

	"github.com/smart-core-os/sc-api/go/traits"
	"github.com/smart-core-os/sc-golang/pkg/trait"
	"github.com/smart-core-os/sc-golang/pkg/trait/parentpb"
	"verifrt/hx"
)

type pop struct {
	name   string
	add    bool
	traits []string
	kind   string // trait | addchild | removechild
}

func parentAlphabet() []pop {
	T := []string{"A", "B", "C", "D"}
	var ops []pop
	for _, add := range []bool{true, false} {
		verb := "Remove"
		if add {
			verb = "Add"
		}
		for _, a := range T {
			ops = append(ops, pop{name: fmt.Sprintf("%sChildTrait(c,%s)", verb, a), add: add, traits: []string{a}, kind: "trait"})
		}
		for _, a := range T {
			for _, b := range T {
				if a != b {
					ops = append(ops, pop{name: fmt.Sprintf("%sChildTrait(c,%s,%s)", verb, a, b), add: add, traits: []string{a, b}, kind: "trait"})
				}
			}
		}
	}
	ops = append(ops, pop{name: "AddChild(c,[B,D])", kind: "addchild", traits: []string{"B", "D"}})
	ops = append(ops, pop{name: "RemoveChildByName(c)", kind: "removechild"})
	return ops
}

func traitNames(c *traits.Child) string {
	var n []string
	for _, t := range c.GetTraits() {
		n = append(n, t.Name)
	}
	return strings.Join(n, ",")
}

func parentRun(path []int, ops []pop) (key, msg string) {
	m := parentpb.NewModel()
	var set map[string]bool // nil = child absent
	for step, oi := range path {
		o := ops[oi]
		var ret *traits.Child
		if p := guard(func() {
			switch o.kind {
			case "trait":
				var tn []trait.Name
				for _, t := range o.traits {
					tn = append(tn, trait.Name(t))
				}
				if o.add {
					ret, _ = m.AddChildTrait("c", tn...)
				} else {
					ret = m.RemoveChildTrait("c", tn...)
				}
			case "addchild":
				var ts []*traits.Trait
				for _, t := range o.traits {
					ts = append(ts, &traits.Trait{Name: t})
				}
				m.AddChild(&traits.Child{Name: "c", Traits: ts})
			case "removechild":
				m.RemoveChildByName("c")
			}
		}); p != nil {
			return "panic", fmt.Sprintf("step %d (%s) panicked: %v", step, o.name, p)
		}
		// spec
		switch o.kind {
		case "trait":
			if o.add {
				if set == nil {
					set = map[string]bool{}
				}
				for _, t := range o.traits {
					set[t] = true
				}
			} else if set != nil {
				for _, t := range o.traits {
					delete(set, t)
				}
			}
		case "addchild":
			if set == nil {
				set = map[string]bool{}
				for _, t := range o.traits {
					set[t] = true
				}
			}
		case "removechild":
			set = nil
		}
		var want []string
		for t := range set {
			want = append(want, t)
		}
		sort.Strings(want)
		ws := strings.Join(want, ",")
		cs := m.ListChildren()
		if set == nil {
			if len(cs) != 0 {
				return "child-exists", fmt.Sprintf("after step %d (%s) the child should be absent, found %v", step, o.name, cs)
			}
			continue
		}
		if len(cs) != 1 {
			return "child-missing", fmt.Sprintf("after step %d (%s) there are %d children", step, o.name, len(cs))
		}
		if got := traitNames(cs[0]); got != ws {
			return "trait-set", fmt.Sprintf("after step %d (%s) the child lists traits [%s], the set union/difference is [%s]", step, o.name, got, ws)
		}
		if o.kind == "trait" && ret != nil {
			if got := traitNames(ret); got != ws {
				return "trait-set-returned", fmt.Sprintf("step %d (%s) returned traits [%s], the set union/difference is [%s]", step, o.name, got, ws)
			}
		}
	}
	return "", ""
}

func parentScenario(s *hx.Seq) {
	ops := parentAlphabet()
	var an []string
	for _, o := range ops {
		an = append(an, o.name)
	}
	var rp struct{ Path []int }
	if s.Replaying(&rp) {
		if k, m := parentRun(rp.Path, ops); k != "" {
			s.Fail(k+" "+names(rp.Path, an), m, rp)
		}
		return
	}
	depth := 3
	if s.Thorough {
		depth = 4
	}
	failedPrefix := map[string]bool{}
	seqs(len(ops), depth, func(path []int) bool {
		if !s.Own() {
			return !s.Stop()
		}
		// only report minimal failing sequences: skip extensions of a failing one
		for l := 1; l < len(path); l++ {
			if failedPrefix[fmt.Sprint(path[:l])] {
				return true
			}
		}
		s.Eval(1)
		s.Trans(len(path))
		if k, m := parentRun(path, ops); k != "" {
			failedPrefix[fmt.Sprint(path)] = true
			if len(path) <= 2 || len(failedPrefix) < 40 {
				s.Fail(k+" "+names(path, an), m, map[string]any{"Path": append([]int{}, path...)})
			} else {
				s.Fail(k+" (longer sequences)", m, map[string]any{"Path": append([]int{}, path...)})
			}
		}
		s.State(fmt.Sprint(path))
		if len(path) > 1 {
			s.Distinct(fmt.Sprint(path))
		}
		return !s.Stop()
	})
	s.Sample(map[string]any{"sequence": names([]int{0, 17, 33}, an), "meaning": "every sequence of AddChildTrait / RemoveChildTrait (1-2 trait names of {A,B,C,D}, any order), AddChild, RemoveChildByName up to the depth bound on a fresh parent model, compared with a Go set after every step"})
}
