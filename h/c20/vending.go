package main

import (
	"fmt"
	"math"

	"github.com/smart-core-os/sc-api/go/traits"
	"github.com/smart-core-os/sc-golang/pkg/trait/vendingpb"
	"github.com/smart-core-os/sc-golang/pkg/trait/vendingpb/unitpb"
	"verifrt/hx"
)

type U = traits.Consumable_Unit

// independent conversion table (SI factor, category)
var factor = map[U][2]float64{
	traits.Consumable_METER:       {1, 3},
	traits.Consumable_LITER:       {1, 1},
	traits.Consumable_CUBIC_METER: {1000, 1},
	traits.Consumable_CUP:         {3.785411784 / 16, 1},
	traits.Consumable_KILOGRAM:    {1, 2},
}

func convert(v float64, from, to U) (float64, bool) {
	if from == to {
		return v, true
	}
	f, ok1 := factor[from]
	t, ok2 := factor[to]
	if !ok1 || !ok2 || f[1] != t[1] {
		return 0, false
	}
	return v * f[0] / t[0], true
}

func close32(a float32, b float64) bool {
	return math.Abs(float64(a)-b) <= 1e-4*math.Max(1, math.Abs(b))
}

type qty struct {
	present bool
	unit    U
	amount  float64
}

func (q qty) pb() *traits.Consumable_Quantity {
	if !q.present {
		return nil
	}
	return &traits.Consumable_Quantity{Unit: q.unit, Amount: float32(q.amount)}
}
func (q qty) String() string {
	if !q.present {
		return "nil"
	}
	return fmt.Sprintf("%v%v", q.amount, q.unit)
}

func showQ(q *traits.Consumable_Quantity) string {
	if q == nil {
		return "nil"
	}
	return fmt.Sprintf("%v%v", q.Amount, q.Unit)
}

func vendingScenario(s *hx.Seq) {
	units := []U{traits.Consumable_LITER, traits.Consumable_CUBIC_METER, traits.Consumable_CUP, traits.Consumable_KILOGRAM, traits.Consumable_METER, traits.Consumable_NO_UNIT}
	if !s.Own() {
		return
	}
	// ---- unit conversion
	for _, a := range units {
		for _, b := range units {
			for _, v := range []float64{0, 1, 2.5, 1000} {
				s.Eval(1)
				s.Trans(1)
				got, err := unitpb.Convert(v, a, b)
				want, ok := convert(v, a, b)
				name := fmt.Sprintf("Convert(%v,%v->%v)", v, a, b)
				if ok != (err == nil) {
					s.Fail("convert-error "+name, fmt.Sprintf("err=%v, conversion possible=%v", err, ok), nil)
				} else if ok && math.Abs(got-want) > 1e-9*math.Max(1, math.Abs(want)) {
					s.Fail("convert-value "+name, fmt.Sprintf("got %v want %v", got, want), nil)
				}
				if ok {
					back, err2 := unitpb.Convert(got, b, a)
					if err2 != nil || math.Abs(back-v) > 1e-9*math.Max(1, math.Abs(v)) {
						s.Fail("convert-roundtrip "+name, fmt.Sprintf("round trip gives %v (%v)", back, err2), nil)
					}
				}
				s.State(name)
			}
		}
	}
	// ---- option plumbing
	if p := guard(func() {
		m := vendingpb.NewModel(vendingpb.WithInitialConsumable(&traits.Consumable{Name: "tea"}), vendingpb.WithInitialStock(&traits.Consumable_Stock{Consumable: "milk"}))
		s.Eval(1)
		cs, inv := m.ListConsumables(), m.ListInventory()
		if len(cs) != 1 || cs[0].Name != "tea" || len(inv) != 1 || inv[0].Consumable != "milk" {
			s.Fail("options WithInitialConsumable/WithInitialStock", fmt.Sprintf("consumables=%v inventory=%v; expected consumable tea and stock milk", cs, inv), nil)
		}
	}); p != nil {
		s.Fail("options-panic WithInitialConsumable/WithInitialStock", fmt.Sprintf("constructing the model panicked: %v", p), nil)
	}
	// ---- dispense: every initial stock shape x unit pair x dispense quantity, one or two dispenses
	for _, usedPresent := range []bool{false, true} {
		for _, remPresent := range []bool{false, true} {
			for _, uu := range units {
				for _, ru := range units {
					if (!usedPresent && uu != units[0]) || (!remPresent && ru != units[0]) {
						continue
					}
					for _, qu := range units {
						for _, qa := range []float64{0, 1, 2.5, 7} {
							for n := 1; n <= 2; n++ {
								used := qty{usedPresent, uu, 2}
								rem := qty{remPresent, ru, 5}
								name := fmt.Sprintf("stock{used=%v,remaining=%v} dispense %vx %v%v", used, rem, n, qa, qu)
								s.Eval(1)
								s.Trans(n)
								s.State(name)
								var m *vendingpb.Model
								if p := guard(func() {
									m = vendingpb.NewModel(vendingpb.WithInitialStock(&traits.Consumable_Stock{Consumable: "milk", Used: used.pb(), Remaining: rem.pb()}))
								}); p != nil {
									s.Fail("panic "+name, fmt.Sprint(p), nil)
									continue
								}
								failed := false
								for k := 0; k < n && !failed; k++ {
									var st *traits.Consumable_Stock
									var err error
									if p := guard(func() {
										st, err = m.DispenseInstantly("milk", &traits.Consumable_Quantity{Unit: qu, Amount: float32(qa)})
									}); p != nil {
										s.Fail("panic "+name, fmt.Sprintf("DispenseInstantly panicked: %v", p), nil)
										failed = true
										break
									}
									// spec
									wantErr := false
									nu, nr := used, rem
									if used.present {
										d, ok := convert(qa, qu, used.unit)
										if !ok {
											wantErr = true
										}
										nu.amount += d
									}
									if rem.present && !wantErr {
										d, ok := convert(qa, qu, rem.unit)
										if !ok {
											wantErr = true
										}
										nr.amount = math.Max(0, rem.amount-d)
									}
									cur, _ := m.GetStock("milk")
									if wantErr {
										if err == nil {
											s.Fail("conversion-error-swallowed "+name, fmt.Sprintf("the quantity cannot be converted to the stock's unit, yet DispenseInstantly returned (%v, nil)", st), nil)
											failed = true
										} else if showQ(cur.Used) != showQ(used.pb()) || showQ(cur.Remaining) != showQ(rem.pb()) {
											s.Fail("failed-dispense-changed-stock "+name, fmt.Sprintf("stock now used=%s remaining=%s", showQ(cur.Used), showQ(cur.Remaining)), nil)
											failed = true
										}
										break
									}
									if err != nil {
										s.Fail("dispense-error "+name, fmt.Sprintf("unexpected error %v", err), nil)
										failed = true
										break
									}
									okU := (cur.Used == nil) == !nu.present && (cur.Used == nil || (cur.Used.Unit == nu.unit && close32(cur.Used.Amount, nu.amount)))
									okR := (cur.Remaining == nil) == !nr.present && (cur.Remaining == nil || (cur.Remaining.Unit == nr.unit && close32(cur.Remaining.Amount, nr.amount)))
									if !okU || !okR {
										s.Fail("dispense-arithmetic "+name, fmt.Sprintf("stock now used=%s remaining=%s; expected used=%v remaining=%v (each in its own unit)", showQ(cur.Used), showQ(cur.Remaining), nu, nr), nil)
										failed = true
									}
									used, rem = nu, nr
								}
								if usedPresent && remPresent && uu != ru {
									s.Distinct(name)
								}
							}
						}
					}
				}
			}
		}
	}
	s.Sample(map[string]any{"case": "stock{used=2LITER,remaining=5CUP} dispense 2x 2.5CUBIC_METER", "meaning": "initial stock with every subset of {used, remaining} present x unit pairs x dispensed quantity, one or two dispenses, against float64 arithmetic with an independent conversion table"})
}
