package main

import (
	"context"
	"fmt"
	"math"

	"github.com/smart-core-os/sc-api/go/traits"
	"github.com/smart-core-os/sc-golang/pkg/resource"
	"github.com/smart-core-os/sc-golang/pkg/trait/vendingpb"
	"github.com/smart-core-os/sc-golang/pkg/trait/vendingpb/unitpb"
	"verifrt/hx"
)

type U = traits.Consumable_Unit

// independent conversion table (SI factor, category)
var factor = map[U][2]float64{
	traits.Consumable_METER:       {1, 3},
	traits.Consumable_LITER:       {1, 1},
	traits.Consumable_CUBIC_METER: {1000, 1},
	traits.Consumable_CUP:         {3.785411784 / 16, 1},
	traits.Consumable_KILOGRAM:    {1, 2},
}

func convert(v float64, from, to U) (float64, bool) {
	if from == to {
		return v, true
	}
	f, ok1 := factor[from]
	t, ok2 := factor[to]
	if !ok1 || !ok2 || f[1] != t[1] {
		return 0, false
	}
	return v * f[0] / t[0], true
}

func close32(a float32, b float64) bool {
	return math.Abs(float64(a)-b) <= 1e-4*math.Max(1, math.Abs(b))
}

type qty struct {
	present bool
	unit    U
	amount  float64
}

func (q qty) pb() *traits.Consumable_Quantity {
	if !q.present {
		return nil
	}
	return &traits.Consumable_Quantity{Unit: q.unit, Amount: float32(q.amount)}
}
func (q qty) String() string {
	if !q.present {
		return "nil"
	}
	return fmt.Sprintf("%v%v", q.amount, q.unit)
}

func showQ(q *traits.Consumable_Quantity) string {
	if q == nil {
		return "nil"
	}
	return fmt.Sprintf("%v%v", q.Amount, q.Unit)
}

func vendingScenario(s *hx.Seq) {
	units := []U{traits.Consumable_LITER, traits.Consumable_CUBIC_METER, traits.Consumable_CUP, traits.Consumable_KILOGRAM, traits.Consumable_METER, traits.Consumable_NO_UNIT}
	if !s.Own() {
		return
	}
	// ---- unit conversion
	for _, a := range units {
		for _, b := range units {
			for _, v := range []float64{0, 1, 2.5, 1000} {
				s.Eval(1)
				s.Trans(1)
				got, err := unitpb.Convert(v, a, b)
				want, ok := convert(v, a, b)
				name := fmt.Sprintf("Convert(%v,%v->%v)", v, a, b)
				if ok != (err == nil) {
					s.Fail("convert-error "+name, fmt.Sprintf("err=%v, conversion possible=%v", err, ok), nil)
				} else if ok && math.Abs(got-want) > 1e-9*math.Max(1, math.Abs(want)) {
					s.Fail("convert-value "+name, fmt.Sprintf("got %v want %v", got, want), nil)
				}
				if ok {
					back, err2 := unitpb.Convert(got, b, a)
					if err2 != nil || math.Abs(back-v) > 1e-9*math.Max(1, math.Abs(v)) {
						s.Fail("convert-roundtrip "+name, fmt.Sprintf("round trip gives %v (%v)", back, err2), nil)
					}
				}
				s.State(name)
			}
		}
	}
	// ---- option plumbing
	if p := guard(func() {
		m := vendingpb.NewModel(vendingpb.WithInitialConsumable(&traits.Consumable{Name: "tea"}), vendingpb.WithInitialStock(&traits.Consumable_Stock{Consumable: "milk"}))
		s.Eval(1)
		cs, inv := m.ListConsumables(), m.ListInventory()
		if len(cs) != 1 || cs[0].Name != "tea" || len(inv) != 1 || inv[0].Consumable != "milk" {
			s.Fail("options WithInitialConsumable/WithInitialStock", fmt.Sprintf("consumables=%v inventory=%v; expected consumable tea and stock milk", cs, inv), nil)
		}
	}); p != nil {
		s.Fail("options-panic WithInitialConsumable/WithInitialStock", fmt.Sprintf("constructing the model panicked: %v", p), nil)
	}
	// the same next to 0..10 options of the resource package (they configure both of the model's resources), given
	// before, after or between the initial records, with one or two consumables and one to three stock records:
	// each resource keeps ITS initial records, whatever else was configured and however many options there were
	for k := 0; k <= 10; k++ {
		for place := 0; place < 3; place++ {
			for nc := 1; nc <= 2; nc++ {
				for ns := 1; ns <= 3; ns++ {
					name := fmt.Sprintf("options %d generic resource options (placement %d) + %d initial consumable(s) + %d initial stock record(s)", k, place, nc, ns)
					var generic []resource.Option
					for i := 0; i < k; i++ {
						generic = append(generic, resource.WithNoDuplicates())
					}
					var cons []*traits.Consumable
					var wantC, wantS []string
					for i := 0; i < nc; i++ {
						cons = append(cons, &traits.Consumable{Name: fmt.Sprintf("c%d", i)})
						wantC = append(wantC, fmt.Sprintf("c%d", i))
					}
					var stock []*traits.Consumable_Stock
					for i := 0; i < ns; i++ {
						stock = append(stock, &traits.Consumable_Stock{Consumable: fmt.Sprintf("s%d", i)})
						wantS = append(wantS, fmt.Sprintf("s%d", i))
					}
					ic, is := vendingpb.WithInitialConsumable(cons...), vendingpb.WithInitialStock(stock...)
					var opts []resource.Option
					switch place {
					case 0:
						opts = append(append(opts, generic...), ic, is)
					case 1:
						opts = append(append(opts, ic, is), generic...)
					default:
						opts = append(append(append(opts, ic), generic...), is)
					}
					s.Eval(1)
					s.State(name)
					if p := guard(func() {
						m := vendingpb.NewModel(opts...)
						var gotC, gotS []string
						for _, c := range m.ListConsumables() {
							gotC = append(gotC, c.Name)
						}
						for _, st := range m.ListInventory() {
							gotS = append(gotS, st.Consumable)
						}
						if fmt.Sprint(gotC) != fmt.Sprint(wantC) || fmt.Sprint(gotS) != fmt.Sprint(wantS) {
							s.Fail("options-initial-records "+name, fmt.Sprintf("consumables=%v inventory=%v; configured consumables %v and stock %v", gotC, gotS, wantC, wantS), nil)
						}
						if c, ok := m.GetConsumable("c0"); !ok || c.GetName() != "c0" {
							s.Fail("options-initial-records-get "+name, fmt.Sprintf("GetConsumable(c0) = %v, %v", c, ok), nil)
						}
					}); p != nil {
						s.Fail("options-panic "+name, fmt.Sprintf("a model built from these options panicked: %v", p), nil)
					}
				}
			}
		}
	}
	// ---- dispense: every initial stock shape x unit pair x dispense quantity, one or two dispenses
	for _, usedPresent := range []bool{false, true} {
		for _, remPresent := range []bool{false, true} {
			for _, uu := range units {
				for _, ru := range units {
					if (!usedPresent && uu != units[0]) || (!remPresent && ru != units[0]) {
						continue
					}
					for _, qu := range units {
						for _, qa := range []float64{0, 1, 2.5, 7} {
							for n := 1; n <= 3; n++ {
								// (the third round starts from a used amount of exactly zero: present, and nothing in it)
								used := qty{usedPresent, uu, 2}
								if n == 3 {
									if !usedPresent {
										continue
									}
									used.amount = 0
								}
								rem := qty{remPresent, ru, 5}
								name := fmt.Sprintf("stock{used=%v,remaining=%v} dispense %vx %v%v", used, rem, n, qa, qu)
								s.Eval(1)
								s.Trans(n)
								s.State(name)
								var m *vendingpb.Model
								if p := guard(func() {
									m = vendingpb.NewModel(vendingpb.WithInitialStock(&traits.Consumable_Stock{Consumable: "milk", Used: used.pb(), Remaining: rem.pb()}))
								}); p != nil {
									s.Fail("panic "+name, fmt.Sprint(p), nil)
									continue
								}
								failed := false
								for k := 0; k < n && !failed; k++ {
									var st *traits.Consumable_Stock
									var err error
									if p := guard(func() {
										if n == 1 {
											// (the single dispenses go through the server's Dispense, the longer histories through the model)
											st, err = vendingpb.NewModelServer(m).Dispense(context.Background(), &traits.DispenseRequest{Name: "v", Consumable: "milk", Quantity: &traits.Consumable_Quantity{Unit: qu, Amount: float32(qa)}})
											return
										}
										st, err = m.DispenseInstantly("milk", &traits.Consumable_Quantity{Unit: qu, Amount: float32(qa)})
									}); p != nil {
										s.Fail("panic "+name, fmt.Sprintf("DispenseInstantly panicked: %v", p), nil)
										failed = true
										break
									}
									// spec
									wantErr := false
									nu, nr := used, rem
									if used.present {
										d, ok := convert(qa, qu, used.unit)
										if !ok {
											wantErr = true
										}
										nu.amount += d
									}
									if rem.present && !wantErr {
										d, ok := convert(qa, qu, rem.unit)
										if !ok {
											wantErr = true
										}
										nr.amount = math.Max(0, rem.amount-d)
									}
									cur, _ := m.GetStock("milk")
									if wantErr {
										if err == nil {
											s.Fail("conversion-error-swallowed "+name, fmt.Sprintf("the quantity cannot be converted to the stock's unit, yet DispenseInstantly returned (%v, nil)", st), nil)
											failed = true
										} else if showQ(cur.Used) != showQ(used.pb()) || showQ(cur.Remaining) != showQ(rem.pb()) {
											s.Fail("failed-dispense-changed-stock "+name, fmt.Sprintf("stock now used=%s remaining=%s", showQ(cur.Used), showQ(cur.Remaining)), nil)
											failed = true
										}
										break
									}
									if err != nil {
										s.Fail("dispense-error "+name, fmt.Sprintf("unexpected error %v", err), nil)
										failed = true
										break
									}
									if ld := cur.LastDispensed; ld.GetUnit() != qu || !close32(ld.GetAmount(), qa) {
										s.Fail("last-dispensed "+name, fmt.Sprintf("after dispensing %v%v the stock's last_dispensed is %s", qa, qu, showQ(ld)), nil)
										failed = true
									}
									okU := (cur.Used == nil) == !nu.present && (cur.Used == nil || (cur.Used.Unit == nu.unit && close32(cur.Used.Amount, nu.amount)))
									okR := (cur.Remaining == nil) == !nr.present && (cur.Remaining == nil || (cur.Remaining.Unit == nr.unit && close32(cur.Remaining.Amount, nr.amount)))
									if !okU || !okR {
										s.Fail("dispense-arithmetic "+name, fmt.Sprintf("stock now used=%s remaining=%s; expected used=%v remaining=%v (each in its own unit)", showQ(cur.Used), showQ(cur.Remaining), nu, nr), nil)
										failed = true
									}
									used, rem = nu, nr
								}
								if usedPresent && remPresent && uu != ru {
									s.Distinct(name)
								}
							}
						}
					}
				}
			}
		}
	}
	// ---- a dispense that leaves the quantity out (a request without it is a request all the same), through the model
	// and through the server: no panic; an error leaves the stock as it was, success dispensed nothing
	for _, usedPresent := range []bool{false, true} {
		for _, remPresent := range []bool{false, true} {
			for _, server := range []bool{false, true} {
				used, rem := qty{usedPresent, units[0], 2}, qty{remPresent, units[len(units)-1], 5}
				name := fmt.Sprintf("stock{used=%v,remaining=%v} dispense without a quantity (server=%v)", used, rem, server)
				s.Eval(1)
				s.Trans(1)
				s.State(name)
				m := vendingpb.NewModel(vendingpb.WithInitialStock(&traits.Consumable_Stock{Consumable: "milk", Used: used.pb(), Remaining: rem.pb()}))
				var err error
				if p := guard(func() {
					if server {
						_, err = vendingpb.NewModelServer(m).Dispense(context.Background(), &traits.DispenseRequest{Name: "v", Consumable: "milk"})
					} else {
						_, err = m.DispenseInstantly("milk", nil)
					}
				}); p != nil {
					s.Fail("panic "+name, fmt.Sprintf("the dispense panicked: %v", p), nil)
					continue
				}
				cur, _ := m.GetStock("milk")
				if showQ(cur.Used) != showQ(used.pb()) || showQ(cur.Remaining) != showQ(rem.pb()) {
					s.Fail("dispense-without-quantity-changed-stock "+name, fmt.Sprintf("answered %v; stock now used=%s remaining=%s", err, showQ(cur.Used), showQ(cur.Remaining)), nil)
				}
			}
		}
	}
	s.Sample(map[string]any{"case": "stock{used=2LITER,remaining=5CUP} dispense 2x 2.5CUBIC_METER", "meaning": "initial stock with every subset of {used, remaining} present x unit pairs x dispensed quantity, one or two dispenses, against float64 arithmetic with an independent conversion table"})
}
