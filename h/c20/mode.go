package main

import (
	"context"
	"fmt"
	"math"

	"github.com/smart-core-os/sc-api/go/traits"
	"github.com/smart-core-os/sc-golang/pkg/trait/modepb"
	"verifrt/hx"
)

func modeScenario(s *hx.Seq) {
	if !s.Own() {
		return
	}
	custom := &traits.Modes{Modes: []*traits.Modes_Mode{
		{Name: "speed", Ordered: true, Values: []*traits.Modes_Value{{Name: "s1"}, {Name: "s2"}, {Name: "s3"}, {Name: "s4"}}},
		{Name: "eco", Values: []*traits.Modes_Value{{Name: "off"}, {Name: "on"}}},
	}}
	ctx := context.Background()
	for _, cfg := range []struct {
		name  string
		modes *traits.Modes
		mk    func() *modepb.Model
	}{
		{"default", modepb.DefaultModes, func() *modepb.Model { return modepb.NewModel() }},
		{"custom", custom, func() *modepb.Model { return modepb.NewModelModes(custom) }},
	} {
		m := cfg.mk()
		s.Eval(1)
		// explicit configuration is used
		if got := m.Modes(); fmt.Sprint(got) != fmt.Sprint(cfg.modes) {
			s.Fail("mode-config-ignored "+cfg.name, fmt.Sprintf("model built with modes %v reports %v", cfg.modes, got), nil)
		}
		for _, md := range cfg.modes.Modes {
			if v := m.ModeValues().Values[md.Name]; v != md.Values[0].Name {
				s.Fail("mode-initial-value "+cfg.name, fmt.Sprintf("mode %s starts as %q, the first value is %q", md.Name, v, md.Values[0].Name), nil)
			}
		}
		// relative steps wrap
		for _, md := range cfg.modes.Modes {
			n := len(md.Values)
			for start := 0; start < n; start++ {
				// ... however far: a step is any int32, wrapping is arithmetic modulo the number of values
				steps := []int32{-1000, 1000, math.MaxInt32, math.MaxInt32 - 1, math.MinInt32, math.MinInt32 + 1}
				for st := int32(-4); st <= 4; st++ {
					steps = append(steps, st)
				}
				for _, step := range steps {
					s.Eval(1)
					s.Trans(2)
					m := cfg.mk()
					srv := modepb.NewModelServer(m)
					name := fmt.Sprintf("%s mode=%s start=%s step=%d", cfg.name, md.Name, md.Values[start].Name, step)
					s.State(name)
					if step != 0 {
						s.Distinct(name)
					}
					var got *traits.ModeValues
					var err error
					if p := guard(func() {
						all := map[string]string{}
						for _, o := range cfg.modes.Modes {
							all[o.Name] = o.Values[0].Name
						}
						all[md.Name] = md.Values[start].Name
						_, err = srv.UpdateModeValues(ctx, &traits.UpdateModeValuesRequest{Name: "n", ModeValues: &traits.ModeValues{Values: all}})
						if err == nil {
							got, err = srv.UpdateModeValues(ctx, &traits.UpdateModeValuesRequest{Name: "n", Relative: &traits.ModeValuesRelative{Values: map[string]int32{md.Name: step}}})
						}
					}); p != nil {
						s.Fail("panic "+name, fmt.Sprint(p), nil)
						continue
					}
					if err != nil {
						s.Fail("mode-error "+name, err.Error(), nil)
						continue
					}
					want := md.Values[((start+int(step))%n+n)%n].Name
					if got.Values[md.Name] != want {
						s.Fail("mode-relative "+name, fmt.Sprintf("relative step gives %q, wrapping gives %q", got.Values[md.Name], want), nil)
					}
					// the other modes are untouched
					for _, o := range cfg.modes.Modes {
						if o.Name != md.Name && got.Values[o.Name] != o.Values[0].Name {
							s.Fail("mode-relative-other "+name, fmt.Sprintf("mode %s changed to %q", o.Name, got.Values[o.Name]), nil)
						}
					}
				}
			}
			// unknown current value falls back to the first
			s.Eval(1)
			m := cfg.mk()
			srv := modepb.NewModelServer(m)
			name := fmt.Sprintf("%s mode=%s start=<unknown> step=1", cfg.name, md.Name)
			var got *traits.ModeValues
			var err error
			if p := guard(func() {
				m.UpdateModeValues(&traits.ModeValues{Values: map[string]string{md.Name: "bogus"}})
				got, err = srv.UpdateModeValues(ctx, &traits.UpdateModeValuesRequest{Name: "n", Relative: &traits.ModeValuesRelative{Values: map[string]int32{md.Name: 1}}})
			}); p != nil {
				s.Fail("panic "+name, fmt.Sprint(p), nil)
			} else if err != nil || got.Values[md.Name] != md.Values[0].Name {
				s.Fail("mode-relative-unknown "+name, fmt.Sprintf("got %v (%v), expected the first value %q", got, err, md.Values[0].Name), nil)
			}
		}
		// a relative step for a name that is not a mode of this model changes nothing - the first time it is asked
		// and every time after, whatever was looked up before (what values a mode has depends on its name alone)
		if len(cfg.modes.Modes) > 0 {
			s.Eval(1)
			m := cfg.mk()
			srv := modepb.NewModelServer(m)
			name := cfg.name + " relative step on a name that is not a mode, asked three times"
			s.State(name)
			first := cfg.modes.Modes[0]
			var errs []error
			var after []*traits.ModeValues
			var moved string
			if p := guard(func() {
				got, err := srv.UpdateModeValues(ctx, &traits.UpdateModeValuesRequest{Name: "n", Relative: &traits.ModeValuesRelative{Values: map[string]int32{first.Name: 1}}})
				errs = append(errs, err)
				moved = got.GetValues()[first.Name]
				for i := 0; i < 3; i++ {
					got, err := srv.UpdateModeValues(ctx, &traits.UpdateModeValuesRequest{Name: "n", Relative: &traits.ModeValuesRelative{Values: map[string]int32{"no-such-mode": 1}}})
					errs = append(errs, err)
					after = append(after, got)
				}
			}); p != nil {
				s.Fail("panic "+name, fmt.Sprint(p), nil)
			} else {
				for i, got := range after {
					if got == nil {
						continue // refused: fine as well
					}
					if v, ok := got.Values["no-such-mode"]; ok {
						s.Fail("mode-relative-unknown-name "+name, fmt.Sprintf("request %d stored the value %q for %q, which is not a mode of the model; errors %v", i+1, v, "no-such-mode", errs), nil)
						break
					}
					if got.Values[first.Name] != moved {
						s.Fail("mode-relative-unknown-name-moved "+name, fmt.Sprintf("request %d moved mode %s from %q to %q", i+1, first.Name, moved, got.Values[first.Name]), nil)
						break
					}
				}
			}
		}
	}
	s.Sample("default and custom mode lists: configuration used, initial values, relative steps -4..4 from every value (wrapping), unknown current value")
}
