package main

import (
	"context"
	"fmt"
	"math"

	"github.com/smart-core-os/sc-api/go/traits"
	"github.com/smart-core-os/sc-golang/pkg/trait/modepb"
	"verifrt/hx"
)

func modeScenario(s *hx.Seq) {
	if !s.Own() {
		return
	}
	custom := &traits.Modes{Modes: []*traits.Modes_Mode{
		{Name: "speed", Ordered: true, Values: []*traits.Modes_Value{{Name: "s1"}, {Name: "s2"}, {Name: "s3"}, {Name: "s4"}}},
		{Name: "eco", Values: []*traits.Modes_Value{{Name: "off"}, {Name: "on"}}},
	}}
	ctx := context.Background()
	for _, cfg := range []struct {
		name  string
		modes *traits.Modes
		mk    func() *modepb.Model
	}{
		{"default", modepb.DefaultModes, func() *modepb.Model { return modepb.NewModel() }},
		{"custom", custom, func() *modepb.Model { return modepb.NewModelModes(custom) }},
	} {
		m := cfg.mk()
		s.Eval(1)
		// explicit configuration is used
		if got := m.Modes(); fmt.Sprint(got) != fmt.Sprint(cfg.modes) {
			s.Fail("mode-config-ignored "+cfg.name, fmt.Sprintf("model built with modes %v reports %v", cfg.modes, got), nil)
		}
		for _, md := range cfg.modes.Modes {
			if v := m.ModeValues().Values[md.Name]; v != md.Values[0].Name {
				s.Fail("mode-initial-value "+cfg.name, fmt.Sprintf("mode %s starts as %q, the first value is %q", md.Name, v, md.Values[0].Name), nil)
			}
		}
		// relative steps wrap
		for _, md := range cfg.modes.Modes {
			n := len(md.Values)
			for start := 0; start < n; start++ {
				// ... however far: a step is any int32, wrapping is arithmetic modulo the number of values
				steps := []int32{-1000, 1000, math.MaxInt32, math.MaxInt32 - 1, math.MinInt32, math.MinInt32 + 1}
				for st := int32(-4); st <= 4; st++ {
					steps = append(steps, st)
				}
				for _, step := range steps {
					s.Eval(1)
					s.Trans(2)
					m := cfg.mk()
					srv := modepb.NewModelServer(m)
					name := fmt.Sprintf("%s mode=%s start=%s step=%d", cfg.name, md.Name, md.Values[start].Name, step)
					s.State(name)
					if step != 0 {
						s.Distinct(name)
					}
					var got *traits.ModeValues
					var err error
					if p := guard(func() {
						all := map[string]string{}
						for _, o := range cfg.modes.Modes {
							all[o.Name] = o.Values[0].Name
						}
						all[md.Name] = md.Values[start].Name
						_, err = srv.UpdateModeValues(ctx, &traits.UpdateModeValuesRequest{Name: "n", ModeValues: &traits.ModeValues{Values: all}})
						if err == nil {
							got, err = srv.UpdateModeValues(ctx, &traits.UpdateModeValuesRequest{Name: "n", Relative: &traits.ModeValuesRelative{Values: map[string]int32{md.Name: step}}})
						}
					}); p != nil {
						s.Fail("panic "+name, fmt.Sprint(p), nil)
						continue
					}
					if err != nil {
						s.Fail("mode-error "+name, err.Error(), nil)
						continue
					}
					want := md.Values[((start+int(step))%n+n)%n].Name
					if got.Values[md.Name] != want {
						s.Fail("mode-relative "+name, fmt.Sprintf("relative step gives %q, wrapping gives %q", got.Values[md.Name], want), nil)
					}
					// the other modes are untouched
					for _, o := range cfg.modes.Modes {
						if o.Name != md.Name && got.Values[o.Name] != o.Values[0].Name {
							s.Fail("mode-relative-other "+name, fmt.Sprintf("mode %s changed to %q", o.Name, got.Values[o.Name]), nil)
						}
					}
				}
			}
			// unknown current value falls back to the first
			s.Eval(1)
			m := cfg.mk()
			srv := modepb.NewModelServer(m)
			name := fmt.Sprintf("%s mode=%s start=<unknown> step=1", cfg.name, md.Name)
			var got *traits.ModeValues
			var err error
			if p := guard(func() {
				m.UpdateModeValues(&traits.ModeValues{Values: map[string]string{md.Name: "bogus"}})
				got, err = srv.UpdateModeValues(ctx, &traits.UpdateModeValuesRequest{Name: "n", Relative: &traits.ModeValuesRelative{Values: map[string]int32{md.Name: 1}}})
			}); p != nil {
				s.Fail("panic "+name, fmt.Sprint(p), nil)
			} else if err != nil || got.Values[md.Name] != md.Values[0].Name {
				s.Fail("mode-relative-unknown "+name, fmt.Sprintf("got %v (%v), expected the first value %q", got, err, md.Values[0].Name), nil)
			}
		}
	}
	s.Sample("default and custom mode lists: configuration used, initial values, relative steps -4..4 from every value (wrapping), unknown current value")
}
