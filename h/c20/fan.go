package main

import (
	"context"
	"fmt"
	"google.golang.org/protobuf/proto"
	"math"

	"google.golang.org/protobuf/types/known/fieldmaskpb"

	"github.com/smart-core-os/sc-api/go/traits"
	"github.com/smart-core-os/sc-golang/pkg/trait/fanspeedpb"
	"verifrt/hx"
)

type fanReq struct {
	name     string
	fs       *traits.FanSpeed
	mask     []string
	relative bool
}

func consistent(fs *traits.FanSpeed, presets []fanspeedpb.Preset) string {
	if fs.Preset != "" {
		for i, p := range presets {
			if p.Name == fs.Preset {
				if int(fs.PresetIndex) != i || fs.Percentage != p.Percentage {
					return fmt.Sprintf("preset %q is row %d (%v%%) of the table but index=%d percentage=%v", fs.Preset, i, p.Percentage, fs.PresetIndex, fs.Percentage)
				}
				return ""
			}
		}
		return fmt.Sprintf("preset %q is not in the table", fs.Preset)
	}
	for i, p := range presets {
		if p.Percentage == fs.Percentage {
			return fmt.Sprintf("percentage %v is row %d (%q) of the table but preset is empty", fs.Percentage, i, p.Name)
		}
	}
	if fs.PresetIndex != -1 {
		return fmt.Sprintf("no preset selected (percentage %v) but preset_index=%d", fs.Percentage, fs.PresetIndex)
	}
	return ""
}

func fanScenario(s *hx.Seq) {
	tables := map[string][]fanspeedpb.Preset{
		"default": fanspeedpb.DefaultPresets,
		"two":     {{Name: "lo", Percentage: 10}, {Name: "hi", Percentage: 90}},
		"one":     {{Name: "only", Percentage: 50}},
		// a fan without presets (percentage only): there is no row to select, and asking for one must not panic
		"none": {},
	}
	ctx := context.Background()
	// (in a fixed order: the work is shared out among the worker processes by position)
	for _, tn := range []string{"default", "none", "one", "two"} {
		table := tables[tn]
		if !s.Own() {
			continue
		}
		var reqs []fanReq
		for _, masked := range []bool{true, false} {
			mk := func(name string, fs *traits.FanSpeed, rel bool, mask ...string) {
				if !masked {
					// without update_mask the request replaces the whole fan speed: it is only
					// well-formed (self-consistent) when it names the preset
					if fs.Preset == "" || fs.PresetIndex != 0 {
						return
					}
					mask = nil
					name += "/nomask"
				}
				reqs = append(reqs, fanReq{name, fs, mask, rel})
			}
			for _, p := range table {
				mk("preset="+p.Name, &traits.FanSpeed{Preset: p.Name}, false, "preset")
			}
			for _, i := range []int32{-3, -1, 0, 1, int32(len(table)) - 1, int32(len(table)), 99} {
				mk(fmt.Sprintf("index=%d", i), &traits.FanSpeed{PresetIndex: i}, false, "preset_index")
			}
			for _, i := range []int32{-1, 1, 2, math.MaxInt32, math.MinInt32} {
				mk(fmt.Sprintf("index+=%d", i), &traits.FanSpeed{PresetIndex: i}, true, "preset_index")
			}
			for _, pc := range []float32{0, 10, 33, 50, 100} {
				mk(fmt.Sprintf("percentage=%v", pc), &traits.FanSpeed{Percentage: pc}, false, "percentage")
			}
			for _, pc := range []float32{-5, 5, 40} {
				mk(fmt.Sprintf("percentage+=%v", pc), &traits.FanSpeed{Percentage: pc}, true, "percentage")
			}
			// a relative request that moves the percentage and leaves the index where it is (a step of zero rows)
			mk("percentage+=5,index+=0", &traits.FanSpeed{Percentage: 5, PresetIndex: 0}, true, "percentage", "preset_index")
			if len(table) > 0 {
				mk("preset+index", &traits.FanSpeed{Preset: table[0].Name, PresetIndex: int32(len(table)) - 1}, false, "preset", "preset_index")
			}
			mk("index+percentage", &traits.FanSpeed{PresetIndex: 0, Percentage: 33}, false, "preset_index", "percentage")
		}
		var an []string
		for _, r := range reqs {
			an = append(an, r.name)
		}
		depth := 2
		if s.Thorough {
			depth = 3
		}
		seqs(len(reqs), depth, func(path []int) bool {
			s.Eval(1)
			s.Trans(len(path))
			init := &traits.FanSpeed{PresetIndex: -1, Percentage: 20}
			if len(table) > 0 {
				init = &traits.FanSpeed{Preset: table[0].Name, Percentage: table[0].Percentage}
			}
			m := fanspeedpb.NewModel(fanspeedpb.WithPresets(table...), fanspeedpb.WithInitialFanSpeed(init))
			name := fmt.Sprintf("table=%s %s", tn, names(path, an))
			if len(path) > 0 && path[0]%2 == 1 && len(table) > 0 {
				// configured with the preset table alone: the model has to start on a row of ITS table
				m = fanspeedpb.NewModel(fanspeedpb.WithPresets(table...))
				name += " (no initial fan speed given)"
				if why := consistent(m.FanSpeed(), table); why != "" && len(path) == 1 {
					s.Fail("fan-initial "+name, fmt.Sprintf("a model configured with presets %v starts as %v: %s", table, m.FanSpeed(), why), nil)
				}
			}
			srv := fanspeedpb.NewModelServer(m)
			s.State(name)
			for step, ri := range path {
				r := reqs[ri]
				var mask *fieldmaskpb.FieldMask
				if r.mask != nil {
					mask = &fieldmaskpb.FieldMask{Paths: r.mask}
				}
				before := m.FanSpeed()
				var err error
				var got *traits.FanSpeed
				if p := guard(func() {
					got, err = srv.UpdateFanSpeed(ctx, &traits.UpdateFanSpeedRequest{Name: "n", FanSpeed: &traits.FanSpeed{Preset: r.fs.Preset, PresetIndex: r.fs.PresetIndex, Percentage: r.fs.Percentage}, UpdateMask: mask, Relative: r.relative})
				}); p != nil {
					if step == len(path)-1 {
						s.Fail("panic "+name, fmt.Sprintf("UpdateFanSpeed panicked: %v", p), nil)
					}
					return true
				}
				if err != nil {
					// an update that is answered with an error has not happened
					if after := m.FanSpeed(); !proto.Equal(after, before) && step == len(path)-1 {
						s.Fail("fan-rejected-update-changed "+name, fmt.Sprintf("UpdateFanSpeed answered %v, the fan speed went from %v to %v", err, before, after), nil)
						return true
					}
					continue
				}
				cur := m.FanSpeed()
				// every second step also turns the fan around: the other RPC that writes the fan speed must leave
				// preset, index and percentage as they are, flip the direction, and not panic
				if step%2 == 1 {
					var rev *traits.FanSpeed
					var rerr error
					if p := guard(func() {
						rev, rerr = srv.ReverseFanSpeedDirection(ctx, &traits.ReverseFanSpeedDirectionRequest{Name: "n"})
					}); p != nil {
						if step == len(path)-1 {
							s.Fail("panic reverse "+name, fmt.Sprintf("ReverseFanSpeedDirection panicked: %v", p), nil)
						}
						return true
					}
					if rerr == nil {
						after := m.FanSpeed()
						if step == len(path)-1 && (after.Preset != cur.Preset || after.PresetIndex != cur.PresetIndex || after.Percentage != cur.Percentage || after.Direction == cur.Direction || !proto.Equal(rev, after)) {
							s.Fail("fan-reverse "+name, fmt.Sprintf("ReverseFanSpeedDirection turned %v into %v (returned %v)", cur, after, rev), nil)
						}
						cur = after
					}
				}
				if why := consistent(cur, table); why != "" {
					if step == len(path)-1 {
						s.Fail("fan-inconsistent "+name, fmt.Sprintf("after the update (from %v) the stored fan speed is %v: %s", before, cur, why), nil)
					}
					return true
				}
				// a relative step of the index lands on the row that many rows on, stopping at the ends of the table
				// (however large the step: the sum of two int32 need not fit one)
				if r.relative && len(r.mask) == 1 && r.mask[0] == "preset_index" && len(table) > 0 && step == len(path)-1 {
					want := int64(before.PresetIndex) + int64(r.fs.PresetIndex)
					if want < 0 {
						want = 0
					}
					if want > int64(len(table)-1) {
						want = int64(len(table) - 1)
					}
					if int64(cur.PresetIndex) != want {
						s.Fail("fan-relative-index "+name, fmt.Sprintf("from row %d a relative step of %d rows ends on row %d, expected row %d of %d", before.PresetIndex, r.fs.PresetIndex, cur.PresetIndex, want, len(table)), nil)
					}
				}
				// a relative step of the percentage with a zero step of the index: the percentage moves by the step
				// (wherever the fan stood - on a row or between rows), nothing else decides
				if r.relative && len(r.mask) == 2 && r.mask[0] == "percentage" && r.mask[1] == "preset_index" && r.fs.PresetIndex == 0 && step == len(path)-1 {
					if want := before.Percentage + r.fs.Percentage; cur.Percentage != want {
						s.Fail("fan-relative-percentage "+name, fmt.Sprintf("from %v a relative step of %v%% (index step 0) ends on %v, expected %v%%", before, r.fs.Percentage, cur, want), nil)
					}
				}
				// precedence preset > index > percentage, for absolute masked updates
				if r.mask != nil && !r.relative && step == len(path)-1 {
					switch {
					case r.fs.Preset != "" && r.fs.Preset != before.Preset && cur.Preset != r.fs.Preset:
						s.Fail("fan-precedence "+name, fmt.Sprintf("requested preset %q, stored %v", r.fs.Preset, cur), nil)
					}
				}
				_ = got
			}
			if len(path) > 1 {
				s.Distinct(name)
			}
			return !s.Stop()
		})
	}
	s.Sample(map[string]any{"sequence": "table=default preset=med ; index+=1 ; percentage=33", "meaning": "every sequence (depth 2 quick / 3 thorough) of UpdateFanSpeed requests (preset / index / percentage, absolute and relative, with and without update_mask) against three preset tables; after each step preset, preset_index and percentage must describe the same table row (or no row)"})
}
