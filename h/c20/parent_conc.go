package main

// A concurrent mix of trait updates on one child is a set of update sequences: whichever order they take
// effect in, the child's trait list is the union / difference of what was added and removed - and a writer that
// loses the optimistic race against another must not panic. Every schedule of two writers is explored.

import (
	"fmt"
	"sync"

	"github.com/smart-core-os/sc-golang/pkg/trait"
	"github.com/smart-core-os/sc-golang/pkg/trait/parentpb"
	"verifrt"
	"verifrt/hx"
)

func parentConcBody(name string, existing bool, second string) func() {
	return func() {
		m := parentpb.NewModel()
		if existing {
			m.AddChildTrait("c", "A", "Z")
		}
		var wg sync.WaitGroup
		run := func(f func()) {
			wg.Add(1)
			go func() {
				defer wg.Done()
				defer func() {
					if p := recover(); p != nil {
						verifrt.Logf("FAIL parent-concurrent-panic %s ## %v", name, p)
					}
				}()
				f()
			}()
		}
		created := 0
		var mu sync.Mutex
		run(func() {
			if _, c := m.AddChildTrait("c", "B"); c {
				mu.Lock()
				created++
				mu.Unlock()
			}
		})
		want := "A,B,C,Z"
		switch second {
		case "add":
			run(func() {
				if _, c := m.AddChildTrait("c", "C", trait.Name("A")); c {
					mu.Lock()
					created++
					mu.Unlock()
				}
			})
			if !existing {
				want = "A,B,C"
			}
		case "remove":
			run(func() { m.RemoveChildTrait("c", "Z") })
			want = "A,B"
			if !existing {
				want = "B"
			}
		}
		wg.Wait()
		got := ""
		for _, c := range m.ListChildren() {
			if c.Name == "c" {
				got = traitNames(c)
			}
		}
		if got != want {
			verifrt.Logf("FAIL parent-concurrent-union %s ## child c ends with traits [%s], the updates give [%s] in any order", name, got, want)
		}
		if wantCreated := map[bool]int{true: 0, false: 1}[existing]; created != wantCreated {
			verifrt.Logf("FAIL parent-concurrent-created %s ## %d calls reported that they created the child, want %d", name, created, wantCreated)
		}
		verifrt.Logf("OUT %s created=%d", got, created)
	}
}

func registerParentConcurrent(h *hx.H) {
	for _, existing := range []bool{true, false} {
		for _, second := range []string{"add", "remove"} {
			name := fmt.Sprintf("parent/concurrent/child-exists=%v/AddChildTrait(c,B)||%sChildTrait", existing, second)
			h.Sched(name, -1, -1, parentConcBody(name, existing, second), hx.StdOracle)
		}
	}
}
