package main

import (
	"context"
	"crypto/md5"
	"fmt"
	"io"
	"time"

	"google.golang.org/grpc/codes"
	"google.golang.org/grpc/status"
	"google.golang.org/protobuf/proto"
	"google.golang.org/protobuf/types/known/fieldmaskpb"
	"google.golang.org/protobuf/types/known/timestamppb"

	"github.com/smart-core-os/sc-api/go/traits"
	"github.com/smart-core-os/sc-golang/pkg/resource"
	"github.com/smart-core-os/sc-golang/pkg/trait/enterleavesensorpb"
	"github.com/smart-core-os/sc-golang/pkg/trait/meterpb"
	"github.com/smart-core-os/sc-golang/pkg/trait/publicationpb"
	"verifrt/hx"
)

type stepClock struct{ t time.Time }

func (c *stepClock) Now() time.Time { return c.t }

var epoch = time.Unix(1_700_000_000, 0).UTC()

// ---------------------------------------------------------------- enter / leave

func enterLeaveScenario(s *hx.Seq) {
	if !s.Own() {
		return
	}
	i32 := func(v int32) *int32 { return &v }
	type elop struct {
		name string
		ev   *traits.EnterLeaveEvent
	}
	ops := []elop{
		{"ENTER", &traits.EnterLeaveEvent{Direction: traits.EnterLeaveEvent_ENTER}},
		{"LEAVE", &traits.EnterLeaveEvent{Direction: traits.EnterLeaveEvent_LEAVE}},
		{"UNSPECIFIED", &traits.EnterLeaveEvent{}},
		{"ENTER(enter_total=7)", &traits.EnterLeaveEvent{Direction: traits.EnterLeaveEvent_ENTER, EnterTotal: i32(7)}},
		{"LEAVE(leave_total=3)", &traits.EnterLeaveEvent{Direction: traits.EnterLeaveEvent_LEAVE, LeaveTotal: i32(3)}},
		{"UNSPECIFIED(totals=2,2)", &traits.EnterLeaveEvent{EnterTotal: i32(2), LeaveTotal: i32(2)}},
		{"ResetTotals", nil},
	}
	var an []string
	for _, o := range ops {
		an = append(an, o.name)
	}
	depth := 3
	if s.Thorough {
		depth = 4
	}
	seqs(len(ops), depth, func(path []int) bool {
		s.Eval(1)
		s.Trans(len(path))
		name := names(path, an)
		s.State(name)
		m := enterleavesensorpb.NewModel()
		var enter, leave int32
		// the first step also picks how the model was constructed: default, or from an initial event that carries
		// both totals, one of them, or none ("models constructed with explicit configuration use it")
		if len(path) > 0 {
			switch path[0] % 5 {
			case 1:
				m, enter, leave = enterleavesensorpb.NewModel(enterleavesensorpb.WithInitialEnterLeaveEvent(&traits.EnterLeaveEvent{EnterTotal: i32(3), LeaveTotal: i32(2)})), 3, 2
				name += " (initial event enter_total=3 leave_total=2)"
			case 2:
				m, enter = enterleavesensorpb.NewModel(enterleavesensorpb.WithInitialEnterLeaveEvent(&traits.EnterLeaveEvent{EnterTotal: i32(3)})), 3
				name += " (initial event enter_total=3)"
			case 3:
				m, leave = enterleavesensorpb.NewModel(enterleavesensorpb.WithInitialEnterLeaveEvent(&traits.EnterLeaveEvent{LeaveTotal: i32(2)})), 2
				name += " (initial event leave_total=2)"
			case 4:
				m = enterleavesensorpb.NewModel(enterleavesensorpb.WithInitialEnterLeaveEvent(&traits.EnterLeaveEvent{Direction: traits.EnterLeaveEvent_ENTER}))
				name += " (initial event without totals)"
			}
		}
		for step, oi := range path {
			o := ops[oi]
			var err error
			if p := guard(func() {
				if o.ev == nil {
					err = m.ResetTotals()
				} else {
					ev := &traits.EnterLeaveEvent{Direction: o.ev.Direction}
					if o.ev.EnterTotal != nil {
						ev.EnterTotal = i32(*o.ev.EnterTotal)
					}
					if o.ev.LeaveTotal != nil {
						ev.LeaveTotal = i32(*o.ev.LeaveTotal)
					}
					err = m.CreateEnterLeaveEvent(ev)
				}
			}); p != nil {
				if step == len(path)-1 {
					s.Fail("panic "+name, fmt.Sprint(p), nil)
				}
				return true
			}
			if err != nil {
				if step == len(path)-1 {
					s.Fail("enterleave-error "+name, err.Error(), nil)
				}
				return true
			}
			// spec: explicit totals (different from the current ones) win, otherwise ENTER / LEAVE count
			if o.ev == nil {
				enter, leave = 0, 0
			} else {
				if o.ev.EnterTotal != nil && *o.ev.EnterTotal != enter {
					enter = *o.ev.EnterTotal
				} else if o.ev.Direction == traits.EnterLeaveEvent_ENTER {
					enter++
				}
				if o.ev.LeaveTotal != nil && *o.ev.LeaveTotal != leave {
					leave = *o.ev.LeaveTotal
				} else if o.ev.Direction == traits.EnterLeaveEvent_LEAVE {
					leave++
				}
			}
			got, _ := m.GetEnterLeaveEvent()
			if got.GetEnterTotal() != enter || got.GetLeaveTotal() != leave {
				if step == len(path)-1 {
					s.Fail("enterleave-totals "+name, fmt.Sprintf("totals are enter=%d leave=%d, the counters give enter=%d leave=%d", got.GetEnterTotal(), got.GetLeaveTotal(), enter, leave), nil)
				}
				return true
			}
		}
		if len(path) > 1 {
			s.Distinct(name)
		}
		return !s.Stop()
	})
	s.Sample("every sequence (depth 3 / 4) of ENTER, LEAVE, unspecified events, events with explicit totals and ResetTotals, totals compared with plain counters")
}

// ---------------------------------------------------------------- meter

func meterScenario(s *hx.Seq) {
	if !s.Own() {
		return
	}
	ops := []string{"Record(5)", "Record(0)", "Reset", "Update(usage=9)", "Update(usage=9,mask=usage)"}
	depth := 3
	if s.Thorough {
		depth = 4
	}
	// configurations: none; an initial reading with usage and both times; with usage and a start time only
	for cfgI, cfgName := range []string{"", "initial(usage,start,end) ", "initial(usage,start) "} {
		cfgI, cfgName := cfgI, cfgName
		if !meterRun(s, ops, depth, cfgI, cfgName) {
			return
		}
	}
	s.Sample("every sequence (depth 3 / 4) of RecordReading, Reset and UpdateMeterReading with a stepping clock: start <= end, Record moves end to now and keeps start, Reset sets both; also from a model constructed with an initial reading")
}

func meterRun(s *hx.Seq, ops []string, depth int, cfgI int, cfgName string) bool {
	// the clock reads fractions of a second, the configured times are whole seconds: a time assembled from
	// two sources shows
	epoch := epoch.Add(123456789 * time.Nanosecond)
	t0, t1 := epoch.Truncate(time.Second).Add(-48*time.Hour), epoch.Truncate(time.Second).Add(-24*time.Hour)
	ok := true
	seqs(len(ops), depth, func(path []int) bool {
		s.Eval(1)
		s.Trans(len(path))
		name := cfgName + names(path, ops)
		s.State(name)
		clk := &stepClock{epoch}
		mopts := []resource.Option{resource.WithClock(clk)}
		start, end := epoch, epoch
		wantUsage := float32(0)
		switch cfgI {
		case 1:
			mopts = append(mopts, resource.WithInitialValue(&traits.MeterReading{Usage: 12.5, StartTime: timestamppb.New(t0), EndTime: timestamppb.New(t1)}))
			start, end, wantUsage = t0, t1, 12.5
		case 2:
			mopts = append(mopts, resource.WithInitialValue(&traits.MeterReading{Usage: 12.5, StartTime: timestamppb.New(t0)}))
			start, end, wantUsage = t0, epoch, 12.5
		}
		m := meterpb.NewModel(mopts...)
		r0, _ := m.GetMeterReading()
		if r0.StartTime == nil || r0.EndTime == nil || !r0.StartTime.AsTime().Equal(start) || !r0.EndTime.AsTime().Equal(end) || r0.Usage != wantUsage {
			if len(path) == 1 && path[0] == 0 {
				s.Fail("meter-initial "+cfgName, fmt.Sprintf("a new meter reads %v; expected usage %v, start %v, end %v (what it was configured with, the clock's time for what was not configured)", r0, wantUsage, start, end), nil)
			}
			ok = false
			return false
		}
		for step, oi := range path {
			now := epoch.Add(time.Duration(step+1) * time.Minute)
			clk.t = now
			var err error
			if p := guard(func() {
				switch ops[oi] {
				case "Record(5)":
					_, err = m.RecordReading(5)
				case "Record(0)":
					_, err = m.RecordReading(0)
				case "Reset":
					_, err = m.Reset()
				case "Update(usage=9)":
					_, err = m.UpdateMeterReading(&traits.MeterReading{Usage: 9})
				case "Update(usage=9,mask=usage)":
					_, err = m.UpdateMeterReading(&traits.MeterReading{Usage: 9}, resource.WithUpdateMask(&fieldmaskpb.FieldMask{Paths: []string{"usage"}}))
				}
			}); p != nil {
				if step == len(path)-1 {
					s.Fail("panic "+name, fmt.Sprint(p), nil)
				}
				return true
			}
			if err != nil {
				continue
			}
			checkTimes := true
			switch ops[oi] {
			case "Record(5)", "Record(0)":
				end = now
			case "Reset":
				start, end = now, now
			case "Update(usage=9)":
				checkTimes = false // a plain full update replaces the reading, the statement says nothing about it
				r, _ := m.GetMeterReading()
				if r.StartTime != nil {
					start = r.StartTime.AsTime()
				}
				if r.EndTime != nil {
					end = r.EndTime.AsTime()
				}
				if r.StartTime == nil || r.EndTime == nil {
					return true // nothing more to say about later steps
				}
			}
			r, _ := m.GetMeterReading()
			if checkTimes && step == len(path)-1 {
				if r.StartTime == nil || r.EndTime == nil || !r.StartTime.AsTime().Equal(start) || !r.EndTime.AsTime().Equal(end) {
					s.Fail("meter-times "+name, fmt.Sprintf("reading is start=%v end=%v, expected start=%v end=%v", r.StartTime.AsTime(), r.EndTime.AsTime(), start, end), nil)
					return true
				}
				if r.StartTime.AsTime().After(r.EndTime.AsTime()) {
					s.Fail("meter-start-after-end "+name, fmt.Sprintf("start=%v end=%v", r.StartTime.AsTime(), r.EndTime.AsTime()), nil)
				}
			} else if checkTimes && (r.StartTime == nil || r.EndTime == nil || !r.StartTime.AsTime().Equal(start) || !r.EndTime.AsTime().Equal(end)) {
				return true // reported at its own (shorter) sequence
			}
		}
		if len(path) > 1 {
			s.Distinct(name)
		}
		return !s.Stop()
	})
	return ok || cfgI > 0
}

// ---------------------------------------------------------------- publication

func version(p *traits.Publication) string {
	h := md5.New()
	io.WriteString(h, "v1")
	io.WriteString(h, p.Id)
	h.Write(p.Body)
	io.WriteString(h, p.MediaType)
	io.WriteString(h, p.GetAudience().GetName())
	return fmt.Sprintf("%x", h.Sum(nil))
}

func publicationScenario(s *hx.Seq) {
	if !s.Own() {
		return
	}
	ctx := context.Background()
	ops := []string{"Update(body=b2)", "Update(body=b1)", "Update(media)", "Update(audience=x)", "Update(stale version)", "Ack(ACCEPTED)", "Ack(REJECTED)", "Ack(ACCEPTED,allow)", "Ack(stale version)", "Ack(old version)",
		// the write the server's UpdatePublication makes, made through the model by a caller of its own, who lists the
		// mask option first and the model's options (new version, new publish time, receipt reset) after it
		"Update(body=b3, through the model, mask option first)"}
	depth := 3
	if s.Thorough {
		depth = 4
	}
	seqs(len(ops), depth, func(path []int) bool {
		s.Eval(1)
		s.Trans(len(path))
		name := names(path, ops)
		s.State(name)
		clk := &stepClock{epoch}
		m := publicationpb.NewModel(resource.WithClock(clk))
		srv := publicationpb.NewModelServer(m)
		cur, err := srv.CreatePublication(ctx, &traits.CreatePublicationRequest{Name: "n", Publication: &traits.Publication{Id: "p", Body: []byte("b1"), Audience: &traits.Publication_Audience{Name: "a"}}})
		if err != nil {
			s.Fail("publication-create", err.Error(), nil)
			return false
		}
		if cur.Version != version(cur) || cur.PublishTime == nil || !cur.PublishTime.AsTime().Equal(epoch) {
			s.Fail("publication-create-computed", fmt.Sprintf("created %v: version should be %s and publish time the clock's", cur, version(cur)), nil)
			return false
		}
		firstVersion := cur.Version
		acked := false
		if len(path) > 0 && path[0]%2 == 1 {
			// the same publication given to the constructor instead, already accepted (by a receipt that carries no
			// time): "models constructed with explicit configuration use it" - it IS acknowledged
			pre := proto.Clone(cur).(*traits.Publication)
			pre.Audience.Receipt = traits.Publication_Audience_ACCEPTED
			m = publicationpb.NewModel(resource.WithClock(clk), publicationpb.WithInitialPublication(pre))
			srv = publicationpb.NewModelServer(m)
			acked = true
			name += " (constructed with the publication already accepted)"
		}
		for step, oi := range path {
			now := epoch.Add(time.Duration(step+1) * time.Minute)
			clk.t = now
			last := step == len(path)-1
			before, _ := m.GetPublication("p")
			var got *traits.Publication
			var err error
			o := ops[oi]
			if p := guard(func() {
				switch o {
				case "Update(body=b2)":
					got, err = srv.UpdatePublication(ctx, &traits.UpdatePublicationRequest{Name: "n", Publication: &traits.Publication{Id: "p", Body: []byte("b2")}, UpdateMask: &fieldmaskpb.FieldMask{Paths: []string{"body"}}})
				case "Update(body=b1)":
					got, err = srv.UpdatePublication(ctx, &traits.UpdatePublicationRequest{Name: "n", Publication: &traits.Publication{Id: "p", Body: []byte("b1")}, UpdateMask: &fieldmaskpb.FieldMask{Paths: []string{"body"}}})
				case "Update(media)":
					got, err = srv.UpdatePublication(ctx, &traits.UpdatePublicationRequest{Name: "n", Publication: &traits.Publication{Id: "p", MediaType: "text/x"}, UpdateMask: &fieldmaskpb.FieldMask{Paths: []string{"media_type"}}})
				case "Update(audience=x)":
					got, err = srv.UpdatePublication(ctx, &traits.UpdatePublicationRequest{Name: "n", Publication: &traits.Publication{Id: "p", Audience: &traits.Publication_Audience{Name: "x"}}, UpdateMask: &fieldmaskpb.FieldMask{Paths: []string{"audience.name"}}})
				case "Update(body=b3, through the model, mask option first)":
					got, err = m.UpdatePublication("p", &traits.Publication{Id: "p", Body: []byte("b3")}, resource.WithUpdatePaths("body"),
						publicationpb.WithNewVersion(), publicationpb.WithNewPublishTime(), publicationpb.WithResetReceipt())
				case "Update(stale version)":
					got, err = srv.UpdatePublication(ctx, &traits.UpdatePublicationRequest{Name: "n", Version: "stale", Publication: &traits.Publication{Id: "p", Body: []byte("zz")}, UpdateMask: &fieldmaskpb.FieldMask{Paths: []string{"body"}}})
				case "Ack(ACCEPTED)":
					got, err = srv.AcknowledgePublication(ctx, &traits.AcknowledgePublicationRequest{Name: "n", Id: "p", Version: before.Version, Receipt: traits.Publication_Audience_ACCEPTED})
				case "Ack(REJECTED)":
					got, err = srv.AcknowledgePublication(ctx, &traits.AcknowledgePublicationRequest{Name: "n", Id: "p", Version: before.Version, Receipt: traits.Publication_Audience_REJECTED, ReceiptRejectedReason: "no"})
				case "Ack(ACCEPTED,allow)":
					got, err = srv.AcknowledgePublication(ctx, &traits.AcknowledgePublicationRequest{Name: "n", Id: "p", Version: before.Version, Receipt: traits.Publication_Audience_ACCEPTED, AllowAcknowledged: true})
				case "Ack(stale version)":
					got, err = srv.AcknowledgePublication(ctx, &traits.AcknowledgePublicationRequest{Name: "n", Id: "p", Version: "stale", Receipt: traits.Publication_Audience_ACCEPTED})
				case "Ack(old version)":
					got, err = srv.AcknowledgePublication(ctx, &traits.AcknowledgePublicationRequest{Name: "n", Id: "p", Version: firstVersion, Receipt: traits.Publication_Audience_ACCEPTED, AllowAcknowledged: true})
				}
			}); p != nil {
				if last {
					s.Fail("panic "+name, fmt.Sprint(p), nil)
				}
				return true
			}
			after, _ := m.GetPublication("p")
			fail := func(k, msg string) bool {
				if last {
					s.Fail(k+" "+name, msg, nil)
				}
				return true
			}
			// the version is always the hash of the content it covers
			if after.Version != version(after) {
				return fail("publication-version", fmt.Sprintf("stored version %s, content hashes to %s", after.Version, version(after)))
			}
			contentChanged := version(after) != version(before)
			if (after.Version != before.Version) != contentChanged {
				return fail("publication-version-change", "the version must change exactly when id, body, media type or audience name change")
			}
			switch {
			case o == "Update(stale version)" || o == "Ack(stale version)":
				if err == nil || after.Version != before.Version || after.GetAudience().GetReceipt() != before.GetAudience().GetReceipt() {
					return fail("publication-stale-version-accepted", fmt.Sprintf("a request with a stale version returned %v and the publication is now %v", err, after))
				}
			case o[:6] == "Update":
				if err != nil {
					return fail("publication-update-error", err.Error())
				}
				if !after.PublishTime.AsTime().Equal(now) {
					return fail("publication-publish-time", fmt.Sprintf("publish time %v after an update at %v", after.PublishTime.AsTime(), now))
				}
				if after.GetAudience().GetReceipt() != traits.Publication_Audience_NO_SIGNAL || after.GetAudience().GetReceiptTime() != nil {
					return fail("publication-receipt-not-reset", fmt.Sprintf("after an update the receipt is %v", after.GetAudience()))
				}
				acked = false
			case o == "Ack(old version)" && before.Version != firstVersion:
				if err == nil || after.GetAudience().GetReceipt() != before.GetAudience().GetReceipt() {
					return fail("publication-ack-old-version", fmt.Sprintf("acknowledging a superseded version returned %v; receipt now %v", err, after.GetAudience().GetReceipt()))
				}
			default: // an acknowledge with the current version
				allow := o == "Ack(ACCEPTED,allow)" || o == "Ack(old version)"
				if acked {
					if allow {
						if err != nil || got == nil {
							return fail("publication-allow-acknowledged", fmt.Sprintf("acknowledging an acknowledged publication with allow_acknowledged returned (%v, %v); it must succeed and leave the publication unchanged", got, err))
						}
					} else if status.Code(err) != codes.FailedPrecondition {
						return fail("publication-double-ack", fmt.Sprintf("second acknowledge returned %v", err))
					}
					if after.GetAudience().GetReceipt() != before.GetAudience().GetReceipt() {
						return fail("publication-double-ack-changed", "a repeated acknowledge changed the receipt")
					}
				} else {
					if err != nil {
						return fail("publication-ack-error", err.Error())
					}
					want := traits.Publication_Audience_ACCEPTED
					if o == "Ack(REJECTED)" {
						want = traits.Publication_Audience_REJECTED
					}
					if after.GetAudience().GetReceipt() != want || after.GetAudience().GetReceiptTime() == nil || !after.GetAudience().GetReceiptTime().AsTime().Equal(now) {
						return fail("publication-ack", fmt.Sprintf("after the acknowledge the audience is %v", after.GetAudience()))
					}
					acked = true
				}
			}
		}
		if len(path) > 1 {
			s.Distinct(name)
		}
		return !s.Stop()
	})
	s.Sample("publication p created, then every sequence (depth 3 / 4) of updates (body, media type, audience, stale version) and acknowledgements (accepted, rejected, allow_acknowledged, stale / superseded version): version = md5 of (id, body, media type, audience name), changes iff they change; publish time; receipt reset; acknowledge protocol")
}
