// C14 — trait servers give read-your-writes through the full stack
// WrapApi(router(WrapApi(server))): every model server / memory device found in the
// tree x every Get/Update/Pull triple found in its service descriptors x update
// messages, update masks, read masks x short histories with 0-2 open streams.
package main

import (
	"context"
	"fmt"
	"reflect"
	"sort"
	"strings"

	"google.golang.org/grpc"
	"google.golang.org/grpc/codes"
	"google.golang.org/grpc/status"
	"google.golang.org/protobuf/proto"
	"google.golang.org/protobuf/reflect/protoreflect"
	"google.golang.org/protobuf/reflect/protoregistry"
	"google.golang.org/protobuf/types/known/fieldmaskpb"

	"github.com/smart-core-os/sc-golang/pkg/wrap"
	"github.com/smart-core-os/sc-golang/verif_h/reg"
	"verifrt"
	"verifrt/hx"
)

const devName = "dev"

func fill(m protoreflect.Message, seed, depth int) {
	fds := m.Descriptor().Fields()
	for i := 0; i < fds.Len(); i++ {
		fd := fds.Get(i)
		if fd.ContainingOneof() != nil {
			continue
		}
		k := seed + i
		if fd.IsMap() {
			// one entry, for maps from strings to strings (mode values and the like): a resource that is all map
			// would otherwise never change value
			if fd.MapKey().Kind() == protoreflect.StringKind && fd.MapValue().Kind() == protoreflect.StringKind {
				m.Mutable(fd).Map().Set(protoreflect.ValueOfString(fmt.Sprintf("k%d", k%2)).MapKey(), protoreflect.ValueOfString(fmt.Sprintf("v%d", k%3)))
			}
			continue
		}
		if fd.IsList() {
			continue
		}
		switch fd.Kind() {
		case protoreflect.StringKind:
			m.Set(fd, protoreflect.ValueOfString(fmt.Sprintf("s%d", k)))
		case protoreflect.Int32Kind, protoreflect.Sint32Kind, protoreflect.Sfixed32Kind:
			m.Set(fd, protoreflect.ValueOfInt32(int32(k%7+1)))
		case protoreflect.Int64Kind, protoreflect.Sint64Kind, protoreflect.Sfixed64Kind:
			m.Set(fd, protoreflect.ValueOfInt64(int64(k%7+1)))
		case protoreflect.Uint32Kind, protoreflect.Fixed32Kind:
			m.Set(fd, protoreflect.ValueOfUint32(uint32(k%7+1)))
		case protoreflect.Uint64Kind, protoreflect.Fixed64Kind:
			m.Set(fd, protoreflect.ValueOfUint64(uint64(k%7+1)))
		case protoreflect.BoolKind:
			m.Set(fd, protoreflect.ValueOfBool(k%2 == 0))
		case protoreflect.FloatKind:
			m.Set(fd, protoreflect.ValueOfFloat32(float32(k%5)*10+5))
		case protoreflect.DoubleKind:
			m.Set(fd, protoreflect.ValueOfFloat64(float64(k%5)*10+5))
		case protoreflect.EnumKind:
			vs := fd.Enum().Values()
			m.Set(fd, protoreflect.ValueOfEnum(vs.Get(1+k%(vs.Len()-1)).Number()))
		case protoreflect.MessageKind:
			if depth > 0 && !strings.HasPrefix(string(fd.Message().FullName()), "google.protobuf") {
				fill(m.Mutable(fd).Message(), seed+3, depth-1)
			}
		}
	}
}

// nudge adds 0.004 to every float / double field of m (nested messages included)
func nudge(m protoreflect.Message) {
	m.Range(func(fd protoreflect.FieldDescriptor, v protoreflect.Value) bool {
		switch {
		case fd.IsList() || fd.IsMap():
		case fd.Kind() == protoreflect.FloatKind:
			m.Set(fd, protoreflect.ValueOfFloat32(float32(v.Float())+0.004))
		case fd.Kind() == protoreflect.DoubleKind:
			m.Set(fd, protoreflect.ValueOfFloat64(v.Float()+0.004))
		case fd.Kind() == protoreflect.MessageKind:
			nudge(m.Mutable(fd).Message())
		}
		return true
	})
}

// hint: a few resources only accept values from a documented domain
func hint(m protoreflect.Message, seed int) {
	switch m.Descriptor().FullName() {
	case "smartcore.traits.FanSpeed":
		presets := []string{"low", "med", "high", "full"}
		m.Set(m.Descriptor().Fields().ByName("preset"), protoreflect.ValueOfString(presets[seed%len(presets)]))
	case "smartcore.traits.ModeValues":
		// the generic generator leaves maps empty; mode values without a value change nothing
		mf := m.Descriptor().Fields().ByName("values")
		mp := m.Mutable(mf).Map()
		mp.Set(protoreflect.ValueOfString("m1").MapKey(), protoreflect.ValueOfString(fmt.Sprintf("v%d", seed%3)))
		mp.Set(protoreflect.ValueOfString(fmt.Sprintf("m%d", 2+seed%2)).MapKey(), protoreflect.ValueOfString("x"))
	case "smartcore.traits.OpenClosePositions":
		// a preset name must be one the model was configured with (the default model has none)
		m.Clear(m.Descriptor().Fields().ByName("preset"))
		// the generic generator leaves repeated fields empty; positions without a state change nothing
		sf := m.Descriptor().Fields().ByName("states")
		st := newOf(sf.Message())
		st.Set(sf.Message().Fields().ByName("open_percent"), protoreflect.ValueOfFloat32(float32(seed%100)))
		l := m.Mutable(sf).List()
		l.Append(protoreflect.ValueOfMessage(st))
	}
}

func newOf(md protoreflect.MessageDescriptor) protoreflect.Message {
	mt, err := protoregistry.GlobalTypes.FindMessageByName(md.FullName())
	if err != nil {
		panic(err)
	}
	return mt.New()
}

type method struct {
	svc  *reg.RouterEntry
	desc protoreflect.MethodDescriptor
}

func (m method) full() string { return fmt.Sprintf("/%s/%s", m.svc.Desc.ServiceName, m.desc.Name()) }

type triple struct {
	noun           string
	get, upd, pull method
	res            protoreflect.MessageDescriptor // the resource message
	updField       protoreflect.FieldDescriptor   // field of the update request holding the resource
	changeField    protoreflect.FieldDescriptor   // field of the change message holding the resource
	changesField   protoreflect.FieldDescriptor   // repeated changes field of the pull response
}

// discover the Get/Update/Pull triples among all services the server implements
func discover(server any) (services []*reg.RouterEntry, triples []triple) {
	byName := map[string]method{}
	for i := range reg.Routers {
		e := &reg.Routers[i]
		ht := reflect.TypeOf(e.Desc.HandlerType).Elem()
		if !reflect.TypeOf(server).Implements(ht) {
			continue
		}
		services = append(services, e)
		sd, err := protoregistry.GlobalFiles.FindDescriptorByName(protoreflect.FullName(e.Desc.ServiceName))
		if err != nil {
			continue
		}
		ms := sd.(protoreflect.ServiceDescriptor).Methods()
		for j := 0; j < ms.Len(); j++ {
			byName[string(ms.Get(j).Name())] = method{e, ms.Get(j)}
		}
	}
	var names []string
	for n := range byName {
		names = append(names, n)
	}
	sort.Strings(names)
	for _, n := range names {
		if !strings.HasPrefix(n, "Get") {
			continue
		}
		noun := n[3:]
		g, u, p := byName[n], byName["Update"+noun], byName["Pull"+noun]
		if u.desc == nil || p.desc == nil {
			continue
		}
		if g.desc.IsStreamingServer() || u.desc.IsStreamingServer() || !p.desc.IsStreamingServer() {
			continue
		}
		res := g.desc.Output()
		if u.desc.Output().FullName() != res.FullName() {
			continue
		}
		if g.desc.Input().Fields().ByName("name") == nil || u.desc.Input().Fields().ByName("name") == nil || p.desc.Input().Fields().ByName("name") == nil {
			continue
		}
		// a single resource per device: the Get request names nothing but the device (requests that
		// also need an item id / key address members of a collection, not one register)
		single := true
		gf := g.desc.Input().Fields()
		for i := 0; i < gf.Len(); i++ {
			if n := gf.Get(i).Name(); n != "name" && n != "read_mask" {
				single = false
			}
		}
		if !single {
			continue
		}
		t := triple{noun: noun, get: g, upd: u, pull: p, res: res}
		uf := u.desc.Input().Fields()
		for i := 0; i < uf.Len(); i++ {
			if uf.Get(i).Kind() == protoreflect.MessageKind && uf.Get(i).Message().FullName() == res.FullName() && !uf.Get(i).IsList() {
				t.updField = uf.Get(i)
			}
		}
		cf := p.desc.Output().Fields().ByName("changes")
		if t.updField == nil || cf == nil || !cf.IsList() || cf.Kind() != protoreflect.MessageKind {
			continue
		}
		t.changesField = cf
		chf := cf.Message().Fields()
		for i := 0; i < chf.Len(); i++ {
			if chf.Get(i).Kind() == protoreflect.MessageKind && chf.Get(i).Message().FullName() == res.FullName() && !chf.Get(i).IsList() {
				t.changeField = chf.Get(i)
			}
		}
		if t.changeField == nil || chf.ByName("name") == nil {
			continue
		}
		triples = append(triples, t)
	}
	return
}

type tcase struct {
	Server  int
	Noun    string
	Updates []int    // seeds of the update messages
	Masks   []string // update mask per update: "" = nil, else a top-level field name
	Streams int      // 0..2 open streams (the second one updates-only)
	ReadMsk string   // read mask field for the masked Get ("" = none)
}

func setStr(m protoreflect.Message, field, v string) {
	if fd := m.Descriptor().Fields().ByName(protoreflect.Name(field)); fd != nil && fd.Kind() == protoreflect.StringKind {
		m.Set(fd, protoreflect.ValueOfString(v))
	}
}

func setMask(m protoreflect.Message, field string, paths ...string) {
	if fd := m.Descriptor().Fields().ByName(protoreflect.Name(field)); fd != nil && fd.Kind() == protoreflect.MessageKind && fd.Message().FullName() == "google.protobuf.FieldMask" {
		m.Set(fd, protoreflect.ValueOfMessage((&fieldmaskpb.FieldMask{Paths: paths}).ProtoReflect()))
	}
}

var lastRejection string // why the most recent generated update was refused (reported when none is accepted)

func runCase(c tcase) (fails [][2]string, okUpdates int) {
	se := reg.Servers[c.Server]
	fail := func(k, m string) {
		for _, f := range fails {
			if f[0] == k {
				return
			}
		}
		fails = append(fails, [2]string{k, m})
	}
	res := verifrt.RunOnce(nil, false, func() {
		// the clock stands still for the whole history (virtual time only moves when a timer fires): successive
		// writes carry the same change time, which is no reason for any of them to go missing from a stream
		verifrt.VirtualClock()
		server := se.New()
		services, triples := discover(server)
		var t *triple
		for i := range triples {
			if triples[i].noun == c.Noun {
				t = &triples[i]
			}
		}
		if t == nil {
			fail("no-triple", "triple disappeared")
			return
		}
		// the stack: wrapper(router(wrapper(server))) per service
		conns := map[string]grpc.ClientConnInterface{}
		for _, e := range services {
			inner := wrap.ServerToClient(*e.Desc, server)
			r := e.New()
			r.Add(devName, e.NewClient(inner))
			conns[e.Desc.ServiceName] = wrap.ServerToClient(*e.Desc, r)
		}
		ctx, cancel := context.WithCancel(context.Background())
		defer cancel()
		get := func(mask string) (proto.Message, error) {
			req := newOf(t.get.desc.Input())
			setStr(req, "name", devName)
			if mask != "" {
				setMask(req, "read_mask", mask)
			}
			resp := newOf(t.res).Interface()
			err := conns[t.get.svc.Desc.ServiceName].Invoke(ctx, t.get.full(), req.Interface(), resp)
			return resp, err
		}
		// project: the part of a full resource value a stream with this read mask is entitled to
		project := func(m proto.Message, mask string) proto.Message {
			if mask == "" || m == nil {
				return m
			}
			want := newOf(t.res)
			fd := t.res.Fields().ByName(protoreflect.Name(mask))
			if fd != nil && m.ProtoReflect().Has(fd) {
				want.Set(fd, m.ProtoReflect().Get(fd))
			}
			return want.Interface()
		}
		type stream struct {
			mask        string // read mask of the Pull request: "" = none, else one top-level field
			updatesOnly bool
			got         []proto.Message // resource values received
			names       []string
			err         error
		}
		var streams []*stream
		stalled := false // the next stream opened is one nobody reads from (and nobody cancels)
		open := func(updatesOnly bool, mask string) {
			st := &stream{updatesOnly: updatesOnly, mask: mask}
			if !stalled {
				streams = append(streams, st)
			}
			req := newOf(t.pull.desc.Input())
			setStr(req, "name", devName)
			if mask != "" {
				if req.Descriptor().Fields().ByName("read_mask") != nil {
					setMask(req, "read_mask", mask)
				} else {
					st.mask = "" // the request has no read mask
				}
			}
			if fd := req.Descriptor().Fields().ByName("updates_only"); fd != nil {
				req.Set(fd, protoreflect.ValueOfBool(updatesOnly))
			} else if updatesOnly {
				st.updatesOnly = false // the request has no such switch
			}
			cs, err := conns[t.pull.svc.Desc.ServiceName].NewStream(ctx, &grpc.StreamDesc{ServerStreams: true}, t.pull.full())
			if err != nil {
				st.err = err
				return
			}
			if err := cs.SendMsg(req.Interface()); err != nil {
				st.err = err
				return
			}
			cs.CloseSend()
			if stalled {
				return
			}
			go func() {
				for {
					resp := newOf(t.pull.desc.Output())
					if err := cs.RecvMsg(resp.Interface()); err != nil {
						st.err = err
						return
					}
					l := resp.Get(t.changesField).List()
					for i := 0; i < l.Len(); i++ {
						ch := l.Get(i).Message()
						st.got = append(st.got, proto.Clone(ch.Get(t.changeField).Message().Interface()))
						st.names = append(st.names, ch.Get(ch.Descriptor().Fields().ByName("name")).String())
					}
				}
			}()
		}
		cur, err := get("")
		if status.Code(err) == codes.Unimplemented {
			okUpdates = -1 // the server does not implement Get: it does not expose this resource through Get/Update/Pull
			return
		}
		if err != nil {
			fail("get-error", fmt.Sprintf("initial %s failed: %v", t.get.full(), err))
			return
		}
		// 1: a plain stream; 2: plain + updates-only; 3: masked + plain; 4: plain + masked (who filters an event
		// first must not matter to the other stream)
		switch c.Streams {
		case 1:
			open(false, "")
		case 2:
			open(false, "")
			open(true, "")
		case 3:
			open(false, c.ReadMsk)
			open(false, "")
		case 4:
			open(false, "")
			open(false, c.ReadMsk)
		case 5:
			// two streams nobody reads from (a client that went to sleep without hanging up), one of them updates-only,
			// and a stream that is read: a reader that does not keep up is owed nothing - and costs the writers nothing
			stalled = true
			open(false, "")
			open(true, "")
			stalled = false
			open(false, "")
		}
		verifrt.WaitIdle()
		for i, st := range streams {
			if st.err != nil {
				fail("pull-error", fmt.Sprintf("stream %d ended: %v", i, st.err))
				return
			}
			if st.updatesOnly {
				if len(st.got) != 0 {
					fail("updates-only-seed", fmt.Sprintf("an updates-only Pull started with %d message(s)", len(st.got)))
					return
				}
			} else if len(st.got) != 1 || !proto.Equal(st.got[0], project(cur, st.mask)) {
				// reported, but the history goes on: what the stream does with later updates is a separate clause
				fail("pull-initial", fmt.Sprintf("a new Pull must start with the current value %v, got %v", cur, st.got))
			}
			st.got, st.names = nil, nil
		}
		for ui, seed := range c.Updates {
			req := newOf(t.upd.desc.Input())
			setStr(req, "name", devName)
			val := newOf(t.res)
			fill(val, seed, 2)
			hint(val, seed)
			req.Set(t.updField, protoreflect.ValueOfMessage(val))
			if c.Masks[ui] != "" {
				setMask(req, "update_mask", c.Masks[ui])
			}
			resp := newOf(t.res).Interface()
			uerr := conns[t.upd.svc.Desc.ServiceName].Invoke(ctx, t.upd.full(), req.Interface(), resp)
			verifrt.WaitIdle()
			after, gerr := get("")
			if gerr != nil {
				fail("get-error", gerr.Error())
				return
			}
			if uerr != nil {
				lastRejection = uerr.Error()
				if !proto.Equal(after, cur) {
					fail("rejected-update-changed-value", fmt.Sprintf("%s returned %v but Get changed from %v to %v", t.upd.full(), uerr, cur, after))
					return
				}
				for i, st := range streams {
					if len(st.got) != 0 {
						fail("rejected-update-emitted", fmt.Sprintf("%s returned %v but stream %d received %v", t.upd.full(), uerr, i, st.got))
						return
					}
				}
				continue
			}
			okUpdates++
			if !proto.Equal(resp, after) {
				fail("update-response-not-get", fmt.Sprintf("%s (update #%d, mask %q) returned %v but the next Get returns %v", t.upd.full(), ui, c.Masks[ui], resp, after))
				return
			}
			changed := !proto.Equal(after, cur)
			for i, st := range streams {
				switch {
				case st.mask != "" && len(st.got) == 0 && proto.Equal(project(after, st.mask), project(cur, st.mask)):
					// nothing this stream can see has changed: a model with an equivalence may stay silent
				case changed && len(st.got) != 1:
					fail("pull-missed-update", fmt.Sprintf("update #%d changed the value from %v to %v; stream %d (updates_only=%v) received %d message(s): %v", ui, cur, after, i, st.updatesOnly, len(st.got), st.got))
					return
				case !changed && len(st.got) > 1:
					fail("pull-extra", fmt.Sprintf("stream %d received %d messages for one update", i, len(st.got)))
					return
				}
				for k, g := range st.got {
					if !proto.Equal(g, project(resp, st.mask)) {
						fail("pull-value", fmt.Sprintf("stream %d (read mask %q) received %v, the update's response is %v", i, st.mask, g, resp))
						return
					}
					if st.names[k] != devName {
						fail("pull-name", fmt.Sprintf("stream %d change carries name %q, the Pull request named %q", i, st.names[k], devName))
						return
					}
				}
				st.got, st.names = nil, nil
			}
			cur = after
		}
		// an update that moves every float of the last written value by a hair (0.004): whether the model's
		// equivalence calls that a change or not (streams may stay silent), the response must be the next Get
		if len(c.Updates) > 0 {
			req := newOf(t.upd.desc.Input())
			setStr(req, "name", devName)
			val := newOf(t.res)
			seed := c.Updates[len(c.Updates)-1]
			fill(val, seed, 2)
			hint(val, seed)
			nudge(val)
			req.Set(t.updField, protoreflect.ValueOfMessage(val))
			resp := newOf(t.res).Interface()
			if uerr := conns[t.upd.svc.Desc.ServiceName].Invoke(ctx, t.upd.full(), req.Interface(), resp); uerr == nil {
				verifrt.WaitIdle()
				after, gerr := get("")
				if gerr != nil {
					fail("get-error", gerr.Error())
				} else if !proto.Equal(resp, after) {
					fail("update-response-not-get", fmt.Sprintf("%s (a value within 0.004 of the previous one) returned %v but the next Get returns %v", t.upd.full(), resp, after))
				} else {
					cur = after
				}
				for _, st := range streams {
					st.got, st.names = nil, nil
				}
			}
		}
		// "An Update rejected with any error status leaves Get unchanged": a mask naming a field that does not exist
		{
			req := newOf(t.upd.desc.Input())
			setStr(req, "name", devName)
			val := newOf(t.res)
			fill(val, 31, 2)
			hint(val, 31)
			req.Set(t.updField, protoreflect.ValueOfMessage(val))
			if req.Descriptor().Fields().ByName("update_mask") != nil {
				setMask(req, "update_mask", "no_such_field")
				resp := newOf(t.res).Interface()
				uerr := conns[t.upd.svc.Desc.ServiceName].Invoke(ctx, t.upd.full(), req.Interface(), resp)
				verifrt.WaitIdle()
				after, gerr := get("")
				switch {
				case gerr != nil:
					fail("get-error", gerr.Error())
				case uerr == nil:
					// a server that does not look at the mask accepts the update; that is about masks (C05, C20),
					// the clause here concerns updates that ARE rejected
					if !proto.Equal(resp, after) {
						fail("update-response-not-get", fmt.Sprintf("%s (mask no_such_field) returned %v but the next Get returns %v", t.upd.full(), resp, after))
					}
					cur = after
				case !proto.Equal(after, cur):
					fail("rejected-update-changed-value", fmt.Sprintf("%s returned %v but Get changed from %v to %v", t.upd.full(), uerr, cur, after))
				}
				for i, st := range streams {
					if uerr != nil && len(st.got) != 0 {
						fail("rejected-update-emitted", fmt.Sprintf("%s returned %v but stream %d received %v", t.upd.full(), uerr, i, st.got))
					}
					st.got, st.names = nil, nil
				}
				// a server that refuses that mask looks at masks. For it a mask that is THERE and names nothing means
				// "write no field" (as on the resources underneath): whatever it answers, the register reads as before
				// and no stream hears of it
				if uerr != nil {
					req2 := proto.Clone(req.Interface()).ProtoReflect()
					setMask(req2, "update_mask")
					resp2 := newOf(t.res).Interface()
					uerr2 := conns[t.upd.svc.Desc.ServiceName].Invoke(ctx, t.upd.full(), req2.Interface(), resp2)
					verifrt.WaitIdle()
					after2, gerr2 := get("")
					switch {
					case gerr2 != nil:
						fail("get-error", gerr2.Error())
					case !proto.Equal(after2, cur):
						fail("empty-mask-update-changed-value", fmt.Sprintf("%s with an update mask naming no field returned %v and Get changed from %v to %v", t.upd.full(), uerr2, cur, after2))
						cur = after2
					}
					for _, st := range streams {
						st.got, st.names = nil, nil
					}
				}
			}
		}
		// an Update request that leaves the resource out altogether (legal on the wire), plain and - where the request
		// has such a flag - as a relative / delta update: answered, not a panic; rejected means nothing changed,
		// accepted means the response is what Get returns next
		for _, flag := range []string{"", "delta", "relative"} {
			req := newOf(t.upd.desc.Input())
			setStr(req, "name", devName)
			if flag != "" {
				fd := req.Descriptor().Fields().ByName(protoreflect.Name(flag))
				if fd == nil || fd.Kind() != protoreflect.BoolKind {
					continue
				}
				req.Set(fd, protoreflect.ValueOfBool(true))
			}
			resp := newOf(t.res).Interface()
			uerr := conns[t.upd.svc.Desc.ServiceName].Invoke(ctx, t.upd.full(), req.Interface(), resp)
			verifrt.WaitIdle()
			after, gerr := get("")
			switch {
			case gerr != nil:
				fail("get-error", gerr.Error())
			case uerr == nil:
				if !proto.Equal(resp, after) {
					fail("update-response-not-get", fmt.Sprintf("%s (no resource in the request, %s) returned %v but the next Get returns %v", t.upd.full(), flag, resp, after))
				}
				cur = after
			case !proto.Equal(after, cur):
				fail("rejected-update-changed-value", fmt.Sprintf("%s (no resource in the request) returned %v but Get changed from %v to %v", t.upd.full(), uerr, cur, after))
			}
			for _, st := range streams {
				st.got, st.names = nil, nil
			}
		}
		// Get with a read mask is the projection of the full Get
		if c.ReadMsk != "" {
			m, err := get(c.ReadMsk)
			if err != nil {
				fail("get-mask-error", fmt.Sprintf("Get with read_mask %s failed: %v", c.ReadMsk, err))
				return
			}
			want := newOf(t.res)
			fd := t.res.Fields().ByName(protoreflect.Name(c.ReadMsk))
			if cur.ProtoReflect().Has(fd) {
				want.Set(fd, cur.ProtoReflect().Get(fd))
			}
			if !proto.Equal(m, want.Interface()) {
				fail("get-mask", fmt.Sprintf("Get(read_mask=%s) = %v, the projection of %v is %v", c.ReadMsk, m, cur, want.Interface()))
			}
		}
	})
	if len(fails) == 0 && res.Status != "ok" {
		return [][2]string{{res.Status, res.Msg}}, okUpdates
	}
	return fails, okUpdates
}

func topFields(md protoreflect.MessageDescriptor) []string {
	var out []string
	for i := 0; i < md.Fields().Len(); i++ {
		fd := md.Fields().Get(i)
		if fd.IsList() || fd.IsMap() || fd.ContainingOneof() != nil {
			continue
		}
		out = append(out, string(fd.Name()))
	}
	return out
}

func main() {
	h := hx.New("C14")
	registerOpenClose(h)
	registerRamp(h)
	registerItems(h)
	for _, uo := range []bool{false, true} {
		for _, n := range []int{1, 2} {
			name := concurrentName(uo, n)
			q, t := -1, -1
			if n == 2 {
				q = -2
			}
			h.Sched(name, q, t, concurrentBody(name, uo, n), hx.StdOracle)
		}
	}
	h.Seq("servers", func(s *hx.Seq) {
		var rc tcase
		if s.Replaying(&rc) {
			fs, _ := runCase(rc)
			for _, f := range fs {
				s.Fail(f[0], f[1], rc)
			}
			return
		}
		nTriples := 0
		for si, se := range reg.Servers {
			server := se.New()
			_, triples := discover(server)
			for _, t := range triples {
				nTriples++
				if !s.Own() {
					continue
				}
				fields := topFields(t.res)
				masks := append([]string{""}, fields...)
				if !s.Thorough && len(masks) > 4 {
					masks = masks[:4]
				}
				okSeen := 0
				maxLen := 2
				if s.Thorough {
					maxLen = 3
				}
				// a longer history (eight updates) next to two stalled streams: every stage between the resource and a
				// sleeping reader holds one event, the ninth thing to do is to wait - or not
				{
					c := tcase{Server: si, Noun: t.noun, Streams: 5}
					for k := 0; k < 8; k++ {
						c.Updates = append(c.Updates, []int{11, 23}[k%2])
						c.Masks = append(c.Masks, "")
					}
					s.Eval(1)
					s.Trans(8)
					fs, ok := runCase(c)
					if ok >= 0 {
						for _, f := range fs {
							s.Fail(fmt.Sprintf("%s %s %s", f[0], se.Name, t.noun), f[1]+fmt.Sprintf(" (updates=%v masks=%v streams=%d: two stalled streams and one that is read)", c.Updates, c.Masks, c.Streams), c)
						}
						s.State(fmt.Sprint(se.Name, t.noun, "stalled"))
					}
				}
				for n := 1; n <= maxLen; n++ {
					for streams := 0; streams <= 4; streams++ {
						if streams >= 3 && len(fields) == 0 {
							continue
						}
						for _, m0 := range masks {
							for _, m1 := range masks {
								if n == 1 && m1 != "" {
									continue
								}
								if n >= 2 && m0 != "" && m1 != "" && m0 != m1 && !s.Thorough {
									continue
								}
								c := tcase{Server: si, Noun: t.noun, Streams: streams}
								seeds := []int{11, 23, 11}
								ms := []string{m0, m1, m0}
								c.Updates, c.Masks = seeds[:n], ms[:n]
								if len(fields) > 0 {
									c.ReadMsk = fields[(n+streams)%len(fields)]
								}
								s.Eval(1)
								s.Trans(n)
								fs, ok := runCase(c)
								if ok < 0 {
									s.Note("%s %s: Get is Unimplemented, not a Get/Update/Pull resource of this server", se.Name, t.noun)
									okSeen = 1
									goto nextTriple
								}
								okSeen += ok
								for _, f := range fs {
									s.Fail(fmt.Sprintf("%s %s %s", f[0], se.Name, t.noun), f[1]+fmt.Sprintf(" (updates=%v masks=%v streams=%d)", c.Updates, c.Masks, c.Streams), c)
								}
								s.State(fmt.Sprint(se.Name, t.noun, c.Masks, streams, n))
								if ok > 0 {
									s.Distinct(fmt.Sprint(se.Name, t.noun, c.Masks, streams, n))
								}
							}
						}
					}
				}
			nextTriple:
				if okSeen == 0 {
					s.Note("%s %s: no generated update was accepted by the server (only the rejected-update clause was exercised; last refusal: %s)", se.Name, t.noun, lastRejection)
				}
				if s.Stop() {
					return
				}
			}
		}
		s.Note("%d servers, %d Get/Update/Pull triples discovered in the tree", len(reg.Servers), nTriples)
		s.Sample(map[string]any{"case": tcase{Server: 0, Noun: "<noun>", Updates: []int{11, 23}, Masks: []string{"", "<field>"}, Streams: 2, ReadMsk: "<field>"}, "meaning": "server -> wrapper -> router (registered as 'dev') -> wrapper; two streams opened (one updates-only); each update built by protoreflect (seeded values) with an optional update mask; after every update (exact quiescence) Update response == Get, every stream received exactly the response with name 'dev'; finally Get with a read mask equals the projection"})
	})
	h.Run()
}
