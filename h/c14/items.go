package main

// Servers whose Get / Update / Pull address ONE ITEM of a collection (by id) expose that item as a register too:
// the hail server. The model starts with one hail that arrived long ago (so any housekeeping that wants to
// collect old hails has something to collect); the client, behind wrapper -> router -> wrapper, opens a Pull on the
// hail, updates it (accepted: state; rejected: a mask naming no field), and reads it back after each step.

import (
	"context"
	"fmt"
	"strings"

	"github.com/smart-core-os/sc-api/go/traits"
	"google.golang.org/protobuf/proto"
	"google.golang.org/protobuf/reflect/protoreflect"
	"google.golang.org/protobuf/reflect/protoregistry"
	"google.golang.org/protobuf/types/known/fieldmaskpb"
	"google.golang.org/protobuf/types/known/timestamppb"

	"github.com/smart-core-os/sc-golang/pkg/resource"
	"github.com/smart-core-os/sc-golang/pkg/trait/electricpb"
	"github.com/smart-core-os/sc-golang/pkg/trait/hailpb"
	"github.com/smart-core-os/sc-golang/pkg/trait/publicationpb"
	"github.com/smart-core-os/sc-golang/pkg/wrap"
	"github.com/smart-core-os/sc-golang/verif_h/reg"
	"verifrt"
	"verifrt/hx"
)

// restricted: the model's collection lets clients write the state and nothing else (writable fields): the updates of
// this history, which name the state in their masks, are as welcome as before.
func hailItemBody(name string, updatesOnly, restricted bool) func() {
	return func() {
		first := &traits.Hail{Id: "h1", State: traits.Hail_BOARDING, ArriveTime: &timestamppb.Timestamp{Seconds: 1_000_000}}
		mopts := []resource.Option{resource.WithInitialRecord("h1", first)}
		if restricted {
			mopts = append(mopts, resource.WithWritablePaths(&traits.Hail{}, "state"))
		}
		model := hailpb.NewModel(mopts...)
		inner := wrap.ServerToClient(traits.HailApi_ServiceDesc, hailpb.NewModelServer(model))
		r := hailpb.NewApiRouter()
		r.Add(devName, traits.NewHailApiClient(inner))
		c := traits.NewHailApiClient(wrap.ServerToClient(traits.HailApi_ServiceDesc, r))
		ctx, cancel := context.WithCancel(context.Background())
		defer cancel()
		bg := context.Background()

		var got []*traits.Hail
		stream, err := c.PullHail(ctx, &traits.PullHailRequest{Name: devName, Id: "h1", UpdatesOnly: updatesOnly})
		if err != nil {
			verifrt.Logf("FAIL item-pull-open %s ## %v", name, err)
			return
		}
		ended := false
		go func() {
			for {
				m, err := stream.Recv()
				if err != nil {
					ended = true
					return
				}
				for _, ch := range m.Changes {
					if ch.Name != devName {
						verifrt.Logf("FAIL item-pull-name %s ## change carries name %q", name, ch.Name)
					}
					got = append(got, ch.Hail)
				}
			}
		}()
		verifrt.WaitIdle()
		get := func() *traits.Hail {
			h, err := c.GetHail(bg, &traits.GetHailRequest{Name: devName, Id: "h1"})
			if err != nil {
				verifrt.Logf("FAIL item-get %s ## GetHail: %v", name, err)
				return nil
			}
			return h
		}
		cur := get()
		if cur == nil {
			return
		}
		if !updatesOnly && (len(got) != 1 || !proto.Equal(got[0], cur)) {
			verifrt.Logf("FAIL item-pull-initial %s ## the stream started with %v, Get returns %v", name, got, cur)
		}
		got = nil
		for step, st := range []traits.Hail_State{traits.Hail_DEPARTED, traits.Hail_ARRIVED} {
			// accepted
			resp, err := c.UpdateHail(bg, &traits.UpdateHailRequest{Name: devName, Hail: &traits.Hail{Id: "h1", State: st}, UpdateMask: &fieldmaskpb.FieldMask{Paths: []string{"state"}}})
			verifrt.WaitIdle()
			if err != nil {
				verifrt.Logf("FAIL item-update %s ## UpdateHail(state=%v): %v", name, st, err)
				return
			}
			after := get()
			if after == nil {
				verifrt.Logf("FAIL item-update-response-not-get %s ## step %d: UpdateHail answered %v but the hail cannot be read any more", name, step, resp)
				return
			}
			if !proto.Equal(resp, after) {
				verifrt.Logf("FAIL item-update-response-not-get %s ## step %d: UpdateHail answered %v, the next Get returns %v", name, step, resp, after)
			}
			if len(got) != 1 || !proto.Equal(got[0], resp) {
				verifrt.Logf("FAIL item-update-not-on-stream %s ## step %d: the open stream received %v for the update answered with %v (stream ended: %v)", name, step, got, resp, ended)
			}
			got, cur = nil, after
			// rejected
			_, err = c.UpdateHail(bg, &traits.UpdateHailRequest{Name: devName, Hail: &traits.Hail{Id: "h1", State: traits.Hail_CALLED}, UpdateMask: &fieldmaskpb.FieldMask{Paths: []string{"no_such_field"}}})
			verifrt.WaitIdle()
			if err == nil {
				verifrt.Logf("FAIL item-bad-mask-accepted %s ## an update mask naming no field of the hail was accepted", name)
			}
			if after := get(); after == nil || !proto.Equal(after, cur) {
				verifrt.Logf("FAIL item-rejected-update-changed-value %s ## step %d: UpdateHail returned %v but Get changed from %v to %v", name, step, err, cur, after)
				return
			}
			if len(got) != 0 {
				verifrt.Logf("FAIL item-rejected-update-emitted %s ## the stream received %v", name, got)
			}
		}
		cancel()
		verifrt.WaitIdle()
		verifrt.Logf("OUT final=%v", cur)
	}
}

// publicationItemBody: one publication of a publication device is a register too (Get / Update / Pull by id). With
// foldIDs the model treats ids without regard to case (an id interceptor) and the client writes the id its own
// way ("News" for what is stored as "news"): Get, Update and Pull name the same publication by it.
func publicationItemBody(name string, updatesOnly, foldIDs bool) func() {
	return func() {
		first := &traits.Publication{Id: "news", Body: []byte("one"), MediaType: "text/plain", Audience: &traits.Publication_Audience{Name: "all"}}
		opts := []resource.Option{resource.WithInitialRecord("news", first)}
		id := "news"
		if foldIDs {
			opts = append(opts, resource.WithIDInterceptor(strings.ToLower))
			id = "News"
		}
		model := publicationpb.NewModel(opts...)
		inner := wrap.ServerToClient(traits.PublicationApi_ServiceDesc, publicationpb.NewModelServer(model))
		r := publicationpb.NewApiRouter()
		r.Add(devName, traits.NewPublicationApiClient(inner))
		c := traits.NewPublicationApiClient(wrap.ServerToClient(traits.PublicationApi_ServiceDesc, r))
		ctx, cancel := context.WithCancel(context.Background())
		defer cancel()
		bg := context.Background()

		var got []*traits.Publication
		stream, err := c.PullPublication(ctx, &traits.PullPublicationRequest{Name: devName, Id: id, UpdatesOnly: updatesOnly})
		if err != nil {
			verifrt.Logf("FAIL item-pull-open %s ## %v", name, err)
			return
		}
		go func() {
			for {
				m, err := stream.Recv()
				if err != nil {
					return
				}
				for _, ch := range m.Changes {
					if ch.Name != devName {
						verifrt.Logf("FAIL item-pull-name %s ## change carries name %q", name, ch.Name)
					}
					got = append(got, ch.Publication)
				}
			}
		}()
		verifrt.WaitIdle()
		get := func() *traits.Publication {
			p, err := c.GetPublication(bg, &traits.GetPublicationRequest{Name: devName, Id: id})
			if err != nil {
				verifrt.Logf("FAIL item-get %s ## GetPublication(%q): %v", name, id, err)
				return nil
			}
			return p
		}
		cur := get()
		if cur == nil {
			return
		}
		if !updatesOnly && (len(got) != 1 || !proto.Equal(got[0], cur)) {
			verifrt.Logf("FAIL item-pull-initial %s ## the stream started with %v, Get returns %v", name, got, cur)
		}
		if masked, err := c.GetPublication(bg, &traits.GetPublicationRequest{Name: devName, Id: id, ReadMask: &fieldmaskpb.FieldMask{Paths: []string{"body"}}}); err != nil || !proto.Equal(masked, &traits.Publication{Body: cur.Body}) {
			verifrt.Logf("FAIL item-get-mask %s ## Get with the read mask body returns %v (%v), the full Get %v", name, masked, err, cur)
		}
		got = nil
		for step, body := range []string{"two", "three"} {
			resp, err := c.UpdatePublication(bg, &traits.UpdatePublicationRequest{Name: devName, Publication: &traits.Publication{Id: id, Body: []byte(body)}, UpdateMask: &fieldmaskpb.FieldMask{Paths: []string{"body"}}})
			verifrt.WaitIdle()
			if err != nil {
				verifrt.Logf("FAIL item-update %s ## UpdatePublication(body=%s): %v", name, body, err)
				return
			}
			after := get()
			if after == nil {
				return
			}
			if !proto.Equal(resp, after) {
				verifrt.Logf("FAIL item-update-response-not-get %s ## step %d: UpdatePublication answered %v, the next Get returns %v", name, step, resp, after)
			}
			if len(got) != 1 || !proto.Equal(got[0], resp) {
				verifrt.Logf("FAIL item-update-not-on-stream %s ## step %d: the open stream received %v for the update answered with %v", name, step, got, resp)
			}
			got, cur = nil, after
			// rejected: the version the client read has been overtaken
			_, err = c.UpdatePublication(bg, &traits.UpdatePublicationRequest{Name: devName, Version: "not-the-version", Publication: &traits.Publication{Id: id, Body: []byte("x")}, UpdateMask: &fieldmaskpb.FieldMask{Paths: []string{"body"}}})
			verifrt.WaitIdle()
			if err == nil {
				verifrt.Logf("FAIL item-stale-version-accepted %s ## an update naming a version the publication does not have was accepted", name)
			}
			if after := get(); after == nil || !proto.Equal(after, cur) {
				verifrt.Logf("FAIL item-rejected-update-changed-value %s ## step %d: UpdatePublication returned %v but Get changed from %v to %v", name, step, err, cur, after)
				return
			}
			if len(got) != 0 {
				verifrt.Logf("FAIL item-rejected-update-emitted %s ## the stream received %v", name, got)
			}
		}
		cancel()
		verifrt.WaitIdle()
		verifrt.Logf("OUT final=%v", cur)
	}
}

// bareUpdates: every unary RPC of every model server / memory device in the tree (Update*, Create*, Get*, ...),
// called through the wrapper with a request that names the device and nothing else (resource messages left out -
// legal on the wire): whatever the answer, it is an answer, not a panic on the wrapper's goroutine.
func bareUpdates(s *hx.Seq) {
	type rcase struct{ Server, Method string }
	run := func(c rcase) {
		for _, se := range reg.Servers {
			if se.Pkg+"."+se.Name != c.Server {
				continue
			}
			res := verifrt.RunOnce(nil, false, func() {
				server := se.New()
				services, _ := discover(server)
				for _, e := range services {
					sd, err := protoregistry.GlobalFiles.FindDescriptorByName(protoreflect.FullName(e.Desc.ServiceName))
					if err != nil {
						continue
					}
					md := sd.(protoreflect.ServiceDescriptor).Methods().ByName(protoreflect.Name(c.Method))
					if md == nil {
						continue
					}
					req := newOf(md.Input())
					setStr(req, "name", devName)
					resp := newOf(md.Output()).Interface()
					conn := wrap.ServerToClient(*e.Desc, server)
					err = conn.Invoke(context.Background(), fmt.Sprintf("/%s/%s", e.Desc.ServiceName, c.Method), req.Interface(), resp)
					verifrt.Logf("OUT %v", err)
				}
				verifrt.WaitIdle()
			})
			s.Eval(1)
			s.Trans(1)
			if res.Status != "ok" {
				s.Fail("bare-update-"+res.Status+" "+c.Server+" "+c.Method, fmt.Sprintf("%s called with a request that leaves the resource out: %s", c.Method, res.Msg), c)
			}
		}
	}
	var rp rcase
	if s.Replaying(&rp) {
		run(rp)
		return
	}
	if !s.Own() {
		return
	}
	n := 0
	for _, se := range reg.Servers {
		services, _ := discover(se.New())
		for _, e := range services {
			sd, err := protoregistry.GlobalFiles.FindDescriptorByName(protoreflect.FullName(e.Desc.ServiceName))
			if err != nil {
				continue
			}
			ms := sd.(protoreflect.ServiceDescriptor).Methods()
			for j := 0; j < ms.Len(); j++ {
				m := ms.Get(j)
				if m.IsStreamingClient() || m.IsStreamingServer() || m.Input().Fields().ByName("name") == nil {
					continue
				}
				c := rcase{se.Pkg + "." + se.Name, string(m.Name())}
				s.State(c.Server + " " + c.Method)
				s.Distinct(c.Server + " " + c.Method)
				run(c)
				n++
			}
		}
	}
	s.Note("%d unary RPCs called with a request that names the device and nothing else", n)
}

// electricActiveModeBody: the electric device's active mode is a register too, but one whose writes name a MODE that
// has to exist (the generic histories can only offer made-up ids, which are refused): modes eco and boost are
// configured, then the active mode is set, set to the same mode again, changed, cleared (there is a normal mode) -
// with a Get after each and one open stream. Every answer is the next Get; an answer that differs from the previous
// value arrives on the stream, once.
func electricActiveModeBody(name string, updatesOnly bool) func() {
	return func() {
		model := electricpb.NewModel()
		for _, md := range []*traits.ElectricMode{{Id: "eco", Title: "Eco", Normal: true}, {Id: "boost", Title: "Boost"}} {
			if err := model.AddMode(md); err != nil {
				verifrt.Logf("FAIL electric-setup %s ## %v", name, err)
				return
			}
		}
		inner := wrap.ServerToClient(traits.ElectricApi_ServiceDesc, electricpb.NewModelServer(model))
		r := electricpb.NewApiRouter()
		r.Add(devName, traits.NewElectricApiClient(inner))
		c := traits.NewElectricApiClient(wrap.ServerToClient(traits.ElectricApi_ServiceDesc, r))
		ctx, cancel := context.WithCancel(context.Background())
		defer cancel()
		bg := context.Background()
		var got []*traits.ElectricMode
		stream, err := c.PullActiveMode(ctx, &traits.PullActiveModeRequest{Name: devName, UpdatesOnly: updatesOnly})
		if err != nil {
			verifrt.Logf("FAIL electric-pull-open %s ## %v", name, err)
			return
		}
		go func() {
			for {
				m, err := stream.Recv()
				if err != nil {
					return
				}
				for _, ch := range m.Changes {
					got = append(got, ch.ActiveMode)
				}
			}
		}()
		verifrt.WaitIdle()
		get := func() *traits.ElectricMode {
			m, err := c.GetActiveMode(bg, &traits.GetActiveModeRequest{Name: devName})
			if err != nil {
				verifrt.Logf("FAIL electric-get %s ## %v", name, err)
				return &traits.ElectricMode{}
			}
			return m
		}
		cur := get()
		got = nil
		step := func(label string, call func() (*traits.ElectricMode, error)) {
			resp, err := call()
			verifrt.WaitIdle()
			if err != nil {
				verifrt.Logf("FAIL electric-update %s ## %s: %v", name, label, err)
				return
			}
			after := get()
			if !proto.Equal(resp, after) {
				verifrt.Logf("FAIL electric-update-response-not-get %s ## %s answered %v, the next Get returns %v", name, label, resp, after)
			}
			if !proto.Equal(after, cur) {
				if len(got) != 1 || !proto.Equal(got[0], after) {
					verifrt.Logf("FAIL electric-update-not-on-stream %s ## %s changed the active mode from %v to %v, the open stream received %v", name, label, cur, after, got)
				}
			} else if len(got) > 1 {
				verifrt.Logf("FAIL electric-unchanged-emitted %s ## %s left the active mode as it was, the stream received %v", name, label, got)
			}
			got, cur = nil, after
		}
		upd := func(id string) func() (*traits.ElectricMode, error) {
			return func() (*traits.ElectricMode, error) {
				return c.UpdateActiveMode(bg, &traits.UpdateActiveModeRequest{Name: devName, ActiveMode: &traits.ElectricMode{Id: id}})
			}
		}
		step("UpdateActiveMode(boost)", upd("boost"))
		step("UpdateActiveMode(boost) again", upd("boost"))
		step("UpdateActiveMode(eco)", upd("eco"))
		step("UpdateActiveMode(boost)", upd("boost"))
		step("ClearActiveMode", func() (*traits.ElectricMode, error) {
			return c.ClearActiveMode(bg, &traits.ClearActiveModeRequest{Name: devName})
		})
		step("ClearActiveMode again", func() (*traits.ElectricMode, error) {
			return c.ClearActiveMode(bg, &traits.ClearActiveModeRequest{Name: devName})
		})
		cancel()
		verifrt.WaitIdle()
		verifrt.Logf("OUT final=%v", cur)
	}
}

// One execution each, under the default schedule with exact quiescence between the client's steps (the
// scenario is a sequential history; the schedules of one Update against an opening Pull are concurrent.go's).
func registerItems(h *hx.H) {
	h.Seq("servers/update-without-resource", bareUpdates)
	h.Seq("items", func(s *hx.Seq) {
		var rp struct{ UpdatesOnly, Streams, Electric, Publication, FoldIDs, Restricted bool }
		run := func(uo, restricted bool) {
			name := fmt.Sprintf("items/hail/get-update-pull by id/updates_only=%v", uo)
			if restricted {
				name += "/collection with writable fields {state}"
			}
			res := verifrt.RunOnce(nil, false, hailItemBody(name, uo, restricted))
			s.Eval(1)
			s.Trans(8)
			s.State(name)
			s.Distinct(name)
			for _, l := range res.Log {
				if strings.HasPrefix(l, "FAIL ") {
					k, m, _ := strings.Cut(strings.TrimPrefix(l, "FAIL "), " ## ")
					s.Fail(k, m, map[string]any{"UpdatesOnly": uo, "Restricted": restricted})
				}
			}
			if res.Status != "ok" {
				s.Fail(res.Status+" "+name, res.Msg, map[string]any{"UpdatesOnly": uo, "Restricted": restricted})
			}
		}
		runElectric := func(uo bool) {
			name := fmt.Sprintf("items/electric/active mode set, set again, changed, cleared/updates_only=%v", uo)
			res := verifrt.RunOnce(nil, false, electricActiveModeBody(name, uo))
			s.Eval(1)
			s.Trans(6)
			s.State(name)
			s.Distinct(name)
			for _, l := range res.Log {
				if strings.HasPrefix(l, "FAIL ") {
					k, m, _ := strings.Cut(strings.TrimPrefix(l, "FAIL "), " ## ")
					s.Fail(k, m, map[string]any{"UpdatesOnly": uo, "Electric": true})
				}
			}
			if res.Status != "ok" {
				s.Fail(res.Status+" "+name, res.Msg, map[string]any{"UpdatesOnly": uo, "Electric": true})
			}
		}
		runPublication := func(uo, fold bool) {
			name := fmt.Sprintf("items/publication/get-update-pull by id/updates_only=%v,ids-without-regard-to-case=%v", uo, fold)
			res := verifrt.RunOnce(nil, false, publicationItemBody(name, uo, fold))
			s.Eval(1)
			s.Trans(8)
			s.State(name)
			s.Distinct(name)
			rep := map[string]any{"UpdatesOnly": uo, "Publication": true, "FoldIDs": fold}
			for _, l := range res.Log {
				if strings.HasPrefix(l, "FAIL ") {
					k, m, _ := strings.Cut(strings.TrimPrefix(l, "FAIL "), " ## ")
					s.Fail(k, m, rep)
				}
			}
			if res.Status != "ok" {
				s.Fail(res.Status+" "+name, res.Msg, rep)
			}
		}
		runStreams := func(uo bool) {
			name := fmt.Sprintf("streams/onoff/other-streams-come-and-go/updates_only=%v", uo)
			res := verifrt.RunOnce(nil, false, leaverHistoryBody(name, uo))
			s.Eval(1)
			s.Trans(7)
			s.State(name)
			s.Distinct(name)
			for _, l := range res.Log {
				if strings.HasPrefix(l, "FAIL ") {
					k, m, _ := strings.Cut(strings.TrimPrefix(l, "FAIL "), " ## ")
					s.Fail(k, m, map[string]any{"UpdatesOnly": uo, "Streams": true})
				}
			}
			if res.Status != "ok" {
				s.Fail(res.Status+" "+name, res.Msg, map[string]any{"UpdatesOnly": uo, "Streams": true})
			}
		}
		if s.Replaying(&rp) {
			if rp.Publication {
				runPublication(rp.UpdatesOnly, rp.FoldIDs)
			} else if rp.Electric {
				runElectric(rp.UpdatesOnly)
			} else if rp.Streams {
				runStreams(rp.UpdatesOnly)
			} else {
				run(rp.UpdatesOnly, rp.Restricted)
			}
			return
		}
		if !s.Own() {
			return
		}
		run(false, false)
		run(true, false)
		run(false, true)
		runStreams(false)
		runStreams(true)
		runElectric(false)
		runElectric(true)
		for _, fold := range []bool{false, true} {
			runPublication(false, fold)
			runPublication(true, fold)
		}
		s.Sample(map[string]any{"history": "PullHail(h1) ; UpdateHail(state=DEPARTED, mask state) ; UpdateHail(mask no_such_field) ; UpdateHail(state=ARRIVED) ; UpdateHail(mask no_such_field), a Get after each", "meaning": "the hail h1 (arrived long ago) behind wrapper -> router -> wrapper is one register: responses equal the next Get, accepted updates appear on the open stream once, rejected ones change nothing"})
	})
}
