package main

// The open/close model keeps one stored position per direction and assembles OpenClosePositions from all of
// them: an Update that names only SOME directions must still be reported on every open stream with the full
// set, i.e. exactly the Update's response (= the next Get), also on streams opened with updates_only.

import (
	"context"
	"fmt"

	"github.com/smart-core-os/sc-api/go/traits"
	"google.golang.org/protobuf/proto"

	"github.com/smart-core-os/sc-golang/pkg/trait/openclosepb"
	"github.com/smart-core-os/sc-golang/pkg/wrap"
	"verifrt"
	"verifrt/hx"
)

type occase struct {
	UpdatesOnly bool
	Updates     [][]int // per update: (direction, percent) pairs flattened
}

func runOpenClose(c occase) (key, msg string) {
	res := verifrt.RunOnce(nil, false, func() {
		model := openclosepb.NewModel(openclosepb.WithInitialPositions(
			&traits.OpenClosePosition{Direction: traits.OpenClosePosition_UP, OpenPercent: 10},
			&traits.OpenClosePosition{Direction: traits.OpenClosePosition_DOWN, OpenPercent: 20},
		))
		inner := wrap.ServerToClient(traits.OpenCloseApi_ServiceDesc, openclosepb.NewModelServer(model))
		r := openclosepb.NewApiRouter()
		r.Add(devName, traits.NewOpenCloseApiClient(inner))
		cl := traits.NewOpenCloseApiClient(wrap.ServerToClient(traits.OpenCloseApi_ServiceDesc, r))
		ctx, cancel := context.WithCancel(context.Background())
		defer cancel()
		var got []*traits.OpenClosePositions
		stream, err := cl.PullPositions(ctx, &traits.PullOpenClosePositionsRequest{Name: devName, UpdatesOnly: c.UpdatesOnly})
		if err != nil {
			key, msg = "openclose-pull-error", err.Error()
			return
		}
		go func() {
			for {
				m, err := stream.Recv()
				if err != nil {
					return
				}
				for _, ch := range m.Changes {
					got = append(got, ch.OpenClosePosition)
				}
			}
		}()
		verifrt.WaitIdle()
		cur, _ := cl.GetPositions(ctx, &traits.GetOpenClosePositionsRequest{Name: devName})
		if c.UpdatesOnly && len(got) != 0 {
			key, msg = "openclose-updates-only-seed", fmt.Sprintf("an updates-only stream started with %v", got)
			return
		}
		if !c.UpdatesOnly && (len(got) != 1 || !proto.Equal(got[0], cur)) {
			key, msg = "openclose-pull-initial", fmt.Sprintf("stream started with %v, Get returns %v", got, cur)
			return
		}
		got = nil
		for ui, u := range c.Updates {
			req := &traits.UpdateOpenClosePositionsRequest{Name: devName, States: &traits.OpenClosePositions{}}
			for i := 0; i+1 < len(u); i += 2 {
				req.States.States = append(req.States.States, &traits.OpenClosePosition{Direction: traits.OpenClosePosition_Direction(u[i]), OpenPercent: float32(u[i+1])})
			}
			resp, err := cl.UpdatePositions(ctx, req)
			verifrt.WaitIdle()
			if err != nil {
				key, msg = "openclose-update-error", err.Error()
				return
			}
			after, _ := cl.GetPositions(ctx, &traits.GetOpenClosePositionsRequest{Name: devName})
			if !proto.Equal(resp, after) {
				key, msg = "openclose-update-response-not-get", fmt.Sprintf("update #%d returned %v, Get returns %v", ui, resp, after)
				return
			}
			if !proto.Equal(after, cur) {
				// an update of several directions is written direction by direction: intermediate values may be
				// reported, the LAST thing on the stream must be the response
				if len(got) == 0 || !proto.Equal(got[len(got)-1], resp) {
					key, msg = "openclose-pull-value", fmt.Sprintf("update #%d changed the positions to %v; the stream (updates_only=%v) then carried %v", ui, resp, c.UpdatesOnly, got)
					return
				}
			}
			got, cur = nil, after
		}
	})
	if key == "" && res.Status != "ok" {
		return "openclose-" + res.Status, res.Msg
	}
	return key, msg
}

func registerOpenClose(h *hx.H) {
	h.Seq("openclose/two-directions", func(s *hx.Seq) {
		var rc occase
		if s.Replaying(&rc) {
			if k, m := runOpenClose(rc); k != "" {
				s.Fail(k, m, rc)
			}
			return
		}
		if !s.Own() {
			return
		}
		up, down := int(traits.OpenClosePosition_UP), int(traits.OpenClosePosition_DOWN)
		single := [][]int{{up, 50}, {down, 60}, {up, 50, down, 60}, {up, 10}, {down, 70, up, 30}}
		for _, uo := range []bool{false, true} {
			for _, a := range single {
				for _, b := range append([][]int{nil}, single...) {
					c := occase{UpdatesOnly: uo, Updates: [][]int{a}}
					if b != nil {
						c.Updates = append(c.Updates, b)
					}
					s.Eval(1)
					s.Trans(len(c.Updates))
					if k, m := runOpenClose(c); k != "" {
						s.Fail(fmt.Sprintf("%s updates_only=%v updates=%v", k, uo, c.Updates), m, c)
					}
					s.State(fmt.Sprint(uo, c.Updates))
					s.Distinct(fmt.Sprint(uo, c.Updates))
				}
			}
		}
	})
}
