package main

// The light memory device plays a brightness ramp (tween) from a goroutine driven by a ticker
// (pkg/trait/lightpb/memory.go). Under the scheduler the ticker and the clock are virtual: a tick comes when
// nothing else can move, timers go off in deadline order, and a client delay that ends at the very instant of a
// tick goes off together with it, so the client's call and the ramp frame run interleaved in every order.
//
// One client starts a ramp (0 -> 80 over 100 ms: frames at 66.7 ms and, finishing, at 133.3 ms) and a second client
// acts after a delay taken from {0, during the first interval, AT the first tick, between the frames, AT the
// last tick, after the ramp}: a plain update, another ramp, or nothing. Whatever the schedule:
//   - nothing panics (a frame that loses against the client's write ends the ramp, it does not end the process),
//   - the client's successful Update is what its next Get returns,
//   - once everything is quiet the register holds the level the LAST accepted request asked for, with the ramp
//     bookkeeping (target level, tween) cleared - an abandoned ramp never writes over a later update.

import (
	"context"
	"fmt"
	"time"

	"github.com/smart-core-os/sc-api/go/traits"
	"github.com/smart-core-os/sc-api/go/types"
	"google.golang.org/grpc/codes"
	"google.golang.org/grpc/status"
	"google.golang.org/protobuf/proto"
	"google.golang.org/protobuf/types/known/durationpb"

	"github.com/smart-core-os/sc-golang/pkg/trait/lightpb"
	"verifrt"
	"verifrt/hx"
)

const rampTick = time.Second / 15 // lightpb.NewMemoryDevice's frame interval

func sleepVirtual(d time.Duration) {
	c, cancel := context.WithTimeout(context.Background(), d)
	<-c.Done()
	cancel()
}

func tweenReq(level float32, ms int) *traits.UpdateBrightnessRequest {
	b := &traits.Brightness{LevelPercent: level}
	if ms > 0 {
		b.BrightnessTween = &types.Tween{TotalDuration: durationpb.New(time.Duration(ms) * time.Millisecond)}
	}
	return &traits.UpdateBrightnessRequest{Name: devName, Brightness: b}
}

type rampSecond struct {
	kind  string // none | plain | ramp
	delay time.Duration
	label string
}

func rampBody(name string, sec rampSecond) func() {
	return func() {
		verifrt.VirtualClock()
		dev := lightpb.NewMemoryDevice()
		c := lightpb.WrapApi(dev)
		ctx := context.Background()
		get := func() *traits.Brightness {
			b, err := c.GetBrightness(ctx, &traits.GetBrightnessRequest{Name: devName})
			if err != nil {
				verifrt.Logf("FAIL ramp-get %s ## %v", name, err)
				return &traits.Brightness{}
			}
			return b
		}
		want := float32(80)
		res, err := c.UpdateBrightness(ctx, tweenReq(80, 100))
		if err != nil {
			verifrt.Logf("FAIL ramp-start %s ## %v", name, err)
			return
		}
		if g := get(); !proto.Equal(g, res) {
			verifrt.Logf("FAIL ramp-update-then-get %s ## Update (ramp) answered %v, the next Get %v", name, res, g)
		}
		done := make(chan struct{})
		go func() {
			defer close(done)
			if sec.kind == "none" {
				return
			}
			if sec.delay > 0 {
				sleepVirtual(sec.delay)
			}
			var req *traits.UpdateBrightnessRequest
			if sec.kind == "plain" {
				req = tweenReq(30, 0)
			} else {
				req = tweenReq(20, 100)
			}
			res, err := c.UpdateBrightness(ctx, req)
			if status.Code(err) == codes.Aborted {
				return // lost the optimistic race against a frame: rejected, the ramp goes on
			}
			if err != nil {
				verifrt.Logf("FAIL ramp-second-update %s ## %v", name, err)
				return
			}
			want = req.Brightness.LevelPercent
			if sec.kind == "plain" {
				// no ramp of its own: nothing may move the value between the answer and the next Get
				// (a frame of the abandoned ramp can still be in flight: it must lose)
				if g := get(); !proto.Equal(g, res) {
					verifrt.Logf("FAIL ramp-update-then-get %s ## Update answered %v, the next Get %v", name, res, g)
				}
			}
		}()
		<-done
		sleepVirtual(time.Hour)
		verifrt.WaitIdle()
		final := get()
		verifrt.WaitIdle()
		if exp := (&traits.Brightness{LevelPercent: want}); !proto.Equal(final, exp) {
			verifrt.Logf("FAIL ramp-final %s ## once all is quiet the device reports %v; the last accepted request asked for level %v (ramp bookkeeping cleared)", name, final, want)
		}
		if a := verifrt.Alive(); len(a) > 0 {
			verifrt.Logf("FAIL ramp-goroutine-left %s ## %v", name, a)
		}
		verifrt.Logf("OUT final=%v", final)
	}
}

func registerRamp(h *hx.H) {
	delays := []rampSecond{
		{"none", 0, "-"},
	}
	for _, k := range []string{"plain", "ramp"} {
		delays = append(delays,
			rampSecond{k, 0, "at-once"},
			rampSecond{k, 30 * time.Millisecond, "before-first-frame"},
			rampSecond{k, rampTick, "AT-first-frame"},
			rampSecond{k, 100 * time.Millisecond, "between-frames"},
			rampSecond{k, 2 * rampTick, "AT-last-frame"},
			rampSecond{k, 200 * time.Millisecond, "after-the-ramp"},
		)
	}
	for _, d := range delays {
		name := fmt.Sprintf("light-memory-device/ramp(0->80,100ms)+second=%s@%s", d.kind, d.label)
		h.Sched(name, -1, -1, rampBody(name, d), hx.StdOracle)
	}
}
