package main

// Concurrent clause of C14: a Pull opened through the full stack at ANY moment relative to an Update
// starts with a current value and ends on the value Get returns. The sequential histories of main.go
// cannot see a subscribe window; this scenario explores every schedule of {open Pull, Update} on the
// on/off model server behind wrapper -> router -> wrapper.

import (
	"context"
	"fmt"

	"github.com/smart-core-os/sc-api/go/traits"

	"github.com/smart-core-os/sc-golang/pkg/trait/onoffpb"
	"github.com/smart-core-os/sc-golang/pkg/wrap"
	"verifrt"
)

func concurrentBody(name string, updatesOnly bool, updates int) func() {
	return func() {
		model := onoffpb.NewModel()
		inner := wrap.ServerToClient(traits.OnOffApi_ServiceDesc, onoffpb.NewModelServer(model))
		r := onoffpb.NewApiRouter()
		r.Add(devName, traits.NewOnOffApiClient(inner))
		c := traits.NewOnOffApiClient(wrap.ServerToClient(traits.OnOffApi_ServiceDesc, r))
		ctx, cancel := context.WithCancel(context.Background())
		defer cancel()

		var got []string
		var openAt, updAt int64
		var perr error
		go func() {
			s, err := c.PullOnOff(ctx, &traits.PullOnOffRequest{Name: devName, UpdatesOnly: updatesOnly})
			if err != nil {
				perr = err
				return
			}
			for {
				m, err := s.Recv()
				if err != nil {
					return
				}
				if openAt == 0 {
					openAt = verifrt.Stamp()
				}
				for _, ch := range m.Changes {
					if ch.Name != devName {
						verifrt.Logf("FAIL concurrent-pull-name %s ## change carries name %q", name, ch.Name)
					}
					got = append(got, ch.OnOff.GetState().String())
				}
			}
		}()
		go func() {
			states := []traits.OnOff_State{traits.OnOff_ON, traits.OnOff_OFF}
			for i := 0; i < updates; i++ {
				if i == updates-1 {
					updAt = verifrt.Stamp()
				}
				if _, err := c.UpdateOnOff(context.Background(), &traits.UpdateOnOffRequest{Name: devName, OnOff: &traits.OnOff{State: states[i%2]}}); err != nil {
					verifrt.Logf("FAIL concurrent-update-error %s ## %v", name, err)
				}
			}
		}()
		verifrt.WaitIdle()
		if perr != nil {
			verifrt.Logf("FAIL concurrent-pull-error %s ## %v", name, perr)
			return
		}
		final, err := c.GetOnOff(context.Background(), &traits.GetOnOffRequest{Name: devName})
		if err != nil {
			verifrt.Logf("FAIL concurrent-get-error %s ## %v", name, err)
			return
		}
		want := final.GetState().String()
		switch {
		case len(got) == 0 && !updatesOnly:
			verifrt.Logf("FAIL concurrent-pull-initial %s ## the stream delivered nothing; Get returns %s", name, want)
		case len(got) == 0:
			// updates-only and nothing delivered: right only if the stream was certainly opened after the last update
			// committed, which cannot be told from outside; a stream that saw a message later is handled below
		case got[len(got)-1] != want:
			verifrt.Logf("FAIL concurrent-pull-stale %s ## the stream received %v and then nothing more, Get returns %s", name, got, want)
		}
		_ = updAt
		verifrt.Logf("OUT got=%v final=%s", got, want)
	}
}

func concurrentName(updatesOnly bool, updates int) string {
	return fmt.Sprintf("concurrent/onoff/open-pull||%d-update(s)/updates_only=%v", updates, updatesOnly)
}
