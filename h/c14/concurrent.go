package main

// Concurrent clause of C14: a Pull opened through the full stack at ANY moment relative to an Update
// starts with a current value and ends on the value Get returns. The sequential histories of main.go
// cannot see a subscribe window; this scenario explores every schedule of {open Pull, Update} on the
// on/off model server behind wrapper -> router -> wrapper.

import (
	"context"
	"fmt"

	"github.com/smart-core-os/sc-api/go/traits"
	"google.golang.org/grpc"

	"github.com/smart-core-os/sc-golang/pkg/trait/onoffpb"
	"github.com/smart-core-os/sc-golang/pkg/wrap"
	"verifrt"
)

func concurrentBody(name string, updatesOnly bool, updates int) func() {
	return func() {
		model := onoffpb.NewModel()
		direct := onoffpb.NewModelServer(model)
		inner := wrap.ServerToClient(traits.OnOffApi_ServiceDesc, direct)
		r := onoffpb.NewApiRouter()
		r.Add(devName, traits.NewOnOffApiClient(inner))
		c := traits.NewOnOffApiClient(wrap.ServerToClient(traits.OnOffApi_ServiceDesc, r))
		ctx, cancel := context.WithCancel(context.Background())
		defer cancel()
		// the stream always goes through the full stack. With two updates the writer calls the model server itself
		// (some other client of the same device, in process): each wrapped call is four more threads, and all
		// schedules of a dozen threads are out of reach - the subscribe window under study is the stream's
		update := c.UpdateOnOff
		if updates > 1 {
			update = func(ctx context.Context, req *traits.UpdateOnOffRequest, _ ...grpc.CallOption) (*traits.OnOff, error) {
				return direct.UpdateOnOff(ctx, req)
			}
		}

		var got []string
		var openAt, updAt int64
		var perr error
		go func() {
			s, err := c.PullOnOff(ctx, &traits.PullOnOffRequest{Name: devName, UpdatesOnly: updatesOnly})
			if err != nil {
				perr = err
				return
			}
			for {
				m, err := s.Recv()
				if err != nil {
					return
				}
				if openAt == 0 {
					openAt = verifrt.Stamp()
				}
				for _, ch := range m.Changes {
					if ch.Name != devName {
						verifrt.Logf("FAIL concurrent-pull-name %s ## change carries name %q", name, ch.Name)
					}
					got = append(got, ch.OnOff.GetState().String())
				}
			}
		}()
		go func() {
			states := []traits.OnOff_State{traits.OnOff_ON, traits.OnOff_OFF}
			for i := 0; i < updates; i++ {
				if i == updates-1 {
					updAt = verifrt.Stamp()
				}
				if _, err := update(context.Background(), &traits.UpdateOnOffRequest{Name: devName, OnOff: &traits.OnOff{State: states[i%2]}}); err != nil {
					verifrt.Logf("FAIL concurrent-update-error %s ## %v", name, err)
				}
			}
		}()
		verifrt.WaitIdle()
		if perr != nil {
			verifrt.Logf("FAIL concurrent-pull-error %s ## %v", name, perr)
			return
		}
		final, err := c.GetOnOff(context.Background(), &traits.GetOnOffRequest{Name: devName})
		if err != nil {
			verifrt.Logf("FAIL concurrent-get-error %s ## %v", name, err)
			return
		}
		want := final.GetState().String()
		switch {
		case len(got) == 0 && !updatesOnly:
			verifrt.Logf("FAIL concurrent-pull-initial %s ## the stream delivered nothing; Get returns %s", name, want)
		case len(got) == 0:
			// updates-only and nothing delivered: right only if the stream was certainly opened after the last update
			// committed, which cannot be told from outside; a stream that saw a message later is handled below
		case got[len(got)-1] != want:
			verifrt.Logf("FAIL concurrent-pull-stale %s ## the stream received %v and then nothing more, Get returns %s", name, got, want)
		}
		_ = updAt
		verifrt.Logf("OUT got=%v final=%s", got, want)
	}
}

func concurrentName(updatesOnly bool, updates int) string {
	return fmt.Sprintf("concurrent/onoff/open-pull||%d-update(s)/updates_only=%v", updates, updatesOnly)
}

// leaverHistoryBody: a sequential history (one schedule, exact quiescence between the steps) in which other streams
// on the same resource come and go while stream B stays open and keeps up: every accepted update that changes the
// value still reaches B, once - the publication that tidies a closed stream away must not cost an open one anything.
func leaverHistoryBody(name string, updatesOnly bool) func() {
	return func() {
		model := onoffpb.NewModel()
		inner := wrap.ServerToClient(traits.OnOffApi_ServiceDesc, onoffpb.NewModelServer(model))
		r := onoffpb.NewApiRouter()
		r.Add(devName, traits.NewOnOffApiClient(inner))
		c := traits.NewOnOffApiClient(wrap.ServerToClient(traits.OnOffApi_ServiceDesc, r))
		bg := context.Background()
		comeAndGo := func(label string) {
			actx, acancel := context.WithCancel(bg)
			sa, err := c.PullOnOff(actx, &traits.PullOnOffRequest{Name: devName})
			if err == nil {
				_, err = sa.Recv()
			}
			if err != nil {
				verifrt.Logf("FAIL leaver-stream %s ## stream %s: %v", name, label, err)
			}
			acancel()
			verifrt.WaitIdle()
		}
		bctx, bcancel := context.WithCancel(bg)
		defer bcancel()
		sb, err := c.PullOnOff(bctx, &traits.PullOnOffRequest{Name: devName, UpdatesOnly: updatesOnly})
		if err != nil {
			verifrt.Logf("FAIL leaver-stream %s ## stream B: %v", name, err)
			return
		}
		var got []string
		go func() {
			for {
				m, err := sb.Recv()
				if err != nil {
					return
				}
				for _, ch := range m.Changes {
					got = append(got, ch.OnOff.GetState().String())
				}
			}
		}()
		verifrt.WaitIdle()
		var want []string
		if !updatesOnly {
			want = append(want, "STATE_UNSPECIFIED")
			if len(got) == 1 {
				want[0] = got[0] // whatever the model starts as
			}
		}
		update := func(st traits.OnOff_State) {
			if _, err := c.UpdateOnOff(bg, &traits.UpdateOnOffRequest{Name: devName, OnOff: &traits.OnOff{State: st}}); err != nil {
				verifrt.Logf("FAIL leaver-update %s ## %v", name, err)
			}
			want = append(want, st.String())
			verifrt.WaitIdle()
			if fmt.Sprint(got) != fmt.Sprint(want) {
				verifrt.Logf("FAIL leaver-missed-update %s ## after Update(%v) the open stream B has received %v, expected %v", name, st, got, want)
			}
		}
		comeAndGo("A")
		update(traits.OnOff_ON)
		update(traits.OnOff_OFF)
		comeAndGo("C")
		comeAndGo("D")
		update(traits.OnOff_ON)
		update(traits.OnOff_OFF)
		verifrt.Logf("OUT %v", got)
	}
}
