// C18 — timeline algebra matches its mathematical meaning: periods as half-open
// intervals, timestamps as a total order, segment lists / modes as step functions.
package main

import (
	"fmt"
	"math"
	"strings"
	"time"

	"google.golang.org/protobuf/proto"
	"google.golang.org/protobuf/types/known/durationpb"
	"google.golang.org/protobuf/types/known/timestamppb"

	"github.com/smart-core-os/sc-api/go/traits"
	sctime "github.com/smart-core-os/sc-api/go/types/time"
	pkgtime "github.com/smart-core-os/sc-golang/pkg/time"
	"github.com/smart-core-os/sc-golang/pkg/trait/electricpb/modepb"
	"github.com/smart-core-os/sc-golang/pkg/trait/electricpb/segmentpb"
	"verifrt/hx"
)

type Seg = traits.ElectricMode_Segment

// ---------------------------------------------------------------- periods

type ts struct {
	unbounded bool
	s         int64
	n         int32
}

func (t ts) pb() *timestamppb.Timestamp {
	if t.unbounded {
		return nil
	}
	return &timestamppb.Timestamp{Seconds: t.s, Nanos: t.n}
}
func (t ts) String() string {
	if t.unbounded {
		return "∞"
	}
	return fmt.Sprintf("%d.%09d", t.s, t.n)
}
func less(a, b ts) bool { return a.s < b.s || (a.s == b.s && a.n < b.n) }

func grid() []ts {
	g := []ts{{unbounded: true}}
	for s := int64(0); s <= 5; s++ {
		for _, n := range []int32{0, 1, 999999999} {
			g = append(g, ts{s: s, n: n})
		}
	}
	return g
}

func guard(f func()) (p any) {
	defer func() { p = recover() }()
	f()
	return nil
}

func periods(s *hx.Seq) {
	g := grid()
	type per struct{ a, b ts }
	var ps []per
	for _, a := range g {
		for _, b := range g {
			ps = append(ps, per{a, b})
		}
	}
	proper := func(p per) bool { return p.a.unbounded || p.b.unbounded || less(p.a, p.b) }
	for i, p := range ps {
		if !s.Own() {
			continue
		}
		for j, q := range ps {
			s.Eval(1)
			s.Trans(1)
			P := &sctime.Period{StartTime: p.a.pb(), EndTime: p.b.pb()}
			Q := &sctime.Period{StartTime: q.a.pb(), EndTime: q.b.pb()}
			pc, qc := proto.Clone(P), proto.Clone(Q)
			var i1, i2, c1, c2 bool
			name := fmt.Sprintf("[%v,%v) [%v,%v)", p.a, p.b, q.a, q.b)
			if pn := guard(func() {
				i1, i2 = pkgtime.PeriodsIntersect(P, Q), pkgtime.PeriodsIntersect(Q, P)
				c1, c2 = pkgtime.PeriodsConnected(P, Q), pkgtime.PeriodsConnected(Q, P)
			}); pn != nil {
				s.Fail("period-panic "+name, fmt.Sprint(pn), nil)
				continue
			}
			if i1 != i2 || c1 != c2 {
				s.Fail("period-asymmetric "+name, fmt.Sprintf("Intersect %v/%v Connected %v/%v", i1, i2, c1, c2), nil)
			}
			if !proto.Equal(P, pc) || !proto.Equal(Q, qc) {
				s.Fail("period-mutated "+name, "argument modified", nil)
			}
			if proper(p) && proper(q) {
				// max of starts vs min of ends, unbounded start = -inf, unbounded end = +inf
				maxStart, haveStart := ts{}, false
				for _, x := range []ts{p.a, q.a} {
					if !x.unbounded && (!haveStart || less(maxStart, x)) {
						maxStart, haveStart = x, true
					}
				}
				minEnd, haveEnd := ts{}, false
				for _, x := range []ts{p.b, q.b} {
					if !x.unbounded && (!haveEnd || less(x, minEnd)) {
						minEnd, haveEnd = x, true
					}
				}
				wantI, wantC := true, true
				if haveStart && haveEnd {
					wantI = less(maxStart, minEnd)
					wantC = !less(minEnd, maxStart)
				}
				if i1 != wantI {
					s.Fail("period-intersect "+name, fmt.Sprintf("Intersect=%v, half-open intervals give %v", i1, wantI), nil)
				}
				if c1 != wantC {
					s.Fail("period-connected "+name, fmt.Sprintf("Connected=%v, half-open intervals give %v", c1, wantC), nil)
				}
				if i != j {
					s.Distinct(name)
				}
			}
		}
		s.State(fmt.Sprint(i))
	}
	// timestamps that are not in normal form (nanos beyond a second, negative nanos - what a careless client or an
	// addition without carry produces): whatever the answer, the predicates are predicates - they read their
	// arguments (which may be stored messages: the booking server hands stored periods to them) and leave them alone
	if s.Own() {
		odd := []*timestamppb.Timestamp{{Seconds: 1, Nanos: 1_500_000_000}, {Seconds: 3, Nanos: -500_000_000}, {Seconds: 2, Nanos: 999_999_999}}
		for _, a := range odd {
			for _, b := range odd {
				for _, c := range odd {
					s.Eval(1)
					s.Trans(1)
					P := &sctime.Period{StartTime: proto.Clone(a).(*timestamppb.Timestamp), EndTime: proto.Clone(b).(*timestamppb.Timestamp)}
					Q := &sctime.Period{StartTime: proto.Clone(c).(*timestamppb.Timestamp)}
					pc, qc := proto.Clone(P), proto.Clone(Q)
					name := fmt.Sprintf("[%v,%v) [%v,-) (not normalised)", a, b, c)
					if pn := guard(func() {
						pkgtime.PeriodsIntersect(P, Q)
						pkgtime.PeriodsConnected(Q, P)
						pkgtime.CompareAscending(P.StartTime, P.EndTime)
					}); pn != nil {
						s.Fail("period-panic "+name, fmt.Sprint(pn), nil)
						continue
					}
					if !proto.Equal(P, pc) || !proto.Equal(Q, qc) {
						s.Fail("period-mutated "+name, fmt.Sprintf("arguments modified: %v %v, were %v %v", P, Q, pc, qc), nil)
					}
				}
			}
		}
	}
	s.Sample("every ordered pair of periods with endpoints in {unbounded} ∪ {0..5}s x {0,1,999999999}ns: 361 x 361 pairs")
}

func compare(s *hx.Seq) {
	if !s.Own() {
		return
	}
	var vals []ts
	for _, sec := range []int64{math.MinInt64, math.MinInt64 + 1, -3_000_000_000, -1, 0, 1, 2, 5, 3_000_000_000, math.MaxInt64 - 1, math.MaxInt64} {
		for _, n := range []int32{0, 1, 999999999} {
			vals = append(vals, ts{s: sec, n: n})
		}
	}
	for _, a := range vals {
		for _, b := range vals {
			s.Eval(1)
			s.Trans(1)
			want := 0
			if less(a, b) {
				want = -1
			} else if less(b, a) {
				want = 1
			}
			var got int
			if pn := guard(func() { got = pkgtime.CompareAscending(a.pb(), b.pb()) }); pn != nil {
				s.Fail(fmt.Sprintf("compare-panic %v %v", a, b), fmt.Sprint(pn), nil)
				continue
			}
			if got != want {
				s.Fail(fmt.Sprintf("compare %v %v", a, b), fmt.Sprintf("CompareAscending=%d, chronological order gives %d", got, want), nil)
			}
			s.State(fmt.Sprint(a, b))
			if want != 0 {
				s.Distinct(fmt.Sprint(a, b))
			}
		}
	}
	s.Sample("CompareAscending over 33 x 33 timestamps incl. the corners of the int64 range")
}

// ---------------------------------------------------------------- step functions

const inf = -1 // length code for "no length" (infinite)

type sg struct {
	mag float32
	len int // seconds, inf = infinite
}

func mk(l []sg) []*Seg {
	var out []*Seg
	for _, x := range l {
		s := &Seg{Magnitude: x.mag}
		if x.len != inf {
			s.Length = durationpb.New(time.Duration(x.len) * time.Second)
		}
		out = append(out, s)
	}
	return out
}

func str(l []*Seg) string {
	var p []string
	for _, s := range l {
		if s == nil {
			p = append(p, "nil")
			continue
		}
		ln := "∞"
		if s.Length != nil {
			ln = s.Length.AsDuration().String()
		}
		p = append(p, fmt.Sprintf("%vx%s", s.Magnitude, ln))
	}
	return "[" + strings.Join(p, " ") + "]"
}

// f: the step function a segment list denotes, evaluated directly.
func f(l []*Seg, t time.Duration) (float32, bool) {
	if t < 0 {
		return 0, false
	}
	var cur time.Duration
	for _, s := range l {
		if s == nil {
			continue
		}
		if s.Length == nil {
			return s.Magnitude, true
		}
		ln := s.Length.AsDuration()
		if t < cur+ln {
			return s.Magnitude, true
		}
		cur += ln
	}
	return 0, false
}

func total(ls ...[]*Seg) time.Duration {
	var mx time.Duration
	for _, l := range ls {
		var cur time.Duration
		for _, s := range l {
			if s != nil && s.Length != nil {
				cur += s.Length.AsDuration()
			}
		}
		if cur > mx {
			mx = cur
		}
	}
	return mx
}

func samples(upTo time.Duration) []time.Duration {
	var out []time.Duration
	for t := -time.Second; t <= upTo+2*time.Second; t += 500 * time.Millisecond {
		out = append(out, t)
	}
	return append(out, 1000*time.Second)
}

// all segment lists up to length n; only the final segment may be infinite
func lists(n int) [][]sg {
	var out [][]sg
	var rec func(cur []sg)
	rec = func(cur []sg) {
		out = append(out, append([]sg{}, cur...))
		if len(cur) == n {
			return
		}
		for _, m := range []float32{0, 1, 2} {
			for _, l := range []int{0, 1, 2} {
				rec(append(cur, sg{m, l}))
			}
		}
	}
	rec(nil)
	// variants with a final infinite segment
	base := len(out)
	for i := 0; i < base; i++ {
		if len(out[i]) < n {
			for _, m := range []float32{0, 1, 2} {
				out = append(out, append(append([]sg{}, out[i]...), sg{m, inf}))
			}
		}
	}
	return out
}

func cloneList(l []*Seg) []*Seg {
	out := make([]*Seg, len(l))
	for i, s := range l {
		out[i] = proto.Clone(s).(*Seg)
	}
	return out
}

func sameList(a, b []*Seg) bool {
	if len(a) != len(b) {
		return false
	}
	for i := range a {
		if !proto.Equal(a[i], b[i]) {
			return false
		}
	}
	return true
}

func segments(s *hx.Seq) {
	n := 2
	if s.Thorough {
		n = 3
	}
	ls := lists(n)
	for _, spec := range ls {
		if !s.Own() {
			continue
		}
		l := mk(spec)
		orig := cloneList(l)
		name := str(l)
		s.State(name)
		tot := total(l)
		unchanged := func(op string) {
			if !sameList(l, orig) {
				s.Fail("mutated-argument "+op+" "+name, fmt.Sprintf("%s modified its argument: now %s", op, str(l)), nil)
				l = cloneList(orig)
			}
		}
		// single-list observers
		for _, t := range samples(tot) {
			s.Eval(1)
			s.Trans(1)
			want, wok := f(orig, t)
			var got float32
			var ok bool
			var el time.Duration
			var idx int
			if pn := guard(func() {
				got, ok = segmentpb.MagnitudeAt(t, l...)
				el, idx = segmentpb.ActiveAt(t, l...)
			}); pn != nil {
				s.Fail(fmt.Sprintf("panic MagnitudeAt/ActiveAt %s t=%v", name, t), fmt.Sprint(pn), nil)
				continue
			}
			if ok != wok || (ok && got != want) {
				s.Fail(fmt.Sprintf("magnitude-at %s t=%v", name, t), fmt.Sprintf("MagnitudeAt=(%v,%v), the step function gives (%v,%v)", got, ok, want, wok), nil)
			}
			if t >= 0 {
				if wok {
					// the index must name a segment covering t, elapsed its start
					var cur time.Duration
					for i := 0; i < idx && i < len(l); i++ {
						if l[i].Length != nil {
							cur += l[i].Length.AsDuration()
						}
					}
					if idx >= len(l) || el != cur || t < el || (l[idx].Length != nil && t >= el+l[idx].Length.AsDuration()) {
						s.Fail(fmt.Sprintf("active-at %s t=%v", name, t), fmt.Sprintf("ActiveAt=(%v,%d) does not name the segment covering t", el, idx), nil)
					}
				} else if idx != len(l) || el != tot {
					s.Fail(fmt.Sprintf("active-at %s t=%v", name, t), fmt.Sprintf("ActiveAt=(%v,%d) after the end, want (%v,%d)", el, idx, tot, len(l)), nil)
				}
			} else if el != t || idx != 0 {
				s.Fail(fmt.Sprintf("active-at %s t=%v", name, t), fmt.Sprintf("ActiveAt=(%v,%d) before the start, want (%v,0)", el, idx, t), nil)
			}
		}
		unchanged("MagnitudeAt/ActiveAt")
		d, isInf := segmentpb.Duration(l...)
		wantInf := len(orig) > 0 && orig[len(orig)-1].Length == nil
		if d != tot || isInf != wantInf {
			s.Fail("duration "+name, fmt.Sprintf("Duration=(%v,%v), want (%v,%v)", d, isInf, tot, wantInf), nil)
		}
		var wantMax float32
		found := false
		for _, t := range samples(tot) {
			if v, ok := f(orig, t); ok && (!found || v > wantMax) {
				wantMax, found = v, true
			}
		}
		if got := segmentpb.MaxMagnitude(l...); got != wantMax {
			s.Fail("max "+name, fmt.Sprintf("MaxMagnitude=%v, the step function peaks at %v", got, wantMax), nil)
		}
		// Max / MaxAfter name a segment: one of non-zero length, at or after the moment asked about, that carries
		// the peak of the step function from that moment on; len(l) when the function is not defined there
		peakFrom := func(from time.Duration) (peak float32, ok bool) {
			for _, u := range samples(tot) {
				if u < from {
					continue
				}
				if v, def := f(orig, u); def && (!ok || v > peak) {
					peak, ok = v, true
				}
			}
			return
		}
		checkIdx := func(what string, idx int, from time.Duration) {
			peak, def := peakFrom(from)
			switch {
			case !def:
				if idx != len(l) {
					s.Fail(what+" "+name, fmt.Sprintf("%s=%d, but the step function is not defined from there on: want %d", what, idx, len(l)), nil)
				}
			case idx < 0 || idx >= len(l):
				s.Fail(what+" "+name, fmt.Sprintf("%s=%d, but the step function peaks at %v from there on", what, idx, peak), nil)
			default:
				var start time.Duration
				for i := 0; i < idx; i++ {
					if l[i].Length != nil {
						start += l[i].Length.AsDuration()
					}
				}
				zero := l[idx].Length != nil && l[idx].Length.AsDuration() <= 0
				ended := l[idx].Length != nil && start+l[idx].Length.AsDuration() <= from
				if zero || ended || l[idx].Magnitude != peak {
					s.Fail(what+" "+name, fmt.Sprintf("%s=%d (magnitude %v, zero-length %v, over before the moment asked about %v); the step function peaks at %v from there on", what, idx, l[idx].Magnitude, zero, ended, peak), nil)
				}
			}
		}
		if pn := guard(func() { checkIdx("Max", segmentpb.Max(l...), -time.Second) }); pn != nil {
			s.Fail("panic Max "+name, fmt.Sprint(pn), nil)
		}
		for _, t := range samples(tot) {
			if t < 0 {
				continue
			}
			s.Eval(1)
			if pn := guard(func() { checkIdx(fmt.Sprintf("MaxAfter(%v)", t), segmentpb.MaxAfter(t, l...), t) }); pn != nil {
				s.Fail(fmt.Sprintf("panic MaxAfter %s t=%v", name, t), fmt.Sprint(pn), nil)
			}
		}
		unchanged("Duration/Max")
		// Shift
		for dd := -5; dd <= 5; dd++ {
			s.Eval(1)
			s.Trans(1)
			d := time.Duration(dd) * time.Second
			var sh []*Seg
			if pn := guard(func() { sh = segmentpb.Shift(d, l...) }); pn != nil {
				s.Fail(fmt.Sprintf("panic Shift %s d=%v", name, d), fmt.Sprint(pn), nil)
				continue
			}
			for _, t := range samples(tot + 5*time.Second) {
				want, wok := f(orig, t-d)
				if t < 0 {
					want, wok = 0, false
				}
				got, ok := f(sh, t)
				if got != want || (ok != wok && (got != 0 || want != 0)) {
					s.Fail(fmt.Sprintf("shift %s d=%v", name, d), fmt.Sprintf("Shift gives %s; at t=%v it reads %v, the translated function reads %v", str(sh), t, got, want), nil)
					break
				}
			}
			unchanged("Shift")
			s.Distinct(fmt.Sprintf("shift %s %d", name, dd))
		}
		// Cut of each segment
		for i, sgm := range orig {
			one := []*Seg{sgm}
			for _, d := range samples(total(one)) {
				s.Eval(1)
				s.Trans(1)
				arg := proto.Clone(sgm).(*Seg)
				var b, a *Seg
				if pn := guard(func() { b, a, _ = segmentpb.Cut(d, arg) }); pn != nil {
					s.Fail(fmt.Sprintf("panic Cut %s[%d] d=%v", name, i, d), fmt.Sprint(pn), nil)
					continue
				}
				if !proto.Equal(arg, sgm) {
					s.Fail(fmt.Sprintf("mutated-argument Cut %s[%d] d=%v", name, i, d), "Cut modified its argument", nil)
				}
				var bl, al []*Seg
				if b != nil {
					bl = []*Seg{b}
				}
				if a != nil {
					al = []*Seg{a}
				}
				for _, t := range samples(total(one)) {
					want, _ := f(one, t)
					var got float32
					if d <= 0 {
						got, _ = f(al, t)
					} else if t < d {
						got, _ = f(bl, t)
					} else {
						got, _ = f(al, t-d)
					}
					if got != want {
						s.Fail(fmt.Sprintf("cut %s[%d] d=%v", name, i, d), fmt.Sprintf("pieces %s | %s read %v at t=%v, the segment reads %v", str(bl), str(al), got, t, want), nil)
						break
					}
				}
			}
		}
		if s.Stop() {
			return
		}
	}
	s.Sample(map[string]any{"list": str(mk([]sg{{1, 2}, {0, 0}, {2, inf}})), "meaning": "every list of <=2 (quick) / <=3 segments with magnitude {0,1,2}, length {0,1,2}s and an optional final infinite segment; MagnitudeAt/ActiveAt/Duration/Max, Shift by -5..5 s, Cut at every half second, all compared with direct evaluation of the step function at every breakpoint and midpoint"})
}

func sums(s *hx.Seq) {
	n := 2
	ls := lists(n)
	k := 0
	for ai, a := range ls {
		if !s.Own() {
			continue
		}
		for bi, b := range ls {
			if bi < ai {
				continue
			}
			var third [][]sg
			third = append(third, nil)
			if s.Thorough && (ai+bi)%7 == 0 {
				third = append(third, ls[(ai*31+bi)%len(ls)], ls[(ai+bi*17)%len(ls)])
			}
			for ti, c := range third {
				k++
				s.Eval(1)
				s.Trans(1)
				in := [][]*Seg{mk(a), mk(b)}
				if ti > 0 {
					in = append(in, mk(c))
				}
				orig := make([][]*Seg, len(in))
				for i := range in {
					orig[i] = cloneList(in[i])
				}
				var names []string
				for _, l := range in {
					names = append(names, str(l))
				}
				name := strings.Join(names, "+")
				var sum []*Seg
				if pn := guard(func() { sum = segmentpb.Sum(in...) }); pn != nil {
					s.Fail("panic Sum "+name, fmt.Sprint(pn), nil)
					continue
				}
				for i := range in {
					if !sameList(in[i], orig[i]) {
						s.Fail("mutated-argument Sum "+name, "Sum modified an argument", nil)
					}
				}
				for _, t := range samples(total(orig...)) {
					var want float32
					for _, l := range orig {
						v, _ := f(l, t)
						want += v
					}
					got, _ := f(sum, t)
					if got != want {
						s.Fail("sum "+name, fmt.Sprintf("Sum gives %s; at t=%v it reads %v, pointwise addition gives %v", str(sum), t, got, want), nil)
						break
					}
				}
				s.State(name)
				if len(a) > 0 && len(b) > 0 {
					s.Distinct(name)
				}
			}
		}
		if s.Stop() {
			return
		}
	}
	s.Sample("Sum of every unordered pair (and some triples) of segment lists of length <=2, compared pointwise")
}

// ---------------------------------------------------------------- modes

var t0 = time.Unix(1_700_000_000, 0).UTC()

func F(m *traits.ElectricMode, t time.Time, assumeStart time.Time) (float32, bool) {
	if m == nil {
		return 0, false
	}
	st := assumeStart
	if m.StartTime != nil {
		st = m.StartTime.AsTime()
	}
	return f(m.Segments, t.Sub(st))
}

func modes(s *hx.Seq) {
	ls := lists(2)
	// (the last one carries a fraction of a second: shifted by another fraction, the nanoseconds carry into the seconds)
	starts := []*timestamppb.Timestamp{nil, timestamppb.New(t0), timestamppb.New(t0.Add(time.Second)), timestamppb.New(t0.Add(700 * time.Millisecond)),
		// a start time not in normal form (the nanos hold a second and a half): the instant it names is t0+1.5s
		{Seconds: t0.Unix(), Nanos: 1_500_000_000}}
	for _, spec := range ls {
		if !s.Own() {
			continue
		}
		for si, st := range starts {
			m := &traits.ElectricMode{Id: "m", Segments: mk(spec), StartTime: st}
			orig := proto.Clone(m).(*traits.ElectricMode)
			name := fmt.Sprintf("mode(start#%d,%s)", si, str(m.Segments))
			s.State(name)
			tot := total(m.Segments)
			for _, d := range samples(tot + time.Second) {
				t := t0.Add(d)
				s.Eval(1)
				s.Trans(1)
				// MagnitudeAt / ActiveAt: a mode without start time starts at t
				want, wok := F(orig, t, t)
				var got float32
				var ok bool
				if pn := guard(func() { got, ok = modepb.MagnitudeAt(t, m) }); pn != nil {
					s.Fail(fmt.Sprintf("panic modepb.MagnitudeAt %s t=%v", name, d), fmt.Sprint(pn), nil)
					continue
				}
				if ok != wok || (ok && got != want) {
					s.Fail(fmt.Sprintf("mode-magnitude-at %s t=t0%+v", name, d), fmt.Sprintf("MagnitudeAt=(%v,%v), want (%v,%v)", got, ok, want, wok), nil)
				}
				// ActiveAt on the mode is ActiveAt on its segments at the offset from its start (a mode without start
				// time starts at t: offset 0 - where a leading zero-length segment is already over)
				{
					off := time.Duration(0)
					if orig.StartTime != nil {
						off = t.Sub(orig.StartTime.AsTime())
					}
					wel, widx := segmentpb.ActiveAt(off, orig.Segments...)
					var el time.Duration
					var idx int
					if pn := guard(func() { el, idx = modepb.ActiveAt(t, m) }); pn != nil {
						s.Fail(fmt.Sprintf("panic modepb.ActiveAt %s t=%v", name, d), fmt.Sprint(pn), nil)
					} else if el != wel || idx != widx {
						s.Fail(fmt.Sprintf("mode-active-at %s t=t0%+v", name, d), fmt.Sprintf("modepb.ActiveAt=(%v,%d); the segments read at offset %v give (%v,%d)", el, idx, off, wel, widx), nil)
					}
				}
				// MaxSegmentAfter: the segment carrying the peak of the mode's function from t on
				{
					var peak float32
					def := false
					start := t // a mode without start time starts at the moment asked about
					if orig.StartTime != nil {
						start = orig.StartTime.AsTime()
					}
					offs := samples(tot)
					if !t.Before(start) {
						offs = append(offs, t.Sub(start)) // the segment active at t itself, wherever the grid falls
					}
					for _, off := range offs {
						if start.Add(off).Before(t) {
							continue
						}
						if v, ok2 := f(orig.Segments, off); ok2 && (!def || v > peak) {
							peak, def = v, true
						}
					}
					var idx int
					if pn := guard(func() { idx = modepb.MaxSegmentAfter(t, m) }); pn != nil {
						s.Fail(fmt.Sprintf("panic modepb.MaxSegmentAfter %s t=%v", name, d), fmt.Sprint(pn), nil)
					} else if n := len(m.Segments); (!def && idx != n) || (def && (idx < 0 || idx >= n || m.Segments[idx].Magnitude != peak)) {
						s.Fail(fmt.Sprintf("mode-max-segment-after %s t=t0%+v", name, d), fmt.Sprintf("MaxSegmentAfter=%d of %v; from t on the mode's function peaks at (%v, defined %v)", idx, str(m.Segments), peak, def), nil)
					}
				}
				// Cut
				var b, a *traits.ElectricMode
				if pn := guard(func() { b, a, _ = modepb.Cut(t, m) }); pn != nil {
					s.Fail(fmt.Sprintf("panic modepb.Cut %s t=%v", name, d), fmt.Sprint(pn), nil)
					continue
				}
				if !proto.Equal(m, orig) {
					s.Fail(fmt.Sprintf("mutated-argument modepb.Cut %s t=t0%+v", name, d), fmt.Sprintf("Cut modified its argument: %v", m), nil)
					m = proto.Clone(orig).(*traits.ElectricMode)
				}
				if len(orig.Segments) > 0 && orig.StartTime != nil {
					for _, d2 := range samples(tot + time.Second) {
						t2 := t0.Add(d2)
						want, _ := F(orig, t2, t)
						var got float32
						if t2.Before(t) {
							got, _ = F(b, t2, t)
						} else {
							got, _ = F(a, t2, t)
						}
						if got != want {
							s.Fail(fmt.Sprintf("mode-cut %s t=t0%+v", name, d), fmt.Sprintf("pieces %v | %v read %v at t0%+v, the mode reads %v", b, a, got, d2, want), nil)
							break
						}
					}
				}
			}
			// Shift
			shifts := []time.Duration{500 * time.Millisecond, -500 * time.Millisecond, 1300 * time.Millisecond}
			for dd := -3; dd <= 3; dd++ {
				shifts = append(shifts, time.Duration(dd)*time.Second)
			}
			for dd, d := range shifts {
				s.Eval(1)
				s.Trans(1)
				var sh *traits.ElectricMode
				if pn := guard(func() { sh = modepb.Shift(d, m) }); pn != nil {
					s.Fail(fmt.Sprintf("panic modepb.Shift %s d=%v", name, d), fmt.Sprint(pn), nil)
					continue
				}
				if !proto.Equal(m, orig) {
					s.Fail(fmt.Sprintf("mutated-argument modepb.Shift %s d=%v", name, d), "Shift modified its argument", nil)
					m = proto.Clone(orig).(*traits.ElectricMode)
				}
				for _, d2 := range samples(tot + 4*time.Second) {
					t2 := t0.Add(d2)
					// a mode without a start time is read relative to t0 on both sides
					want, _ := F(orig, t2.Add(-d), t0)
					if orig.StartTime == nil && d2 < 0 {
						want = 0
					}
					got, _ := F(sh, t2, t0)
					if got != want {
						s.Fail(fmt.Sprintf("mode-shift %s d=%v", name, d), fmt.Sprintf("Shift gives %v; at t0%+v it reads %v, the translated mode reads %v", sh, d2, got, want), nil)
						break
					}
				}
				s.Distinct(fmt.Sprintf("%s shift %d", name, dd))
			}
		}
		if s.Stop() {
			return
		}
	}
	// Sum of two modes
	small := lists(1)
	for _, a := range small {
		for _, b := range small {
			for _, sa := range starts {
				for _, sb := range starts {
					if !s.Own() {
						continue
					}
					s.Eval(1)
					s.Trans(1)
					ma := &traits.ElectricMode{Segments: mk(a), StartTime: sa}
					mb := &traits.ElectricMode{Segments: mk(b), StartTime: sb}
					oa, ob := proto.Clone(ma).(*traits.ElectricMode), proto.Clone(mb).(*traits.ElectricMode)
					name := fmt.Sprintf("%v@%v + %v@%v", str(ma.Segments), sa.AsTime().Sub(t0), str(mb.Segments), sb.AsTime().Sub(t0))
					if sa == nil {
						name = strings.Replace(name, fmt.Sprint(sa.AsTime().Sub(t0)), "nil", 1)
					}
					var sum *traits.ElectricMode
					if pn := guard(func() { sum = modepb.Sum(ma, mb) }); pn != nil {
						s.Fail("panic modepb.Sum "+name, fmt.Sprint(pn), nil)
						continue
					}
					if !proto.Equal(ma, oa) || !proto.Equal(mb, ob) {
						s.Fail("mutated-argument modepb.Sum "+name, "Sum modified an argument", nil)
					}
					// modes without a start time start at the latest start time of those that have one
					latest := t0
					for _, st := range []*timestamppb.Timestamp{sa, sb} {
						if st != nil && st.AsTime().After(latest) {
							latest = st.AsTime()
						}
					}
					for _, d2 := range samples(4 * time.Second) {
						t2 := t0.Add(d2)
						va, _ := F(oa, t2, latest)
						vb, _ := F(ob, t2, latest)
						got, _ := F(sum, t2, latest)
						if got != va+vb {
							s.Fail("mode-sum "+name, fmt.Sprintf("Sum gives %v; at t0%+v it reads %v, pointwise addition gives %v", sum, d2, got, va+vb), nil)
							break
						}
					}
					s.State("sum " + name)
				}
			}
		}
	}
	// Sum of three and four modes: every assignment of start times {none, t0, t0+1s, t0+2s} (argument order matters
	// to an implementation that scans for the earliest and the latest start) to four fixed shapes
	shapes := [][]sg{{{1, 2}}, {{2, 1}}, {{1, 1}, {2, 1}}, {{2, inf}}}
	// ... once around t0 and once around the first instant a Timestamp can name (0001-01-01T00:00:00Z, which is also
	// Go's zero time.Time: a start time like any other)
	for bi, t0 := range []time.Time{t0, {}} {
		starts4 := []*timestamppb.Timestamp{nil, timestamppb.New(t0), timestamppb.New(t0.Add(time.Second)), timestamppb.New(t0.Add(2 * time.Second))}
		for n := 3 - bi; n <= 4-bi; n++ {
			total := 1
			for i := 0; i < n; i++ {
				total *= len(starts4)
			}
			for code := 0; code < total; code++ {
				if !s.Own() {
					continue
				}
				s.Eval(1)
				s.Trans(1)
				var ms, os []*traits.ElectricMode
				var names []string
				latest := t0
				c := code
				for i := 0; i < n; i++ {
					st := starts4[c%len(starts4)]
					c /= len(starts4)
					m := &traits.ElectricMode{Segments: mk(shapes[i]), StartTime: st}
					ms = append(ms, m)
					os = append(os, proto.Clone(m).(*traits.ElectricMode))
					if st == nil {
						names = append(names, str(m.Segments)+"@nil")
					} else {
						names = append(names, fmt.Sprintf("%s@%v", str(m.Segments), st.AsTime().Sub(t0)))
						if st.AsTime().After(latest) {
							latest = st.AsTime()
						}
					}
				}
				name := strings.Join(names, " + ")
				if bi == 1 {
					name += " (offsets from 0001-01-01T00:00:00Z)"
				}
				var sum *traits.ElectricMode
				if pn := guard(func() { sum = modepb.Sum(ms...) }); pn != nil {
					s.Fail("panic modepb.Sum "+name, fmt.Sprint(pn), nil)
					continue
				}
				for i := range ms {
					if !proto.Equal(ms[i], os[i]) {
						s.Fail("mutated-argument modepb.Sum "+name, "Sum modified an argument", nil)
					}
				}
				for _, d2 := range samples(6 * time.Second) {
					t2 := t0.Add(d2)
					var want float32
					for _, o := range os {
						v, _ := F(o, t2, latest)
						want += v
					}
					if got, _ := F(sum, t2, latest); got != want {
						s.Fail("mode-sum "+name, fmt.Sprintf("Sum gives %v; at t0%+v it reads %v, pointwise addition gives %v", sum, d2, got, want), nil)
						break
					}
				}
				s.State(fmt.Sprintf("sum %d %s", bi, name))
			}
		}
	}
	s.Sample("modes built from every segment list of length <=2 with start time nil / t0 / t0+1s: MagnitudeAt, Cut at every half second, Shift by -3..3 s, pairwise Sum; Sum of 3 and 4 modes under every assignment of 4 start times")
}

// fractions: lengths that are not whole seconds. The step function's breakpoints are sums of lengths whatever
// their fractional parts add up to (several seconds' worth, in a list of a few segments).
func fractions(s *hx.Seq) {
	lens := []time.Duration{time.Nanosecond, 800 * time.Millisecond, 1500 * time.Millisecond, time.Second - time.Nanosecond, 2 * time.Second}
	n := 4
	if s.Thorough {
		n = 5
	}
	var rec func(cur []time.Duration)
	rec = func(cur []time.Duration) {
		if len(cur) > 0 && s.Own() {
			for _, lastInf := range []bool{false, true} {
				var l []*Seg
				var tot time.Duration
				for i, d := range cur {
					l = append(l, &Seg{Magnitude: float32(i + 1), Length: durationpb.New(d)})
					tot += d
				}
				if lastInf {
					l = append(l, &Seg{Magnitude: 9})
				}
				name := str(l)
				s.State(name)
				orig := cloneList(l)
				d, isInf := segmentpb.Duration(l...)
				s.Eval(1)
				if d != tot || isInf != lastInf {
					s.Fail("duration "+name, fmt.Sprintf("Duration=(%v,%v), the lengths add up to (%v,%v)", d, isInf, tot, lastInf), nil)
				}
				// the step function read just before and at the end of the finite part
				for _, t := range []time.Duration{tot - time.Nanosecond, tot} {
					want, wantOK := f(orig, t)
					got, ok := segmentpb.MagnitudeAt(t, l...)
					s.Eval(1)
					if ok != wantOK || (ok && got != want) {
						s.Fail(fmt.Sprintf("magnitude-at %s t=%v", name, t), fmt.Sprintf("MagnitudeAt=(%v,%v), the step function reads (%v,%v)", got, ok, want, wantOK), nil)
					}
					el, idx := segmentpb.ActiveAt(t, l...)
					s.Eval(1)
					wantIdx, wantEl := len(l), tot
					if t < tot {
						wantIdx, wantEl = len(cur)-1, tot-cur[len(cur)-1]
					} else if lastInf {
						wantIdx = len(l) - 1
					}
					if idx != wantIdx || el != wantEl {
						s.Fail(fmt.Sprintf("active-at %s t=%v", name, t), fmt.Sprintf("ActiveAt=(%v,%d), want (%v,%d)", el, idx, wantEl, wantIdx), nil)
					}
				}
				if !sameList(l, orig) {
					s.Fail("mutated "+name, "Duration/MagnitudeAt/ActiveAt changed their arguments", nil)
				}
			}
		}
		if len(cur) == n || s.Stop() {
			return
		}
		for _, d := range lens {
			rec(append(cur[:len(cur):len(cur)], d))
		}
	}
	rec(nil)
	s.Sample(map[string]any{"list": "[1x800ms 2x800ms 3x800ms]", "meaning": "every list of <=4 (quick) / <=5 segments with lengths from {1ns, 0.8s, 1.5s, 1s-1ns, 2s}, with and without a final infinite segment: Duration equals the sum of the lengths; MagnitudeAt and ActiveAt just before and at the end of the finite part agree with the step function"})
}

func main() {
	h := hx.New("C18")
	h.Seq("fractions", fractions)
	h.Seq("periods", periods)
	h.Seq("compare", compare)
	h.Seq("segments", segments)
	h.Seq("sums", sums)
	h.Seq("modes", modes)
	h.Run()
}
