package main

// Several calls in flight on ONE wrapped connection: each call is a stream of its own, as over a real connection.
// Two calls of the same method - and one of each of two methods - are made at once; every handler waits
// until all of them have arrived (so the calls really overlap), then sets a header and a trailer through ITS
// context naming its caller. Each client sees its own response, its own header, its own trailer, and nothing of
// its neighbours' - under every schedule, and the same over a real gRPC connection (the reference, free-running).

import (
	"context"
	"fmt"
	"net"
	"sort"
	"strings"
	"sync"

	"google.golang.org/grpc"
	"google.golang.org/grpc/credentials/insecure"
	"google.golang.org/grpc/metadata"
	"google.golang.org/grpc/test/bufconn"

	tp "github.com/smart-core-os/sc-golang/internal/testproto"
	"github.com/smart-core-os/sc-golang/pkg/wrap"
	"verifrt"
	"verifrt/hx"
)

type whoServer struct {
	tp.UnimplementedTestApiServer
	mu      sync.Mutex
	arrived int
	n       int
	all     chan struct{}
}

func newWhoServer(n int) *whoServer { return &whoServer{n: n, all: make(chan struct{})} }

func (s *whoServer) arrive() {
	s.mu.Lock()
	s.arrived++
	if s.arrived == s.n {
		close(s.all)
	}
	s.mu.Unlock()
	<-s.all
}

func (s *whoServer) Unary(ctx context.Context, req *tp.UnaryRequest) (*tp.UnaryResponse, error) {
	s.arrive()
	grpc.SetHeader(ctx, metadata.Pairs("x-who-h", req.Msg))
	grpc.SetTrailer(ctx, metadata.Pairs("x-who-t", req.Msg))
	return &tp.UnaryResponse{Msg: "re:" + req.Msg}, nil
}

func (s *whoServer) ServerStream(req *tp.ServerStreamRequest, stream grpc.ServerStreamingServer[tp.ServerStreamResponse]) error {
	s.arrive()
	grpc.SetHeader(stream.Context(), metadata.Pairs("x-who-h", fmt.Sprint(req.NumRes)))
	grpc.SetTrailer(stream.Context(), metadata.Pairs("x-who-t", fmt.Sprint(req.NumRes)))
	return stream.Send(&tp.ServerStreamResponse{Counter: req.NumRes})
}

// overlapCalls: calls[i] is "u" (unary) or "s" (server stream); call i identifies itself as i+1
func overlapCalls(c tp.TestApiClient, calls []string) []string {
	out := make([]string, len(calls))
	var wg sync.WaitGroup
	for i, kind := range calls {
		i, kind := i, kind
		wg.Add(1)
		go func() {
			defer wg.Done()
			who := fmt.Sprint(i + 1)
			switch kind {
			case "u":
				var h, t metadata.MD
				resp, err := c.Unary(context.Background(), &tp.UnaryRequest{Msg: who}, grpc.Header(&h), grpc.Trailer(&t))
				out[i] = fmt.Sprintf("call %s (unary): resp=%s err=%s header=%s trailer=%s", who, resp.GetMsg(), outcome(err), userMD(h), userMD(t))
			case "s":
				stream, err := c.ServerStream(context.Background(), &tp.ServerStreamRequest{NumRes: int32(i + 1)})
				if err != nil {
					out[i] = fmt.Sprintf("call %s (server stream): open err=%s", who, outcome(err))
					return
				}
				var msgs []string
				for {
					m, err := stream.Recv()
					if err != nil {
						msgs = append(msgs, "err="+outcome(err))
						break
					}
					msgs = append(msgs, fmt.Sprint(m.Counter))
				}
				h, _ := stream.Header()
				out[i] = fmt.Sprintf("call %s (server stream): %s header=%s trailer=%s", who, strings.Join(msgs, ","), userMD(h), userMD(stream.Trailer()))
			}
		}()
	}
	wg.Wait()
	return out
}

func overlapReference(calls []string) []string {
	lis := bufconn.Listen(1 << 20)
	gs := grpc.NewServer()
	tp.RegisterTestApiServer(gs, newWhoServer(len(calls)))
	go gs.Serve(lis)
	defer gs.Stop()
	conn, err := grpc.NewClient("passthrough:///bufnet", grpc.WithContextDialer(func(ctx context.Context, _ string) (net.Conn, error) { return lis.DialContext(ctx) }), grpc.WithTransportCredentials(insecure.NewCredentials()))
	if err != nil {
		panic(err)
	}
	defer conn.Close()
	return overlapCalls(tp.NewTestApiClient(conn), calls)
}

func registerOverlap(h *hx.H) {
	for _, calls := range [][]string{{"u", "u"}, {"s", "s"}, {"u", "s"}} {
		calls := calls
		name := "overlapping calls on one wrapped connection/" + strings.Join(calls, "+")
		var want []string
		h.SchedWithSetup(name, -1, -1, func() { want = overlapReference(calls) }, func() {
			conn := wrap.ServerToClient(tp.TestApi_ServiceDesc, newWhoServer(len(calls)))
			got := overlapCalls(tp.NewTestApiClient(conn), calls)
			verifrt.WaitIdle()
			if a := verifrt.Alive(); len(a) > 0 {
				verifrt.Logf("FAIL goroutine-left %s ## the calls are over, these threads never ended: %v", name, a)
				return
			}
			if fmt.Sprint(got) != fmt.Sprint(want) {
				verifrt.Logf("FAIL overlapping-calls %s ## through the wrapper the clients observed %v; over a real gRPC connection they observe %v", name, got, want)
			}
			s := append([]string{}, got...)
			sort.Strings(s)
			verifrt.Logf("OUT %v", s)
		}, hx.StdOracle)
	}
}
