// C13 — the in-process wrapper is indistinguishable from a real gRPC connection.
// Every call script (4 call shapes; messages, headers set or sent, trailers, error
// status at any point; client cancel / deadline / half-close at any point) is run
// once against a real grpc.Server over bufconn (the reference) and then through
// wrap.ServerToClient under EVERY schedule; the client-visible transcripts must
// be equal. Plus: copies across the boundary, Unimplemented / Internal for unknown
// methods / mismatched shapes, no thread left behind.
package main

import (
	"context"
	"errors"
	"fmt"
	"io"
	"net"
	"sort"
	"strings"
	"sync"
	"time"

	"google.golang.org/grpc"
	"google.golang.org/grpc/codes"
	"google.golang.org/grpc/credentials/insecure"
	"google.golang.org/grpc/metadata"
	"google.golang.org/grpc/status"
	"google.golang.org/grpc/test/bufconn"

	tp "github.com/smart-core-os/sc-golang/internal/testproto"
	"github.com/smart-core-os/sc-golang/pkg/wrap"
	"verifrt"
	"verifrt/hx"
)

// ---------------------------------------------------------------- scripts

type script struct {
	Shape      string // unary | sstream | cstream | bidi
	HeaderMode string // none | set | send (SendHeader before the first message / before returning)
	Trailer    bool
	N          int    // messages the server sends (sstream) / client sends (cstream, bidi: exchanges)
	Final      string // ok | status | plain
	ErrAfter   int    // bidi/sstream: the server returns its final result after this many messages (-1: after all)
	Client     string // normal | cancel | deadline
	ClientAt   int    // cancel / deadline happens after the client has received this many messages
	// Quirk: API uses that are legal over a real connection and easy to get wrong in a look-alike:
	//   reuse-msg        the client receives every response into ONE message object (responses count down to 0)
	//   late-setheader   the server calls SetHeader again after SendHeader (refused by gRPC, never delivered)
	//   closesend-twice  the client half-closes twice
	//   respond-then     a client-streaming handler sends its response, then sets a trailer and returns its final result
	//   busy-handler     the caller gives up while the handler is busy with something that does not watch the call's
	//                    context (it waits for a gate the caller opens only AFTER it has its own outcome): the caller
	//                    hears of its cancellation / deadline at once, not when the handler gets round to answering
	//   cancel-after-end the caller cancels its context AFTER it has read the call to its end, then asks for the trailers
	//   giveup           the caller gives up (deadline / cancel) while the handler, which has set headers and trailers,
	//                    is still waiting: headers never sent and trailers never reach a caller that left first
	Quirk string
}

func (s script) String() string {
	n := fmt.Sprintf("%s/header=%s,trailer=%v,n=%d,final=%s,errAfter=%d,client=%s@%d", s.Shape, s.HeaderMode, s.Trailer, s.N, s.Final, s.ErrAfter, s.Client, s.ClientAt)
	if s.Quirk != "" {
		n += ",quirk=" + s.Quirk
	}
	return n
}

var (
	hdrMD = metadata.Pairs("x-h", "1", "x-h", "2")
	trlMD = metadata.Pairs("x-t", "9")
)

func (s script) finalErr() error {
	switch s.Final {
	case "status":
		return status.Error(codes.FailedPrecondition, "scripted status")
	case "plain":
		return errors.New("scripted plain error")
	case "bare-deadline":
		return context.DeadlineExceeded // a handler passing on the error of some inner call, not a status
	case "bare-canceled":
		return context.Canceled
	case "eof-error":
		return io.EOF // an error like any other to a gRPC server (Unknown "EOF"); not "the stream ended well"
	case "status-bad-utf8":
		return status.Error(codes.FailedPrecondition, "caf\xe9 closed \xff\xfe, 12\xe2\x82") // a status text that is not valid UTF-8 (single bad bytes, a run of them, a cut-off rune)
	case "wrapped-eof":
		return fmt.Errorf("inner stream: %w", io.EOF) // the same with context added on the way up
	case "wrapped-deadline":
		return fmt.Errorf("inner call: %w", context.DeadlineExceeded) // the same, with context added on the way up
	case "wrapped-canceled":
		return fmt.Errorf("inner call: %w", context.Canceled)
	}
	return nil
}

// ---------------------------------------------------------------- the scripted server

type server struct {
	tp.UnimplementedTestApiServer
	mu  sync.Mutex
	cur script
	// what the server saw (copies)
	recv []string
}

func (s *server) script() script { s.mu.Lock(); defer s.mu.Unlock(); return s.cur }
func (s *server) saw(m string)   { s.mu.Lock(); s.recv = append(s.recv, m); s.mu.Unlock() }

func (s *server) meta(ctx context.Context, sc script, stream grpc.ServerStream) {
	switch sc.HeaderMode {
	case "set":
		if stream != nil {
			stream.SetHeader(hdrMD)
		} else {
			grpc.SetHeader(ctx, hdrMD)
		}
	case "send":
		if stream != nil {
			stream.SendHeader(hdrMD)
		} else {
			grpc.SendHeader(ctx, hdrMD)
		}
		if sc.Quirk == "late-setheader" {
			late := metadata.Pairs("x-late", "1")
			if stream != nil {
				stream.SetHeader(late)
			} else {
				grpc.SetHeader(ctx, late)
			}
		}
	}
	if strings.HasPrefix(sc.Quirk, "md-") {
		// what the handler can see of the metadata on the caller's context: its outgoing metadata arrives as
		// incoming; metadata the caller itself received from upstream, and the outgoing side, stay behind
		in, _ := metadata.FromIncomingContext(ctx)
		out, _ := metadata.FromOutgoingContext(ctx)
		saw := metadata.Pairs("x-saw", fmt.Sprintf("in-up=%v in-down=%v out-down=%v", in.Get("x-upstream"), in.Get("x-down"), out.Get("x-down")))
		if stream != nil {
			stream.SetHeader(saw)
		} else {
			grpc.SetHeader(ctx, saw)
		}
	}
	if sc.Quirk == "bad-header-value" && stream == nil {
		// from a unary handler grpc.SetHeader reaches the transport stream, which does not look at the metadata:
		// a value no stream's SetHeader would take goes out (and arrives) as it is
		e := grpc.SetHeader(ctx, metadata.MD{"x-odd": {"caf\xc3\xa9"}})
		s.saw(fmt.Sprintf("unary setheader: non-ascii value=%v", status.Code(e)))
	}
	if sc.Quirk == "bad-header-key" && stream != nil {
		// metadata no connection carries (an MD literal keeps its capitals; a value with a control character):
		// the stream refuses it with a status and nothing of it reaches the client
		e1 := stream.SetHeader(metadata.MD{"X-Mixed": {"v"}, "x-fine": {"v"}})
		e2 := stream.SetHeader(metadata.MD{"x-ctl": {"a\x01b"}})
		e3 := stream.SetHeader(metadata.MD{"x-ctl-bin": {"a\x01b"}})
		s.saw(fmt.Sprintf("setheader: mixed-case=%v control-char=%v control-char-bin=%v", status.Code(e1), status.Code(e2), status.Code(e3)))
		// one bad pair spoils the whole metadata, whatever else is in it (a binary value is exempt from the value
		// rule, not a licence for its neighbours) and in whatever order a map hands the pairs out
		refused := 0
		for i := 0; i < 8; i++ {
			if err := stream.SetHeader(metadata.MD{fmt.Sprintf("x-b%d-bin", i): {"\x01"}, fmt.Sprintf("X-Bad%d", i): {"v"}, fmt.Sprintf("x-ok%d", i): {"v"}}); status.Code(err) == codes.Internal {
				refused++
			}
		}
		s.saw(fmt.Sprintf("setheader: bin+bad+ok refused %d of 8", refused))
	}
	if sc.Trailer {
		if stream != nil {
			stream.SetTrailer(trlMD)
		} else {
			grpc.SetTrailer(ctx, trlMD)
		}
	}
	if sc.Quirk == "trailer-twice" {
		// trailers and headers set in several steps accumulate, also under one key
		more := metadata.Pairs("x-t", "10", "x-u", "1")
		moreH := metadata.Pairs("x-h", "3")
		if stream != nil {
			stream.SetTrailer(more)
			stream.SetHeader(moreH)
		} else {
			grpc.SetTrailer(ctx, more)
			grpc.SetHeader(ctx, moreH)
		}
	}
}

func (s *server) Unary(ctx context.Context, req *tp.UnaryRequest) (*tp.UnaryResponse, error) {
	sc := s.script()
	s.saw(req.Msg)
	s.meta(ctx, sc, nil)
	if sc.Quirk == "watch-context" {
		// work tied to the call: it ends when the call's context does, and that ends with the call
		go func() { <-ctx.Done() }()
	}
	if sc.Quirk == "busy-handler" {
		<-busyGate
		return nil, ctx.Err()
	}
	if err := sc.finalErr(); err != nil {
		return nil, err
	}
	resp := &tp.UnaryResponse{Msg: "re:" + req.Msg}
	return resp, nil
}

func (s *server) ServerStream(req *tp.ServerStreamRequest, stream grpc.ServerStreamingServer[tp.ServerStreamResponse]) error {
	sc := s.script()
	s.saw("request " + req.SimulateError)
	s.meta(stream.Context(), sc, stream)
	for i := 0; i < sc.N; i++ {
		if sc.ErrAfter >= 0 && i == sc.ErrAfter {
			return sc.finalErr()
		}
		m := &tp.ServerStreamResponse{Counter: int32(i + 1)}
		if sc.Quirk == "reuse-msg" {
			m.Counter = int32(sc.N - 1 - i) // counts down to 0: the last response has no field set
		}
		if err := stream.Send(m); err != nil {
			return err
		}
		m.Counter = -99 // scribble: the client's copy must not change
	}
	if sc.Quirk == "busy-handler" {
		<-busyGate
		return stream.Context().Err()
	}
	if sc.Client != "normal" && sc.ClientAt >= sc.N {
		// the client will cancel / time out while we have nothing more to send: wait for it
		<-stream.Context().Done()
		if sc.Quirk == "own-status-after-cancel" {
			// a handler that notices the client has gone and answers with a status (or success) of its own:
			// the client gave up first, so its own cancellation is what it hears
			return sc.finalErr()
		}
		return stream.Context().Err()
	}
	return sc.finalErr()
}

func (s *server) ClientStream(stream grpc.ClientStreamingServer[tp.ClientStreamRequest, tp.ClientStreamResponse]) error {
	sc := s.script()
	s.meta(stream.Context(), sc, stream)
	var got []string
	for {
		m, err := stream.Recv()
		if err == io.EOF {
			break
		}
		if err != nil {
			return err
		}
		got = append(got, m.Msg)
		s.saw(m.Msg)
	}
	if sc.Quirk == "respond-then" {
		// the response goes out first; what the handler does and returns afterwards still belongs to the call
		if err := stream.SendAndClose(&tp.ClientStreamResponse{Msg: strings.Join(got, "+")}); err != nil {
			return err
		}
		stream.SetTrailer(metadata.Pairs("x-t-late", "7"))
		return sc.finalErr()
	}
	if err := sc.finalErr(); err != nil {
		return err
	}
	return stream.SendAndClose(&tp.ClientStreamResponse{Msg: strings.Join(got, "+")})
}

func (s *server) BidiStream(stream grpc.BidiStreamingServer[tp.BidiStreamRequest, tp.BidiStreamResponse]) error {
	sc := s.script()
	s.meta(stream.Context(), sc, stream)
	for i := 0; ; i++ {
		if sc.ErrAfter >= 0 && i == sc.ErrAfter {
			return sc.finalErr()
		}
		m, err := stream.Recv()
		if err == io.EOF {
			return sc.finalErr()
		}
		if err != nil {
			return err
		}
		s.saw(m.Msg)
		if err := stream.Send(&tp.BidiStreamResponse{Msg: "re:" + m.Msg}); err != nil {
			return err
		}
	}
}

// ---------------------------------------------------------------- the scripted client

func userMD(md metadata.MD) string {
	var ks []string
	for k, v := range md {
		if strings.HasPrefix(k, "x-") {
			ks = append(ks, k+"="+strings.Join(v, "|"))
		}
	}
	sort.Strings(ks)
	return strings.Join(ks, ";")
}

// strictOutcome is set while a script without a client-side cancel or deadline runs: every error the client
// sees then is the SERVER's, and "status code and message of a server-returned error" is compared as a status -
// the client's own cancellation and deadline expiry are only compared "as such" (context error or status alike).
var strictOutcome bool

func outcome(err error) string {
	if strictOutcome && err != nil && err != io.EOF {
		st, _ := status.FromError(err)
		if errors.Is(err, io.EOF) {
			// a client loop that ends on errors.Is(err, io.EOF) takes this for the clean end of the stream
			return fmt.Sprintf("%v:%s (and reads as io.EOF)", st.Code(), st.Message())
		}
		return fmt.Sprintf("%v:%s", st.Code(), st.Message())
	}
	switch {
	case err == nil:
		return "OK"
	case err == io.EOF:
		return "EOF"
	case errors.Is(err, context.Canceled) || status.Code(err) == codes.Canceled:
		return "CANCELLED"
	case errors.Is(err, context.DeadlineExceeded) || status.Code(err) == codes.DeadlineExceeded:
		return "DEADLINE"
	}
	st := status.Convert(err)
	return fmt.Sprintf("%v:%s", st.Code(), st.Message())
}

type ctxMaker func() (context.Context, context.CancelFunc, func())

// runClient drives one call and returns the client-visible transcript. expire() makes the
// deadline pass (virtual in the explored run, real in the reference run).
var busyGate chan struct{} // quirk busy-handler: what the handler waits for; opened when the client is done

func runClient(c tp.TestApiClient, sc script, mkCtx func(deadline bool) (context.Context, context.CancelFunc), waitDeadline func(ctx context.Context)) []string {
	var tr []string
	if sc.Quirk == "busy-handler" {
		busyGate = make(chan struct{})
		defer close(busyGate)
	}
	strictOutcome = sc.Client == "normal"
	ctx, cancel := mkCtx(sc.Client == "deadline")
	defer cancel()
	switch sc.Quirk {
	case "md-incoming": // the caller is itself a handler: its context carries what IT received
		ctx = metadata.NewIncomingContext(ctx, metadata.Pairs("x-upstream", "u"))
	case "md-outgoing":
		ctx = metadata.AppendToOutgoingContext(ctx, "x-down", "d")
	case "md-both":
		ctx = metadata.AppendToOutgoingContext(metadata.NewIncomingContext(ctx, metadata.Pairs("x-upstream", "u")), "x-down", "d")
	}
	stop := func(received int) bool { // client-side fault at this point?
		if sc.Client != "normal" && received == sc.ClientAt {
			if sc.Client == "cancel" {
				cancel()
			} else {
				waitDeadline(ctx)
			}
			return true
		}
		return false
	}
	switch sc.Shape {
	case "unary":
		// the caller's metadata variables are used for call after call: whatever an earlier call left in them, this
		// call's header and trailer REPLACE it - also when this call has none
		h, t := metadata.Pairs("x-stale", "header of an earlier call"), metadata.Pairs("x-stale", "trailer of an earlier call")
		if sc.Client != "normal" && sc.Quirk != "busy-handler" {
			stop(0)
		}
		req := &tp.UnaryRequest{Msg: "ping"}
		if sc.Quirk == "watch-context" {
			ctx = context.Background() // a caller whose own context never ends: the CALL's context still does
		}
		resp, err := c.Unary(ctx, req, grpc.Header(&h), grpc.Trailer(&t))
		req.Msg = "scribbled"
		tr = append(tr, "resp="+resp.GetMsg(), "err="+outcome(err))
		if err == nil || sc.Client == "normal" || sc.Quirk == "busy-handler" {
			tr = append(tr, "header="+userMD(h), "trailer="+userMD(t))
		}
	case "sstream":
		sreq := &tp.ServerStreamRequest{NumRes: int32(sc.N), SimulateError: "as sent"}
		stream, err := c.ServerStream(ctx, sreq)
		sreq.SimulateError = "scribbled" // the request is the caller's again once the call is open: the server has its copy
		if err != nil {
			return append(tr, "open-err="+outcome(err))
		}
		n := 0
		var held []*tp.ServerStreamResponse
		if sc.Quirk == "reuse-msg" {
			one := new(tp.ServerStreamResponse)
			for {
				if err := stream.RecvMsg(one); err != nil {
					tr = append(tr, "err="+outcome(err))
					break
				}
				tr = append(tr, fmt.Sprintf("msg=%d", one.Counter))
			}
			h, _ := stream.Header()
			return append(tr, "header="+userMD(h), "trailer="+userMD(stream.Trailer()))
		}
		for {
			if stop(n) {
				_, err := stream.Recv()
				tr = append(tr, "err="+outcome(err))
				// the caller left while the handler was waiting: what had been sent by then is all it has -
				// the headers if a message came, never the trailers (they travel with the end of the call)
				// (not after a deadline the handler watches too: over a connection both sides time out at the same
				// moment, and whether the server's answer still makes it is a race there)
				if sc.Client == "cancel" || sc.Quirk == "busy-handler" {
					h, _ := stream.Header()
					tr = append(tr, "header-after-giving-up="+userMD(h), "trailer-after-giving-up="+userMD(stream.Trailer()))
				}
				return tr
			}
			m, err := stream.Recv()
			if err != nil {
				tr = append(tr, "err="+outcome(err))
				break
			}
			if n == 0 {
				h, _ := stream.Header()
				tr = append(tr, "header="+userMD(h))
			}
			held = append(held, m)
			n++
		}
		for _, m := range held {
			tr = append(tr, fmt.Sprintf("msg=%d", m.Counter))
		}
		if n == 0 {
			h, _ := stream.Header()
			tr = append(tr, "header="+userMD(h))
		}
		if sc.Quirk == "cancel-after-end" {
			cancel() // the call is over and was read to its end: what it delivered stays delivered
		}
		tr = append(tr, "trailer="+userMD(stream.Trailer()))
		// what Header and Trailer hand out is the caller's own: writing on it does not show in the next call
		if h1, _ := stream.Header(); h1 != nil {
			h1.Set("x-h", "scribbled")
		}
		if t1 := stream.Trailer(); t1 != nil {
			t1.Set("x-t", "scribbled")
		}
		h2, _ := stream.Header()
		tr = append(tr, "header-again="+userMD(h2), "trailer-again="+userMD(stream.Trailer()))
	case "cstream":
		stream, err := c.ClientStream(ctx)
		if err != nil {
			return append(tr, "open-err="+outcome(err))
		}
		for i := 0; i < sc.N; i++ {
			m := &tp.ClientStreamRequest{Msg: fmt.Sprintf("c%d", i)}
			if err := stream.Send(m); err != nil {
				tr = append(tr, "send-err")
				break
			}
			m.Msg = "scribbled"
		}
		if sc.Quirk == "giveup" {
			cancel()
		}
		resp, err := stream.CloseAndRecv()
		tr = append(tr, "resp="+resp.GetMsg(), "err="+outcome(err))
		if sc.Quirk == "cancel-after-end" {
			cancel() // the call is over and was read to its end: what it delivered stays delivered
		}
		h, _ := stream.Header()
		tr = append(tr, "header="+userMD(h), "trailer="+userMD(stream.Trailer()))
	case "bidi":
		stream, err := c.BidiStream(ctx)
		if err != nil {
			return append(tr, "open-err="+outcome(err))
		}
		n := 0
		for ; n < sc.N; n++ {
			if stop(n) {
				_, err := stream.Recv()
				tr = append(tr, "err="+outcome(err))
				h, _ := stream.Header()
				return append(tr, "header-after-giving-up="+userMD(h), "trailer-after-giving-up="+userMD(stream.Trailer()))
			}
			if sc.ErrAfter >= 0 && n >= sc.ErrAfter {
				break // the server is about to finish: a further send would race with it
			}
			m := &tp.BidiStreamRequest{Msg: fmt.Sprintf("b%d", n)}
			if err := stream.Send(m); err != nil {
				tr = append(tr, "send-err")
				break
			}
			m.Msg = "scribbled"
			r, err := stream.Recv()
			if err != nil {
				tr = append(tr, "err="+outcome(err))
				return append(tr, "trailer="+userMD(stream.Trailer()))
			}
			tr = append(tr, "msg="+r.Msg)
		}
		if sc.ErrAfter < 0 || sc.ErrAfter >= sc.N {
			stream.CloseSend()
			if sc.Quirk == "closesend-twice" {
				tr = append(tr, "closesend2="+outcome(stream.CloseSend()))
			}
		}
		_, err = stream.Recv()
		tr = append(tr, "err="+outcome(err))
		if sc.Quirk == "send-after-end" {
			// the call is over and the client knows: one more Send tells that, the status stays with Recv
			tr = append(tr, "send-after-end="+outcome(stream.Send(&tp.BidiStreamRequest{Msg: "late"})))
		}
		if sc.Quirk == "cancel-after-end" {
			cancel() // the call is over and was read to its end: what it delivered stays delivered
		}
		h, _ := stream.Header()
		tr = append(tr, "header="+userMD(h), "trailer="+userMD(stream.Trailer()))
	}
	return tr
}

// ---------------------------------------------------------------- reference: real gRPC over bufconn

type reference struct {
	once   sync.Once
	srv    *server
	client tp.TestApiClient
	mu     sync.Mutex
}

var ref reference

func (r *reference) transcript(sc script) ([]string, []string) {
	r.once.Do(func() {
		lis := bufconn.Listen(1 << 20)
		r.srv = &server{}
		gs := grpc.NewServer()
		tp.RegisterTestApiServer(gs, r.srv)
		go gs.Serve(lis)
		conn, err := grpc.NewClient("passthrough:///bufnet", grpc.WithContextDialer(func(ctx context.Context, _ string) (net.Conn, error) { return lis.DialContext(ctx) }), grpc.WithTransportCredentials(insecure.NewCredentials()))
		if err != nil {
			panic(err)
		}
		r.client = tp.NewTestApiClient(conn)
	})
	r.mu.Lock()
	defer r.mu.Unlock()
	r.srv.mu.Lock()
	r.srv.cur, r.srv.recv = sc, nil
	r.srv.mu.Unlock()
	tr := runClient(r.client, sc, func(deadline bool) (context.Context, context.CancelFunc) {
		if deadline {
			return context.WithTimeout(context.Background(), 40*time.Millisecond)
		}
		return context.WithCancel(context.Background())
	}, func(ctx context.Context) { <-ctx.Done() })
	time.Sleep(2 * time.Millisecond) // let the handler finish recording
	r.srv.mu.Lock()
	saw := append([]string{}, r.srv.recv...)
	r.srv.mu.Unlock()
	return tr, saw
}

// ---------------------------------------------------------------- explored: the wrapper

func body(sc script) (setup func(), run func()) {
	var want, wantSaw []string
	name := sc.String()
	setup = func() { want, wantSaw = ref.transcript(sc) } // free-running reference, once per scenario
	return setup, func() {
		srv := &server{cur: sc}
		conn := wrap.ServerToClient(tp.TestApi_ServiceDesc, srv)
		client := tp.NewTestApiClient(conn)
		got := runClient(client, sc, func(deadline bool) (context.Context, context.CancelFunc) {
			if deadline {
				return context.WithTimeout(context.Background(), time.Hour) // virtual: fires only when nothing else can move
			}
			return context.WithCancel(context.Background())
		}, func(ctx context.Context) { <-ctx.Done() })
		verifrt.WaitIdle()
		if a := verifrt.Alive(); len(a) > 0 {
			verifrt.Logf("FAIL goroutine-left %s ## the call is over, these threads never ended: %v", name, a)
			return
		}
		if fmt.Sprint(got) != fmt.Sprint(want) {
			verifrt.Logf("FAIL transcript %s ## through the wrapper the client observed %v; over a real gRPC connection it observes %v", name, got, want)
		}
		if sc.Client == "normal" {
			if fmt.Sprint(srv.recv) != fmt.Sprint(wantSaw) {
				verifrt.Logf("FAIL server-saw %s ## the wrapped server received %v; over real gRPC it receives %v (a message altered after it was sent?)", name, srv.recv, wantSaw)
			}
		}
		verifrt.Logf("OUT %v", got)
	}
}

// ---------------------------------------------------------------- enumeration

func scripts(thorough bool) []script {
	var out []script
	maxN := 2
	if thorough {
		maxN = 3
	}
	finals := []string{"ok", "status", "plain"}
	hms := []string{"none", "set", "send"}
	for _, hm := range hms {
		for _, t := range []bool{false, true} {
			for _, f := range finals {
				out = append(out, script{Shape: "unary", HeaderMode: hm, Trailer: t, Final: f, ErrAfter: -1, Client: "normal"})
			}
		}
	}
	out = append(out, script{Shape: "unary", HeaderMode: "none", Final: "ok", ErrAfter: -1, Client: "cancel"})
	for _, hm := range hms {
		for n := 0; n <= maxN; n++ {
			for _, t := range []bool{false, true} {
				for _, f := range finals {
					for ea := -1; ea < n; ea++ {
						if ea >= 0 && f == "ok" && !thorough {
							continue
						}
						out = append(out, script{Shape: "sstream", HeaderMode: hm, Trailer: t, N: n, Final: f, ErrAfter: ea, Client: "normal"})
					}
				}
			}
			if hm != "send" {
				// the client may only cancel once the server has nothing more to send: an earlier cancel
				// leaves a server send without a receiver, i.e. relies on transport buffering
				out = append(out, script{Shape: "sstream", HeaderMode: hm, N: n, Final: "ok", ErrAfter: -1, Client: "cancel", ClientAt: n})
				out = append(out, script{Shape: "sstream", HeaderMode: hm, N: n, Final: "ok", ErrAfter: -1, Client: "deadline", ClientAt: n})
				if hm == "set" {
					out = append(out, script{Shape: "sstream", HeaderMode: hm, Trailer: true, N: n, Final: "ok", ErrAfter: -1, Client: "cancel", ClientAt: n})
					out = append(out, script{Shape: "sstream", HeaderMode: hm, Trailer: true, N: n, Final: "ok", ErrAfter: -1, Client: "deadline", ClientAt: n})
				}
			}
		}
	}
	for _, hm := range hms {
		for n := 0; n <= maxN; n++ {
			for _, t := range []bool{false, true} {
				for _, f := range finals {
					out = append(out, script{Shape: "cstream", HeaderMode: hm, Trailer: t, N: n, Final: f, ErrAfter: -1, Client: "normal"})
				}
			}
		}
	}
	for _, hm := range hms {
		for n := 0; n <= maxN; n++ {
			for _, f := range finals {
				for ea := -1; ea <= n; ea++ {
					if ea >= 0 && hm == "send" && !thorough {
						continue
					}
					out = append(out, script{Shape: "bidi", HeaderMode: hm, Trailer: ea%2 == 0, N: n, Final: f, ErrAfter: ea, Client: "normal"})
				}
			}
			if hm == "none" {
				for at := 0; at < n; at++ {
					out = append(out, script{Shape: "bidi", HeaderMode: hm, N: n, Final: "ok", ErrAfter: -1, Client: "cancel", ClientAt: at})
				}
			}
			if hm == "set" {
				for at := 0; at < n; at++ {
					out = append(out, script{Shape: "bidi", HeaderMode: hm, Trailer: true, N: n, Final: "ok", ErrAfter: -1, Client: "cancel", ClientAt: at})
				}
			}
		}
	}
	for n := 1; n <= maxN; n++ {
		out = append(out, script{Shape: "sstream", HeaderMode: "set", N: n, Final: "ok", ErrAfter: -1, Client: "normal", Quirk: "reuse-msg"})
	}
	for _, f := range []string{"bare-deadline", "bare-canceled", "wrapped-deadline", "wrapped-canceled"} {
		for _, shape := range []string{"unary", "sstream", "cstream", "bidi"} {
			out = append(out, script{Shape: shape, HeaderMode: "set", Trailer: true, N: 1, Final: f, ErrAfter: -1, Client: "normal"})
		}
	}
	for _, shape := range []string{"unary", "sstream", "bidi"} {
		out = append(out, script{Shape: shape, HeaderMode: "send", Trailer: true, N: 1, Final: "ok", ErrAfter: -1, Client: "normal", Quirk: "late-setheader"})
	}
	for n := 0; n <= 1; n++ {
		out = append(out, script{Shape: "bidi", HeaderMode: "none", N: n, Final: "ok", ErrAfter: -1, Client: "normal", Quirk: "closesend-twice"})
	}
	for _, f := range []string{"ok", "status"} {
		out = append(out, script{Shape: "cstream", HeaderMode: "set", Trailer: true, N: 1, Final: f, ErrAfter: -1, Client: "normal", Quirk: "respond-then"})
	}
	for _, shape := range []string{"unary", "sstream", "cstream", "bidi"} {
		out = append(out, script{Shape: shape, HeaderMode: "set", Trailer: true, N: 1, Final: "eof-error", ErrAfter: -1, Client: "normal"})
		out = append(out, script{Shape: shape, HeaderMode: "set", Trailer: true, N: 1, Final: "wrapped-eof", ErrAfter: -1, Client: "normal"})
		out = append(out, script{Shape: shape, HeaderMode: "none", N: 1, Final: "status-bad-utf8", ErrAfter: -1, Client: "normal"})
	}
	for _, f := range []string{"ok", "status"} {
		out = append(out, script{Shape: "unary", HeaderMode: "none", N: 1, Final: f, ErrAfter: -1, Client: "normal", Quirk: "watch-context"})
	}
	for _, f := range []string{"ok", "status"} {
		out = append(out, script{Shape: "sstream", HeaderMode: "none", N: 1, Final: f, ErrAfter: -1, Client: "cancel", ClientAt: 1, Quirk: "own-status-after-cancel"})
	}
	for _, shape := range []string{"unary", "sstream", "cstream", "bidi"} {
		for _, f := range []string{"ok", "status"} {
			out = append(out, script{Shape: shape, HeaderMode: "set", Trailer: true, N: 1, Final: f, ErrAfter: -1, Client: "normal", Quirk: "trailer-twice"})
		}
	}
	for _, shape := range []string{"sstream", "cstream", "bidi"} {
		out = append(out, script{Shape: shape, HeaderMode: "set", Trailer: true, N: 1, Final: "ok", ErrAfter: -1, Client: "normal", Quirk: "bad-header-key"})
	}
	out = append(out, script{Shape: "unary", HeaderMode: "set", Trailer: true, N: 1, Final: "ok", ErrAfter: -1, Client: "normal", Quirk: "bad-header-value"})
	for n := 0; n <= 1; n++ {
		out = append(out, script{Shape: "cstream", HeaderMode: "set", Trailer: true, N: n, Final: "ok", ErrAfter: -1, Client: "cancel", Quirk: "giveup"})
	}
	for _, hm := range []string{"set", "send"} {
		out = append(out, script{Shape: "unary", HeaderMode: hm, Trailer: true, Final: "ok", ErrAfter: -1, Client: "deadline", Quirk: "busy-handler"})
	}
	for n := 0; n <= 1; n++ {
		for _, cl := range []string{"cancel", "deadline"} {
			out = append(out, script{Shape: "sstream", HeaderMode: "set", Trailer: true, N: n, Final: "ok", ErrAfter: -1, Client: cl, ClientAt: n, Quirk: "busy-handler"})
		}
	}
	for _, q := range []string{"md-incoming", "md-outgoing", "md-both"} {
		for _, shape := range []string{"unary", "sstream", "cstream", "bidi"} {
			out = append(out, script{Shape: shape, HeaderMode: "set", N: 1, Final: "ok", ErrAfter: -1, Client: "normal", Quirk: q})
		}
	}
	for _, shape := range []string{"sstream", "cstream", "bidi"} {
		for _, f := range []string{"ok", "status"} {
			out = append(out, script{Shape: shape, HeaderMode: "set", Trailer: true, N: 1, Final: f, ErrAfter: -1, Client: "normal", Quirk: "cancel-after-end"})
		}
	}
	for _, f := range []string{"ok", "status", "plain"} {
		out = append(out, script{Shape: "bidi", HeaderMode: "set", Trailer: true, N: 2, Final: f, ErrAfter: 1, Client: "normal", Quirk: "send-after-end"})
		out = append(out, script{Shape: "bidi", HeaderMode: "none", N: 1, Final: f, ErrAfter: -1, Client: "normal", Quirk: "send-after-end"})
	}
	return out
}

// ---------------------------------------------------------------- shape / method errors

func shapes(s *hx.Seq) {
	if !s.Own() {
		return
	}
	conn := wrap.ServerToClient(tp.TestApi_ServiceDesc, &server{})
	ctx := context.Background()
	type probe struct {
		name   string
		method string
		desc   *grpc.StreamDesc // nil = Invoke
		want   codes.Code
	}
	for _, p := range []probe{
		{"unknown-unary", "/sc.go.test.TestApi/Nope", nil, codes.Unimplemented},
		{"unknown-stream", "/sc.go.test.TestApi/Nope", &grpc.StreamDesc{ServerStreams: true}, codes.Unimplemented},
		{"unknown-service", "/other.Service/Unary", nil, codes.Unimplemented},
		{"server-stream-as-bidi", "/sc.go.test.TestApi/ServerStream", &grpc.StreamDesc{ServerStreams: true, ClientStreams: true}, codes.Internal},
		{"client-stream-as-server-stream", "/sc.go.test.TestApi/ClientStream", &grpc.StreamDesc{ServerStreams: true}, codes.Internal},
		{"bidi-as-server-stream", "/sc.go.test.TestApi/BidiStream", &grpc.StreamDesc{ServerStreams: true}, codes.Internal},
		{"unary-as-server-stream", "/sc.go.test.TestApi/Unary", &grpc.StreamDesc{ServerStreams: true}, codes.Internal},
		// the other direction: a streaming method called as a unary one (Invoke) is a mismatched shape too
		{"server-stream-as-unary", "/sc.go.test.TestApi/ServerStream", nil, codes.Internal},
		{"bidi-as-unary", "/sc.go.test.TestApi/BidiStream", nil, codes.Internal},
		{"client-stream-as-unary", "/sc.go.test.TestApi/ClientStream", nil, codes.Internal},
	} {
		s.Eval(1)
		s.Trans(1)
		var err error
		var pn any
		func() {
			defer func() { pn = recover() }()
			if p.desc == nil {
				err = conn.Invoke(ctx, p.method, &tp.UnaryRequest{}, &tp.UnaryResponse{})
			} else {
				_, err = conn.NewStream(ctx, p.desc, p.method)
			}
		}()
		if pn != nil {
			s.Fail("shape-panic "+p.name, fmt.Sprint(pn), nil)
		} else if status.Code(err) != p.want {
			s.Fail("shape "+p.name, fmt.Sprintf("returned %v, want %v", err, p.want), nil)
		}
		s.State(p.name)
		s.Distinct(p.name)
	}
	s.Sample("unknown methods must give Unimplemented, a mismatched streaming shape Internal")
}

func main() {
	h := hx.New("C13")
	h.Seq("shapes", shapes)
	registerOverlap(h)
	for _, sc := range scripts(true) {
		sc := sc
		q := -1
		inQuick := false
		for _, q2 := range scripts(false) {
			if q2 == sc {
				inQuick = true
			}
		}
		if !inQuick {
			q = -2
		}
		setup, b := body(sc)
		h.SchedWithSetup(sc.String(), q, -1, setup, b, hx.StdOracle)
	}
	h.Run()
}
