// Package lib: reference-side helpers shared by the harnesses (independent of the
// code under test: only protoreflect).
package lib

import (
	"fmt"
	"sort"
	"strings"

	"google.golang.org/protobuf/proto"
	"google.golang.org/protobuf/reflect/protoreflect"
	"google.golang.org/protobuf/types/known/fieldmaskpb"
	"google.golang.org/protobuf/types/known/timestamppb"

	"github.com/smart-core-os/sc-golang/internal/testproto"
)

type T = testproto.TestAllTypes
type N = testproto.TestAllTypes_NestedMessage

// Universe: the leaf paths of TestAllTypes the oracles look at. A repeated / map field
// is one leaf (its whole content).
var Universe = []string{
	"default_int32", "default_string", "optional_int32",
	"default_nested_message.a", "default_nested_message.corecursive.default_int32", "default_nested_message.corecursive.default_string",
	"default_foreign_message.c", "default_foreign_message.d",
	"oneof_default_int32", "oneof_default_nested_message.a",
	"repeated_int32", "repeated_nested_message", "map_string_string",
	"default_well_known.default_timestamp.seconds",
}

func fmtValue(fd protoreflect.FieldDescriptor, v protoreflect.Value) string {
	switch {
	case fd.IsList():
		l := v.List()
		var xs []string
		for i := 0; i < l.Len(); i++ {
			xs = append(xs, fmtSingular(fd, l.Get(i)))
		}
		return "[" + strings.Join(xs, " ") + "]"
	case fd.IsMap():
		var xs []string
		v.Map().Range(func(k protoreflect.MapKey, mv protoreflect.Value) bool {
			xs = append(xs, fmt.Sprintf("%v:%s", k.Interface(), fmtSingular(fd.MapValue(), mv)))
			return true
		})
		sort.Strings(xs)
		return "{" + strings.Join(xs, " ") + "}"
	}
	return fmtSingular(fd, v)
}

func fmtSingular(fd protoreflect.FieldDescriptor, v protoreflect.Value) string {
	if fd.Kind() == protoreflect.MessageKind {
		b, _ := proto.MarshalOptions{Deterministic: true}.Marshal(v.Message().Interface())
		return fmt.Sprintf("<%x>", b)
	}
	return fmt.Sprint(v.Interface())
}

// Leaf returns a printable value of the leaf at the dotted path; unset and default are
// the same thing ("" for messages on the way that are absent).
func Leaf(m proto.Message, path string) string {
	cur := m.ProtoReflect()
	segs := strings.Split(path, ".")
	for i, sname := range segs {
		fd := cur.Descriptor().Fields().ByName(protoreflect.Name(sname))
		if fd == nil {
			return "?unknown"
		}
		last := i == len(segs)-1
		if last {
			if fd.HasPresence() && !cur.Has(fd) {
				if fd.Kind() == protoreflect.MessageKind {
					return "<>"
				}
				return fmtSingular(fd, fd.Default())
			}
			return fmtValue(fd, cur.Get(fd))
		}
		if fd.Kind() != protoreflect.MessageKind || fd.IsList() || fd.IsMap() {
			return "?notmessage"
		}
		if !cur.Has(fd) {
			// absent message: all leaves below are default
			cur = cur.Get(fd).Message() // read-only empty message
			continue
		}
		cur = cur.Get(fd).Message()
	}
	return ""
}

// Leaves of the whole universe.
func Leaves(m proto.Message) map[string]string {
	r := map[string]string{}
	for _, p := range Universe {
		r[p] = Leaf(m, p)
	}
	return r
}

// Covered: is leaf path p selected by the mask paths (a mask path selects itself and
// everything below it)?
func Covered(mask []string, p string) bool {
	return Covering(mask, p) != ""
}

// Covering returns the (shortest) mask path that selects p, or "".
func Covering(mask []string, p string) string {
	best := ""
	for _, mp := range mask {
		if mp == p || strings.HasPrefix(p, mp+".") {
			if best == "" || len(mp) < len(best) {
				best = mp
			}
		}
	}
	return best
}

// Overlaps: mask path a and path b select at least one common leaf.
func Overlaps(a, b string) bool {
	return a == b || strings.HasPrefix(a, b+".") || strings.HasPrefix(b, a+".")
}

func FM(paths ...string) *fieldmaskpb.FieldMask { return &fieldmaskpb.FieldMask{Paths: paths} }

// Catalogue of TestAllTypes values over the universe.
func Catalogue() []*T {
	i32 := func(v int32) *int32 { return &v }
	return []*T{
		{},
		{DefaultInt32: 1},
		{DefaultString: "x"},
		{OptionalInt32: i32(0)},
		{DefaultNestedMessage: &N{A: 2}},
		{DefaultNestedMessage: &N{Corecursive: &T{DefaultInt32: 3, DefaultString: "c"}}},
		{DefaultForeignMessage: &testproto.ForeignMessage{C: 4}},
		{DefaultForeignMessage: &testproto.ForeignMessage{C: 5, D: 6}},
		{OneofDefault: &testproto.TestAllTypes_OneofDefaultInt32{OneofDefaultInt32: 7}},
		{OneofDefault: &testproto.TestAllTypes_OneofDefaultNestedMessage{OneofDefaultNestedMessage: &N{A: 8}}},
		{RepeatedInt32: []int32{1, 2}, RepeatedNestedMessage: []*N{{A: 1}, {A: 2}}},
		{MapStringString: map[string]string{"k": "v"}, DefaultWellKnown: &testproto.WellKnown{DefaultTimestamp: &timestamppb.Timestamp{Seconds: 9}}},
		{DefaultInt32: 11, DefaultString: "all", OptionalInt32: i32(12), DefaultNestedMessage: &N{A: 13, Corecursive: &T{DefaultInt32: 14, DefaultString: "cc"}},
			DefaultForeignMessage: &testproto.ForeignMessage{C: 15, D: 16}, OneofDefault: &testproto.TestAllTypes_OneofDefaultInt32{OneofDefaultInt32: 17},
			RepeatedInt32: []int32{18}, RepeatedNestedMessage: []*N{{A: 19}}, MapStringString: map[string]string{"a": "b", "k": "w"},
			DefaultWellKnown: &testproto.WellKnown{DefaultTimestamp: &timestamppb.Timestamp{Seconds: 20}}},
	}
}

// MaskPaths: valid mask paths over the universe, parents included.
var MaskPaths = []string{
	"default_int32", "default_string", "optional_int32",
	"default_nested_message", "default_nested_message.a", "default_nested_message.corecursive", "default_nested_message.corecursive.default_int32",
	"default_foreign_message", "default_foreign_message.c", "default_foreign_message.d",
	"oneof_default_int32", "oneof_default_nested_message", "oneof_default_nested_message.a",
	"repeated_int32", "repeated_nested_message", "map_string_string",
	"default_well_known", "default_well_known.default_timestamp",
}

// Project: independent read-mask projection: a fresh message holding exactly the
// leaves of m selected by the mask (nil mask = everything, empty = nothing).
func Project(m proto.Message, mask *fieldmaskpb.FieldMask) proto.Message {
	if m == nil {
		return nil
	}
	if mask == nil {
		return proto.Clone(m)
	}
	out := m.ProtoReflect().New()
	for _, p := range mask.Paths {
		// a path that one of its parents (or an earlier copy of itself) already selects adds nothing - and must not
		// be copied again: merging a message twice doubles its repeated fields and its unknown fields
		covered := false
		for j, q := range mask.Paths {
			if (q != p && strings.HasPrefix(p, q+".")) || (q == p && j < indexOf(mask.Paths, p)) {
				covered = true
			}
		}
		if covered {
			continue
		}
		copyPath(out, m.ProtoReflect(), strings.Split(p, "."))
	}
	return out.Interface()
}

func indexOf(l []string, x string) int {
	for i, e := range l {
		if e == x {
			return i
		}
	}
	return -1
}

func copyPath(dst, src protoreflect.Message, segs []string) {
	fd := src.Descriptor().Fields().ByName(protoreflect.Name(segs[0]))
	if fd == nil || !src.Has(fd) {
		return
	}
	if len(segs) == 1 {
		// whole field
		if fd.IsList() || fd.IsMap() || fd.Kind() == protoreflect.MessageKind {
			tmp := src.New()
			tmp.Set(fd, src.Get(fd))
			c := proto.Clone(tmp.Interface()).ProtoReflect()
			if fd.Kind() == protoreflect.MessageKind && !fd.IsList() && !fd.IsMap() && dst.Has(fd) {
				proto.Merge(dst.Mutable(fd).Message().Interface(), c.Get(fd).Message().Interface())
				return
			}
			dst.Set(fd, c.Get(fd))
			return
		}
		dst.Set(fd, src.Get(fd))
		return
	}
	if fd.Kind() != protoreflect.MessageKind || fd.IsList() || fd.IsMap() {
		return // a path cannot continue through a scalar / repeated / map field
	}
	copyPath(dst.Mutable(fd).Message(), src.Get(fd).Message(), segs[1:])
}
