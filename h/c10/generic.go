package main

// Every trait server of the registry that exposes a resource through Get / Update / Pull: a client opens
// the Pull stream, never receives, the resource is updated twice (so changes queue up behind the one the
// server is trying to send), and then the client cancels. Every goroutine the subscription started - in
// the server method, the model's forwarder, the resource's Pull - must end.

import (
	"context"
	"fmt"

	"google.golang.org/grpc"
	"google.golang.org/protobuf/reflect/protoreflect"

	"github.com/smart-core-os/sc-golang/pkg/wrap"
	"github.com/smart-core-os/sc-golang/verif_h/reg"
	"github.com/smart-core-os/sc-golang/verif_h/stack"
	"verifrt"
	"verifrt/hx"
)

type gcase struct {
	Server  int
	Noun    string
	Updates int
}

func runGeneric(c gcase) (key, msg string, accepted int) {
	se := reg.Servers[c.Server]
	res := verifrt.RunOnce(nil, false, func() {
		server := se.New()
		services, triples := stack.Discover(server)
		var t *stack.Triple
		for i := range triples {
			if triples[i].Noun == c.Noun {
				t = &triples[i]
			}
		}
		if t == nil {
			return
		}
		conns := map[string]grpc.ClientConnInterface{}
		for _, e := range services {
			conns[e.Desc.ServiceName] = wrap.ServerToClient(*e.Desc, server)
		}
		ctx, cancel := context.WithCancel(context.Background())
		defer cancel()
		req := stack.NewOf(t.Pull.Desc.Input())
		stack.SetStr(req, "name", stack.DevName)
		cs, err := conns[t.Pull.Svc.Desc.ServiceName].NewStream(ctx, &grpc.StreamDesc{ServerStreams: true}, t.Pull.Full())
		if err != nil {
			key, msg = "generic-pull-error", err.Error()
			return
		}
		if err := cs.SendMsg(req.Interface()); err != nil {
			key, msg = "generic-pull-error", err.Error()
			return
		}
		cs.CloseSend()
		verifrt.WaitIdle()
		base := verifrt.AliveCount()
		for i := 0; i < c.Updates; i++ {
			ureq := stack.NewOf(t.Upd.Desc.Input())
			stack.SetStr(ureq, "name", stack.DevName)
			val := stack.NewOf(t.Res)
			stack.Fill(val, 11+12*i, 2)
			stack.Hint(val, 11+12*i)
			ureq.Set(t.UpdField, protoreflect.ValueOfMessage(val))
			resp := stack.NewOf(t.Res).Interface()
			if err := conns[t.Upd.Svc.Desc.ServiceName].Invoke(context.Background(), t.Upd.Full(), ureq.Interface(), resp); err == nil {
				accepted++
			}
			verifrt.WaitIdle()
		}
		_ = base
		cancel()
		verifrt.WaitIdle()
		if a := verifrt.Alive(); len(a) > 0 {
			key = "generic-goroutine-left"
			msg = fmt.Sprintf("Pull stream opened, never read, %d update(s) accepted, then cancelled: nothing can move, yet these threads never ended: %v", accepted, a)
		}
	})
	if key == "" && res.Status != "ok" {
		return "generic-" + res.Status, res.Msg, accepted
	}
	return key, msg, accepted
}

func registerGeneric(h *hx.H) {
	h.Seq("servers/abandoned-pull-then-cancel", func(s *hx.Seq) {
		var rc gcase
		if s.Replaying(&rc) {
			if k, m, _ := runGeneric(rc); k != "" {
				s.Fail(k, m, rc)
			}
			return
		}
		for si, se := range reg.Servers {
			_, triples := stack.Discover(se.New())
			for _, t := range triples {
				if !s.Own() {
					continue
				}
				for _, n := range []int{0, 1, 2, 3} {
					c := gcase{Server: si, Noun: t.Noun, Updates: n}
					s.Eval(1)
					s.Trans(n + 2)
					k, m, acc := runGeneric(c)
					if k != "" {
						s.Fail(fmt.Sprintf("%s %s %s updates=%d", k, se.Name, t.Noun, n), m, c)
					}
					s.State(fmt.Sprint(se.Name, t.Noun, n))
					if acc > 0 {
						s.Distinct(fmt.Sprint(se.Name, t.Noun, n))
					}
				}
			}
			if s.Stop() {
				return
			}
		}
		s.Sample(map[string]any{"case": "onoffpb.ModelServer OnOff updates=2", "meaning": "PullOnOff opened through the wrapper and never read; 2 updates; cancel; the thread census must be empty"})
	})
}
