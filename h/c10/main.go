// C10 — subscriptions and the event bus shut down cleanly under any timing.
// cancel() runs as its own thread, so the explorer places it at every scheduling
// point of Send / Listen / the forwarding goroutines.
package main

import (
	"context"
	"fmt"
	"sort"
	"strings"
	"sync"
	"time"

	"google.golang.org/protobuf/proto"

	"github.com/smart-core-os/sc-api/go/traits"
	"github.com/smart-core-os/sc-golang/internal/minibus"
	"github.com/smart-core-os/sc-golang/internal/testproto"
	"github.com/smart-core-os/sc-golang/pkg/resource"
	"github.com/smart-core-os/sc-golang/pkg/trait/onoffpb"
	"github.com/smart-core-os/sc-golang/pkg/trait/presspb"
	"verifrt"
	"verifrt/hx"
)

type T = testproto.TestAllTypes

func msg(v int) *T { return &T{DefaultInt32: int32(v)} }

// ---------------------------------------------------------------- harness A: bus only

type lspec struct {
	pre     bool // Listen called by the root before anything else starts
	cancel  bool // a canceller thread cancels it at some point
	abandon int  // consumer stops receiving after this many events and then cancels (-1: never)
}

type listenerRec struct {
	spec       lspec
	listenDone int64
	cancelInv  int64 // stamp just before cancel() (0 = not yet)
	got        []string
	closed     bool
}

func busBody(name string, senders [][]string, ls []lspec) func() {
	return func() {
		bus := &minibus.Bus{}
		recs := make([]*listenerRec, len(ls))
		cancels := make([]context.CancelFunc, len(ls))
		ctxs := make([]context.Context, len(ls))
		var consumers sync.WaitGroup
		chans := make([]<-chan any, len(ls))
		consume := func(i int, ch <-chan any) {
			r := recs[i]
			chans[i] = ch
			n := 0
			for {
				if r.spec.abandon >= 0 && n >= r.spec.abandon {
					// stop receiving for good and cancel, as a caller that lost interest does
					if r.cancelInv == 0 {
						r.cancelInv = verifrt.Stamp()
					}
					cancels[i]()
					return
				}
				ev, ok := <-ch
				if !ok {
					r.closed = true
					return
				}
				n++
				r.got = append(r.got, ev.(string))
			}
		}
		for i, sp := range ls {
			recs[i] = &listenerRec{spec: sp}
			ctxs[i], cancels[i] = context.WithCancel(context.Background())
		}
		for i, sp := range ls {
			i := i
			consumers.Add(1)
			if sp.pre {
				ch := bus.Listen(ctxs[i])
				recs[i].listenDone = verifrt.Stamp()
				go func() { defer consumers.Done(); consume(i, ch) }()
			} else {
				go func() {
					defer consumers.Done()
					ch := bus.Listen(ctxs[i])
					recs[i].listenDone = verifrt.Stamp()
					consume(i, ch)
				}()
			}
			if sp.cancel {
				go func() {
					if recs[i].cancelInv == 0 {
						recs[i].cancelInv = verifrt.Stamp()
					}
					cancels[i]()
				}()
			}
		}
		type sendRec struct {
			ev       string
			inv, ret int64
			ok       bool
		}
		sent := make([][]sendRec, len(senders))
		var sw sync.WaitGroup
		for si, evs := range senders {
			si, evs := si, evs
			sw.Add(1)
			go func() {
				defer sw.Done()
				for _, ev := range evs {
					r := sendRec{ev: ev, inv: verifrt.Stamp()}
					r.ok = bus.Send(context.Background(), ev)
					r.ret = verifrt.Stamp()
					sent[si] = append(sent[si], r)
				}
			}()
		}
		sw.Wait() // a sender that can never finish shows up as a deadlock
		for i := range ls {
			if recs[i].cancelInv == 0 {
				recs[i].cancelInv = verifrt.Stamp()
			}
			cancels[i]()
		}
		verifrt.WaitIdle()
		if a := verifrt.Alive(); len(a) > 0 {
			verifrt.Logf("FAIL goroutine-left %s ## all listen contexts are cancelled and nothing can move, yet these threads never ended: %v", name, a)
			return
		}
		var outs []string
		for i, r := range recs {
			if !r.closed && chans[i] != nil {
				r.closed = drainClosed(chans[i])
			}
			if !r.closed {
				verifrt.Logf("FAIL not-closed %s ## listener %d: channel not closed after its context was cancelled", name, i)
			}
			seen := map[string]int{}
			for _, e := range r.got {
				seen[e]++
				if seen[e] > 1 {
					verifrt.Logf("FAIL duplicate %s ## listener %d received %q twice: %v", name, i, e, r.got)
				}
			}
			for si := range sent {
				// per-sender order
				last := -1
				for _, e := range r.got {
					for k, sr := range sent[si] {
						if sr.ev == e {
							if k < last {
								verifrt.Logf("FAIL order %s ## listener %d received sender %d's events out of order: %v", name, i, si, r.got)
							}
							last = k
						}
					}
				}
				for _, sr := range sent[si] {
					if !sr.ok {
						verifrt.Logf("FAIL send-false %s ## Send(%s) returned false though its context was never cancelled", name, sr.ev)
					}
					liveWhole := r.listenDone != 0 && r.listenDone < sr.inv && sr.ret < r.cancelInv
					if liveWhole && seen[sr.ev] != 1 {
						verifrt.Logf("FAIL missed %s ## listener %d was live for the whole Send(%s) (listen@%d < send@[%d,%d] < cancel@%d) but received %v", name, i, sr.ev, r.listenDone, sr.inv, sr.ret, r.cancelInv, r.got)
					}
				}
			}
			outs = append(outs, fmt.Sprintf("L%d=%s", i, strings.Join(r.got, "")))
		}
		verifrt.Logf("OUT %s", strings.Join(outs, " "))
	}
}

// busStalledBody: a listener that stopped receiving without hanging up stands first in line; the sender's patience
// (its context) runs out while it waits there. The listeners behind it are ready: the event is theirs all the same -
// a consumer that stops receiving costs the others nothing but the wait.
func busStalledBody(name string, healthy int) func() {
	return func() {
		bus := &minibus.Bus{}
		sctx, scancel := context.WithCancel(context.Background())
		stalled := bus.Listen(sctx)
		got := make([][]string, healthy)
		var ctxs []context.CancelFunc
		for i := 0; i < healthy; i++ {
			i := i
			ctx, cancel := context.WithCancel(context.Background())
			ctxs = append(ctxs, cancel)
			ch := bus.Listen(ctx)
			go func() {
				for e := range ch {
					got[i] = append(got[i], e.(string))
				}
			}()
		}
		tctx, tcancel := context.WithTimeout(context.Background(), time.Second) // virtual: ends when nothing else can move
		bus.Send(tctx, "a")
		tcancel()
		verifrt.WaitIdle()
		for i := range got {
			if len(got[i]) != 1 || got[i][0] != "a" {
				verifrt.Logf("FAIL missed-behind-stalled %s ## healthy listener %d (registered behind a stalled one, live for the whole send) received %v", name, i, got[i])
			}
		}
		scancel()
		for _, c := range ctxs {
			c()
		}
		verifrt.WaitIdle()
		if a := verifrt.Alive(); len(a) > 0 {
			verifrt.Logf("FAIL goroutine-left %s ## %v", name, a)
		}
		_ = stalled
		verifrt.Logf("OUT %v", got)
	}
}

// drainClosed: called by the root at quiescence: is the channel closed (after
// discarding anything still deliverable)?
func drainClosed[T any](ch <-chan T) bool {
	for {
		select {
		case _, ok := <-ch:
			if !ok {
				return true
			}
		default:
			return false
		}
	}
}

// ---------------------------------------------------------------- harness B: resources

type subSpec struct {
	kind         string // value | coll | id
	backpressure bool
	updatesOnly  bool
	abandon      int // consumer stops receiving after this many events, then cancels; -1: keeps receiving
	cancel       bool
	// lastLook: a consumer that abandons its subscription reads the resource once more (a last look at where things
	// stand) BEFORE it cancels: the cancel is its to make whatever the writers are in the middle of
	lastLook bool
}

func (s subSpec) String() string {
	n := fmt.Sprintf("%s[bp=%v,uo=%v,abandon=%d,cancel=%v]", s.kind, s.backpressure, s.updatesOnly, s.abandon, s.cancel)
	if s.lastLook {
		n += "+reads the resource before it cancels"
	}
	return n
}

func resBody(name string, kind string, writes []string, subs []subSpec) func() {
	return func() {
		// Go's RWMutex: a writer waiting in Lock keeps new readers out. With that modelled, a reader that takes the
		// read lock a second time while a writer has announced itself is the deadlock it is in Go. (The bus
		// scenarios keep the plain model: their only read-write lock is never taken twice by one thread.)
		verifrt.SetWriterPreference(true)
		defer verifrt.SetWriterPreference(false)
		var val *resource.Value
		var col *resource.Collection
		if kind == "value" {
			val = resource.NewValue(resource.WithInitialValue(msg(0)))
		} else if kind == "coll-nodup" {
			// with an equivalence the subscription keeps track of what it sent: a removal is never "nothing new"
			col = resource.NewCollection(resource.WithNoDuplicates(), resource.WithInitialRecord("a", msg(0)))
		} else {
			col = resource.NewCollection(resource.WithInitialRecord("a", msg(0)))
		}
		n := len(subs)
		cancels := make([]context.CancelFunc, n)
		closed := make([]bool, n)
		counts := make([]int, n)
		subAt := make([]int64, n) // stamp taken once the Pull call has returned
		probes := make([]func() bool, n)
		var delAt int64 // stamp taken just before the (first) Delete
		var consumers sync.WaitGroup
		for i, sp := range subs {
			i, sp := i, sp
			ctx, cancel := context.WithCancel(context.Background())
			cancels[i] = cancel
			opts := []resource.ReadOption{resource.WithBackpressure(sp.backpressure), resource.WithUpdatesOnly(sp.updatesOnly)}
			consumers.Add(1)
			go func() {
				defer consumers.Done()
				left := sp.abandon
				var vch <-chan *resource.ValueChange
				var cch <-chan *resource.CollectionChange
				switch sp.kind {
				case "value":
					vch = val.Pull(ctx, opts...)
				case "coll":
					cch = col.Pull(ctx, opts...)
				case "id":
					vch = col.PullID(ctx, "a", opts...)
				}
				subAt[i] = verifrt.Stamp()
				probes[i] = func() bool {
					if vch != nil {
						return drainClosed(vch)
					}
					return drainClosed(cch)
				}
				for {
					if left == 0 {
						if sp.lastLook && val != nil {
							val.Get()
						} else if sp.lastLook {
							col.List()
						}
						cancel() // lost interest: cancel and stop receiving
						return
					}
					var ok bool
					if vch != nil {
						_, ok = <-vch
					} else {
						_, ok = <-cch
					}
					if !ok {
						closed[i] = true
						// (a single-item subscription also ends when its item is removed) a well
						// behaved caller releases the subscription once its channel is closed -
						// unless the scenario says it forgets to (abandon == -2)
						if sp.abandon != -2 {
							cancel()
						}
						return
					}
					counts[i]++
					if left > 0 {
						left--
					}
				}
			}()
			if sp.cancel {
				go func() { cancel() }()
			}
		}
		var ww sync.WaitGroup
		ww.Add(1)
		var werr []string
		go func() {
			defer ww.Done()
			for k, w := range writes {
				var err error
				switch w {
				case "set":
					_, err = val.Set(msg(k + 1))
				case "upd":
					_, err = col.Update("a", msg(k+1), resource.WithCreateIfAbsent())
				case "updb":
					_, err = col.Update("b", msg(k+1), resource.WithCreateIfAbsent())
				case "del":
					if delAt == 0 {
						delAt = verifrt.Stamp()
					}
					_, err = col.Delete("a", resource.WithAllowMissing(true))
				}
				if err != nil {
					werr = append(werr, fmt.Sprintf("%s:%v", w, err))
				}
			}
		}()
		ww.Wait() // a writer stalled for good is reported as a deadlock
		removed := false
		if col != nil {
			_, ok := col.Get("a")
			removed = !ok
		}
		verifrt.WaitIdle()
		for i, sp := range subs {
			if sp.kind == "id" && removed && !closed[i] && (sp.abandon == -1 || sp.abandon == -2) && subAt[i] != 0 && subAt[i] < delAt {
				verifrt.Logf("FAIL id-not-closed %s ## item removed and consumer still receiving, but the PullID channel did not close", name)
			}
		}
		for i := range subs {
			cancels[i]()
		}
		verifrt.WaitIdle()
		if a := verifrt.Alive(); len(a) > 0 {
			verifrt.Logf("FAIL goroutine-left %s ## every subscription context is cancelled and nothing can move, yet these threads never ended: %v", name, a)
			return
		}
		for i := range subs {
			if !closed[i] && probes[i] != nil {
				closed[i] = probes[i]()
			}
			if !closed[i] {
				verifrt.Logf("FAIL not-closed %s ## subscription %d: channel not closed after cancel", name, i)
			}
		}
		if len(werr) > 0 {
			verifrt.Logf("FAIL write-error %s ## writes failed although no virtual timer fired: %v", name, werr)
		}
		verifrt.Logf("OUT counts=%v fired=%d", counts, verifrt.FiredTimers())
	}
}

// lostRaceBody: two writers at once (one of them may lose the race for the resource and come back Aborted), then the
// resource is used like on any other day: a subscription opens, gets its seed, is cancelled and closes; one more write
// goes through. Whatever a write that did not take place held while it tried is released.
func lostRaceBody(name string, coll bool) func() {
	return func() {
		var val *resource.Value
		var col *resource.Collection
		write := func(k int) error {
			var err error
			if coll {
				_, err = col.Update("a", msg(k))
			} else {
				_, err = val.Set(msg(k))
			}
			return err
		}
		if coll {
			col = resource.NewCollection(resource.WithInitialRecord("a", msg(0)))
		} else {
			val = resource.NewValue(resource.WithInitialValue(msg(0)))
		}
		var wg sync.WaitGroup
		errs := make([]error, 2)
		for w := 0; w < 2; w++ {
			w := w
			wg.Add(1)
			go func() { defer wg.Done(); errs[w] = write(w + 1) }()
		}
		wg.Wait()
		ctx, cancel := context.WithCancel(context.Background())
		seeded, closed := false, false
		var probe func() bool
		if coll {
			ch := col.Pull(ctx, resource.WithBackpressure(true))
			probe = func() bool { return drainClosed(ch) }
			_, seeded = <-ch
		} else {
			ch := val.Pull(ctx, resource.WithBackpressure(true))
			probe = func() bool { return drainClosed(ch) }
			_, seeded = <-ch
		}
		cancel()
		verifrt.WaitIdle()
		closed = probe()
		if !seeded || !closed {
			verifrt.Logf("FAIL after-lost-race %s ## after two concurrent writes (%v, %v) a new subscription: seeded=%v, closed after cancel=%v", name, errs[0], errs[1], seeded, closed)
		}
		if err := write(9); err != nil {
			verifrt.Logf("FAIL after-lost-race-write %s ## a write after two concurrent writes (%v, %v) returned %v", name, errs[0], errs[1], err)
		}
		verifrt.WaitIdle()
		if a := verifrt.Alive(); len(a) > 0 {
			verifrt.Logf("FAIL goroutine-left %s ## %v", name, a)
		}
		verifrt.Logf("OUT errs=%v,%v", errs[0] != nil, errs[1] != nil)
	}
}

// ---------------------------------------------------------------- harness C: a trait model's forwarder

// modelKind: one trait model seen as "open a Pull, receive from it, write to it"
type modelKind struct {
	name string
	// open subscribes; next receives one change (false: channel closed); drained tells whether the channel is closed
	open func(ctx context.Context, backpressure bool) (next func() bool, drained func() bool, write func(k int) error)
}

var modelKinds = []modelKind{
	{"onoff", func(ctx context.Context, bp bool) (func() bool, func() bool, func(int) error) {
		m := onoffpb.NewModel()
		var ch <-chan onoffpb.PullOnOffChange
		return func() bool {
				if ch == nil {
					ch = m.PullOnOff(ctx, resource.WithBackpressure(bp))
				}
				_, ok := <-ch
				return ok
			}, func() bool { return ch == nil || drainClosed(ch) }, func(k int) error {
				st := traits.OnOff_ON
				if k%2 == 1 {
					st = traits.OnOff_OFF
				}
				_, err := m.UpdateOnOff(&traits.OnOff{State: st})
				return err
			}
	}},
	{"press", func(ctx context.Context, bp bool) (func() bool, func() bool, func(int) error) {
		m := presspb.NewModel(traits.PressedState_UNPRESSED)
		var ch <-chan presspb.PullPressedStateChange
		return func() bool {
				if ch == nil {
					ch = m.PullPressedState(ctx, resource.WithBackpressure(bp))
				}
				_, ok := <-ch
				return ok
			}, func() bool { return ch == nil || drainClosed(ch) }, func(k int) error {
				st := traits.PressedState_PRESSED
				if k%2 == 1 {
					st = traits.PressedState_UNPRESSED
				}
				_, err := m.UpdatePressedState(&traits.PressedState{State: st})
				return err
			}
	}},
}

func modelBody(name string, kind modelKind, abandon int, backpressure bool) func() {
	return func() {
		ctx, cancel := context.WithCancel(context.Background())
		next, drained, write := kind.open(ctx, backpressure)
		closed := false
		opened := false
		go func() {
			left := abandon
			for {
				if left == 0 && opened {
					cancel() // lost interest: cancel and stop receiving
					return
				}
				ok := next()
				opened = true
				if !ok {
					closed = true
					return
				}
				if left > 0 {
					left--
				}
			}
		}()
		var ww sync.WaitGroup
		ww.Add(1)
		go func() {
			defer ww.Done()
			for k := 0; k < 2; k++ {
				if err := write(k); err != nil {
					verifrt.Logf("FAIL write-error %s ## %v", name, err)
				}
			}
		}()
		go func() { cancel() }()
		ww.Wait()
		cancel()
		verifrt.WaitIdle()
		if a := verifrt.Alive(); len(a) > 0 {
			verifrt.Logf("FAIL goroutine-left %s ## the Pull context is cancelled and nothing can move, yet these threads never ended: %v", name, a)
			return
		}
		if !closed {
			closed = drained()
		}
		if !closed {
			verifrt.Logf("FAIL not-closed %s ## channel not closed after cancel", name)
		}
		verifrt.Logf("OUT done")
	}
}

var _ = proto.Equal
var _ = sort.Strings

func main() {
	h := hx.New("C10")
	bus := func(name string, q, t int, senders [][]string, ls ...lspec) {
		h.Sched("bus/"+name, q, t, busBody("bus/"+name, senders, ls), hx.StdOracle)
	}
	live := lspec{pre: true, abandon: -1}
	bus("1s2e-1l-cancel", -1, -1, [][]string{{"a", "b"}}, lspec{pre: true, cancel: true, abandon: -1})
	bus("1s2e-live+cancel", -1, -1, [][]string{{"a", "b"}}, live, lspec{pre: true, cancel: true, abandon: -1})
	bus("2s1e-live+cancel", -1, -1, [][]string{{"a"}, {"x"}}, live, lspec{pre: true, cancel: true, abandon: -1})
	bus("1s2e-late-listen-cancel", -1, -1, [][]string{{"a", "b"}}, lspec{pre: false, cancel: true, abandon: -1})
	bus("1s2e-late-listen+live", -1, -1, [][]string{{"a", "b"}}, live, lspec{pre: false, abandon: -1})
	bus("1s2e-abandon1+live", -1, -1, [][]string{{"a", "b"}}, lspec{pre: true, abandon: 1}, live)
	bus("1s2e-abandon0", -1, -1, [][]string{{"a", "b"}}, lspec{pre: true, abandon: 0})
	// a listener that registers while a Send is collecting a cancelled one must stay registered
	bus("1s3e-cancel+late-listen", -1, -1, [][]string{{"a", "b", "c"}}, lspec{pre: true, cancel: true, abandon: -1}, lspec{pre: false, abandon: -1})
	bus("2s2e-cancel+late-listen", -2, -1, [][]string{{"a", "b"}, {"x", "y"}}, lspec{pre: true, cancel: true, abandon: -1}, lspec{pre: false, abandon: -1})
	bus("1s3e-live+cancel", -2, -1, [][]string{{"a", "b", "c"}}, live, lspec{pre: true, cancel: true, abandon: -1})
	bus("2s2e-live+cancel", -2, -1, [][]string{{"a", "b"}, {"x", "y"}}, live, lspec{pre: true, cancel: true, abandon: -1})
	bus("1s2e-3listeners", -2, -1, [][]string{{"a", "b"}}, live, lspec{pre: true, cancel: true, abandon: -1}, lspec{pre: false, abandon: 1})
	bus("2s1e-2cancel", -2, -1, [][]string{{"a"}, {"x"}}, lspec{pre: true, cancel: true, abandon: -1}, lspec{pre: true, cancel: true, abandon: -1})
	// the unbounded schedule space of this one is beyond any budget (> 10^7 executions): every schedule with at
	// most one preemption, and the smaller sibling above without a bound
	bus("2s2e-2cancel", -2, 1, [][]string{{"a", "b"}, {"x", "y"}}, lspec{pre: true, cancel: true, abandon: -1}, lspec{pre: true, cancel: true, abandon: -1})

	for _, n := range []int{1, 2} {
		name := fmt.Sprintf("bus/stalled-first+%d-healthy/send with a deadline", n)
		h.Sched(name, -1, -1, busStalledBody(name, n), hx.StdOracle)
	}
	res := func(kind string, q, t int, writes []string, subs ...subSpec) {
		var ss []string
		for _, s := range subs {
			ss = append(ss, s.String())
		}
		name := fmt.Sprintf("%s/%s/%s", kind, strings.Join(writes, ","), strings.Join(ss, "+"))
		h.Sched(name, q, t, resBody(name, kind, writes, subs), hx.StdOracle)
	}
	for _, bp := range []bool{true, false} {
		for _, uo := range []bool{true, false} {
			res("coll-nodup", -1, -1, []string{"del"}, subSpec{kind: "id", backpressure: bp, updatesOnly: uo, abandon: -1})
			res("coll-nodup", -1, -1, []string{"upd", "del"}, subSpec{kind: "id", backpressure: bp, updatesOnly: uo, abandon: -1})
		}
		res("value", -1, -1, []string{"set", "set"}, subSpec{kind: "value", backpressure: bp, abandon: -1, cancel: true})
		res("value", -1, -1, []string{"set", "set"}, subSpec{kind: "value", backpressure: bp, abandon: 1})
		res("value", -1, -1, []string{"set"}, subSpec{kind: "value", backpressure: bp, abandon: -1, cancel: true}, subSpec{kind: "value", backpressure: !bp, updatesOnly: true, abandon: 0})
		res("coll", -1, -1, []string{"upd", "del"}, subSpec{kind: "coll", backpressure: bp, abandon: -1, cancel: true})
		res("coll", -1, -1, []string{"upd", "updb"}, subSpec{kind: "coll", backpressure: bp, abandon: 1})
		res("coll", -1, -1, []string{"upd", "upd", "del"}, subSpec{kind: "coll", backpressure: bp, updatesOnly: true, abandon: 1, lastLook: true})
		res("coll", -1, -1, []string{"upd", "upd", "upd"}, subSpec{kind: "id", backpressure: bp, updatesOnly: true, abandon: 1, lastLook: true})
		res("value", -1, -1, []string{"set", "set", "set"}, subSpec{kind: "value", backpressure: bp, updatesOnly: true, abandon: 1, lastLook: true})
		res("coll", -1, -1, []string{"upd", "del"}, subSpec{kind: "id", backpressure: bp, abandon: -1})
		res("coll", -1, -1, []string{"upd"}, subSpec{kind: "id", backpressure: bp, abandon: -1, cancel: true})
		res("coll", -1, -1, []string{"del", "upd"}, subSpec{kind: "id", backpressure: bp, updatesOnly: true, abandon: -1})
		// the item is removed, the subscription ends, the caller does not cancel: later writes must not stall
		res("coll", -1, -1, []string{"del", "updb", "updb"}, subSpec{kind: "id", backpressure: bp, abandon: -2})
	}
	for _, bp := range []bool{true, false} {
		res("value", -2, -1, []string{"set", "set", "set"}, subSpec{kind: "value", backpressure: bp, abandon: -1, cancel: true})
		res("value", -2, -1, []string{"set", "set"}, subSpec{kind: "value", backpressure: bp, abandon: -1, cancel: true}, subSpec{kind: "value", backpressure: !bp, abandon: 1})
		res("coll", -2, -1, []string{"upd", "updb", "del"}, subSpec{kind: "coll", backpressure: bp, abandon: -1, cancel: true})
		res("coll", -2, -1, []string{"upd", "del", "upd"}, subSpec{kind: "id", backpressure: bp, abandon: -1}, subSpec{kind: "coll", backpressure: !bp, abandon: 1})
	}
	for _, coll := range []bool{false, true} {
		name := fmt.Sprintf("two concurrent writes, then subscribe, cancel, write/collection=%v", coll)
		h.Sched(name, -1, -1, lostRaceBody(name, coll), hx.StdOracle)
	}
	for _, kind := range modelKinds {
		for _, bp := range []bool{true, false} {
			for _, ab := range []int{-1, 0, 1} {
				name := fmt.Sprintf("model/%s/bp=%v,abandon=%d", kind.name, bp, ab)
				h.Sched(name, -1, -1, modelBody(name, kind, ab, bp), hx.StdOracle)
			}
		}
	}
	registerGeneric(h)
	h.Run()
}
