// C06 — reads return exactly the read-mask projection and never mutate; corrupted
// masks are reported invalid and never make a read panic. Exhaustive over a
// message catalogue x mask catalogue, through ResponseFilter, Value.Get,
// Collection.Get/List and Pull (new and old values).
package main

import (
	"context"
	"fmt"
	"github.com/smart-core-os/sc-api/go/traits"
	"github.com/smart-core-os/sc-api/go/types"
	"google.golang.org/protobuf/encoding/protowire"
	"google.golang.org/protobuf/types/known/timestamppb"
	"strings"
	"time"

	"google.golang.org/protobuf/proto"
	"google.golang.org/protobuf/types/known/fieldmaskpb"

	"github.com/smart-core-os/sc-golang/pkg/masks"
	"github.com/smart-core-os/sc-golang/pkg/resource"
	lib "github.com/smart-core-os/sc-golang/verif_h/lib"
	"verifrt/hx"
)

type mcase struct {
	Msg   int
	Paths []string // nil = nil mask
	Nil   bool
	Bad   bool // corrupted mask: must be reported invalid, must not panic
	Via   string
}

func (c mcase) mask() *fieldmaskpb.FieldMask {
	if c.Nil {
		return nil
	}
	return &fieldmaskpb.FieldMask{Paths: append([]string{}, c.Paths...)}
}

func (c mcase) key() string {
	m := "nil"
	if !c.Nil {
		m = "{" + strings.Join(c.Paths, ",") + "}"
	}
	return fmt.Sprintf("%s mask=%s", c.Via, m)
}

// the shared catalogue plus one message that carries fields this program does not know (written by a newer
// client): a read mask selects known fields, so what is not known is not selected
var cat = func() []*lib.T {
	c := lib.Catalogue()
	u := proto.Clone(c[len(c)-1]).(*lib.T)
	u.ProtoReflect().SetUnknown(protowire.AppendVarint(protowire.AppendTag(nil, 9000, protowire.VarintType), 7))
	if u.DefaultNestedMessage != nil {
		u.DefaultNestedMessage.ProtoReflect().SetUnknown(protowire.AppendVarint(protowire.AppendTag(nil, 9001, protowire.VarintType), 8))
	}
	// ... and messages that carry them at ONE level only: below a level that has none (nested message; the message
	// nested in that), and at the top only
	last := c[len(c)-1]
	n1 := proto.Clone(last).(*lib.T)
	if n1.DefaultNestedMessage != nil {
		n1.DefaultNestedMessage.ProtoReflect().SetUnknown(protowire.AppendVarint(protowire.AppendTag(nil, 9001, protowire.VarintType), 8))
	}
	n2 := proto.Clone(last).(*lib.T)
	if n2.DefaultNestedMessage.GetCorecursive() != nil {
		n2.DefaultNestedMessage.Corecursive.ProtoReflect().SetUnknown(protowire.AppendVarint(protowire.AppendTag(nil, 9002, protowire.VarintType), 9))
	}
	n3 := proto.Clone(last).(*lib.T)
	n3.ProtoReflect().SetUnknown(protowire.AppendVarint(protowire.AppendTag(nil, 9000, protowire.VarintType), 7))
	return append(c, u, n1, n2, n3)
}()

func guarded(f func()) (p any) {
	defer func() { p = recover() }()
	f()
	return nil
}

func same(a, b proto.Message) bool { return proto.Equal(a, b) }

func check(c mcase, fail func(key, msg string)) {
	msg := proto.Clone(cat[c.Msg])
	orig := proto.Clone(msg)
	mask := c.mask()
	maskCopy := proto.Clone(mask)
	want := lib.Project(orig, mask)
	k := c.key()
	report := func(clause, detail string) { fail(clause+" "+k, fmt.Sprintf("%s (message #%d)", detail, c.Msg)) }
	compare := func(what string, got proto.Message) {
		if c.Bad {
			return
		}
		if !same(got, want) {
			report("projection", fmt.Sprintf("%s returned %v, the projection is %v", what, got, want))
		}
	}
	unchanged := func(what string) {
		if !same(msg, orig) {
			report("mutated-message", fmt.Sprintf("%s changed the message it was given / the stored message: %v -> %v", what, orig, msg))
			msg = proto.Clone(orig)
		}
		if mask != nil && !proto.Equal(mask, maskCopy) {
			report("mutated-mask", what+" changed the mask")
		}
	}
	switch c.Via {
	case "filter":
		rf := masks.NewResponseFilter(masks.WithFieldMask(mask))
		var verr error
		if p := guarded(func() { verr = rf.Validate(msg) }); p != nil {
			report("panic", fmt.Sprintf("Validate panicked: %v", p))
		}
		if c.Bad && verr == nil {
			report("not-reported-invalid", "Validate accepted a corrupted mask")
		}
		if !c.Bad && verr != nil {
			report("valid-mask-rejected", fmt.Sprintf("Validate rejected a valid mask: %v", verr))
		}
		var got proto.Message
		if p := guarded(func() { got = rf.FilterClone(msg) }); p != nil {
			report("panic", fmt.Sprintf("FilterClone panicked: %v", p))
		} else {
			compare("FilterClone", got)
			unchanged("FilterClone")
			if mask != nil && got == msg {
				report("not-cloned", "FilterClone with a mask returned the message itself")
			}
		}
		cl := proto.Clone(msg)
		if p := guarded(func() { rf.Filter(cl) }); p != nil {
			report("panic", fmt.Sprintf("Filter panicked: %v", p))
		} else {
			compare("Filter", cl)
		}
		// one filter serves a whole List or Pull: what it has been applied to before (another type of message, for
		// which the mask may be valid where it is not for this one, or the other way round) is no business of
		// the next message's projection
		for _, other := range []proto.Message{&traits.OnOff{State: traits.OnOff_ON}, &types.AudioLevel{Gain: 3, Muted: true}} {
			f2 := masks.NewResponseFilter(masks.WithFieldMask(mask))
			if p := guarded(func() { f2.FilterClone(other); f2.Filter(proto.Clone(other)) }); p != nil {
				report("panic", fmt.Sprintf("FilterClone / Filter of a %T panicked: %v", other, p))
				continue
			}
			if p := guarded(func() { got = f2.FilterClone(msg) }); p != nil {
				report("panic", fmt.Sprintf("FilterClone panicked on a filter that had been applied to a %T before: %v", other, p))
				continue
			}
			compare(fmt.Sprintf("FilterClone (filter applied to a %T before)", other), got)
		}
		for _, other := range []proto.Message{&traits.OnOff{State: traits.OnOff_ON}, &types.AudioLevel{Gain: 3, Muted: true}} {
			// ... and the other order: this message first, then one of a type the mask may not fit
			f3 := masks.NewResponseFilter(masks.WithFieldMask(mask))
			f3.FilterClone(msg)
			fresh := masks.NewResponseFilter(masks.WithFieldMask(mask))
			var a, b proto.Message
			if p := guarded(func() { a = f3.FilterClone(other) }); p != nil {
				report("panic", fmt.Sprintf("FilterClone of a %T panicked on a filter applied to this message before: %v", other, p))
				continue
			}
			if p := guarded(func() { b = fresh.FilterClone(other) }); p == nil && !same(a, b) {
				report("projection", fmt.Sprintf("a filter applied to this message first projects a %T to %v, a fresh filter to %v", other, a, b))
			}
		}
	case "value":
		v := resource.NewValue(resource.WithInitialValue(msg))
		var got proto.Message
		if p := guarded(func() { got = v.Get(resource.WithReadMask(mask)) }); p != nil {
			report("panic", fmt.Sprintf("Value.Get panicked: %v", p))
			return
		}
		compare("Value.Get", got)
		unchanged("Value.Get")
		if mask != nil {
			// a mask OBJECT its owner used for an earlier read, with other paths then: a read goes by what the mask
			// says now (a caller may keep one mask message and rewrite its paths from request to request)
			m2 := &fieldmaskpb.FieldMask{Paths: []string{"default_int32"}}
			_ = v.Get(resource.WithReadMask(m2))
			masks.NewResponseFilter(masks.WithFieldMask(m2)).FilterClone(msg)
			m2.Paths = append([]string{}, mask.Paths...)
			if p := guarded(func() { got = v.Get(resource.WithReadMask(m2)) }); p != nil {
				report("panic", fmt.Sprintf("Value.Get panicked: %v", p))
				return
			}
			compare("Value.Get(a mask object used before with other paths)", got)
			if p := guarded(func() { got = masks.NewResponseFilter(masks.WithFieldMask(m2)).FilterClone(msg) }); p == nil {
				compare("FilterClone(a mask object used before with other paths)", got)
			}
		}
		// an option given twice: the later one counts, as with every option - also when the later one is "no mask"
		// (a wrapper that sets its own default projection and then hands on the request's mask, nil included)
		for _, earlier := range []resource.ReadOption{resource.WithReadPaths(&lib.T{}, "default_int32"), resource.WithReadMask(&fieldmaskpb.FieldMask{}), resource.WithReadMask(nil)} {
			if p := guarded(func() { got = v.Get(earlier, resource.WithReadMask(mask)) }); p != nil {
				report("panic", fmt.Sprintf("Value.Get panicked: %v", p))
				return
			}
			compare("Value.Get(another read mask option, then this read mask)", got)
		}
		if !same(v.Get(), orig) {
			report("mutated-store", "Value.Get with a read mask changed the stored value")
		}
	case "collection":
		col := resource.NewCollection(resource.WithInitialRecord("a", msg), resource.WithInitialRecord("b", proto.Clone(cat[(c.Msg+1)%len(cat)])))
		var got proto.Message
		var list []proto.Message
		if p := guarded(func() { got, _ = col.Get("a", resource.WithReadMask(mask)) }); p != nil {
			report("panic", fmt.Sprintf("Collection.Get panicked: %v", p))
			return
		}
		compare("Collection.Get", got)
		for _, earlier := range []resource.ReadOption{resource.WithReadPaths(&lib.T{}, "default_int32"), resource.WithReadMask(&fieldmaskpb.FieldMask{})} {
			if p := guarded(func() { got, _ = col.Get("a", earlier, resource.WithReadMask(mask)) }); p != nil {
				report("panic", fmt.Sprintf("Collection.Get panicked: %v", p))
				return
			}
			compare("Collection.Get(another read mask option, then this read mask)", got)
			if p := guarded(func() { list = col.List(earlier, resource.WithReadMask(mask)) }); p == nil && len(list) == 2 {
				compare("Collection.List(another read mask option, then this read mask)[0]", list[0])
			}
		}
		if p := guarded(func() { list = col.List(resource.WithReadMask(mask)) }); p != nil {
			report("panic", fmt.Sprintf("Collection.List panicked: %v", p))
			return
		}
		if len(list) != 2 {
			report("list-length", fmt.Sprintf("List returned %d items", len(list)))
		} else {
			compare("Collection.List[0]", list[0])
		}
		// a read that selects items (include) AND fields (read mask): the predicate speaks about the stored item, the
		// mask about what is shown of it - an item chosen for a field the mask leaves out is returned all the same
		hasString := func(id string, item proto.Message) bool {
			t, _ := item.(*lib.T)
			return id == "a" && t != nil && (t.DefaultString != "" || t.DefaultInt32 != 0 || t.DefaultNestedMessage != nil)
		}
		wantIn := hasString("a", orig)
		var sel []proto.Message
		if p := guarded(func() { sel = col.List(resource.WithReadMask(mask), resource.WithInclude(hasString)) }); p != nil {
			report("panic", fmt.Sprintf("Collection.List(include, mask) panicked: %v", p))
			return
		}
		if wantIn && len(sel) != 1 {
			report("list-include-and-mask", fmt.Sprintf("List with an include predicate the stored item a satisfies and this read mask returned %d items", len(sel)))
		} else if wantIn {
			compare("Collection.List(include)[0]", sel[0])
		} else if len(sel) != 0 {
			report("list-include-and-mask", fmt.Sprintf("List returned %d items, the predicate selects none", len(sel)))
		}
		unchanged("Collection.Get/List")
		if m, _ := col.Get("a"); !same(m, orig) {
			report("mutated-store", "Collection reads with a read mask changed the stored item")
		}
	case "pull":
		// seed (stored value), then one update: new and old value are both projected
		if c.Bad {
			return // a Pull with a corrupted mask is covered through its building block (filter)
		}
		defer func() {
			if p := recover(); p != nil {
				ne, ok := p.(noEvent)
				if !ok {
					panic(p)
				}
				report("no-event", ne.what+" never arrived")
			}
		}()
		next := proto.Clone(cat[(c.Msg+5)%len(cat)])
		wantNext := lib.Project(next, mask)
		ctx, cancel := context.WithCancel(context.Background())
		defer cancel()
		v := resource.NewValue(resource.WithInitialValue(msg))
		ch := v.Pull(ctx, resource.WithReadMask(mask), resource.WithBackpressure(true))
		seed := recvV(ch, "the seed of the masked Value.Pull")
		compare("Value.Pull seed", seed.Value)
		unchanged("Value.Pull seed")
		{
			ctx0, cancel0 := context.WithCancel(context.Background())
			ch0 := v.Pull(ctx0, resource.WithReadPaths(&lib.T{}, "default_int32"), resource.WithReadMask(mask), resource.WithBackpressure(true))
			seed0 := recvV(ch0, "the seed of the masked Value.Pull")
			cancel0()
			compare("Value.Pull(another read mask option, then this read mask) seed", seed0.Value)
		}
		// a second subscriber without a mask, registered later: what the first one is shown is its own business
		chAll := v.Pull(ctx, resource.WithBackpressure(true))
		if seedAll := recvV(chAll, "the seed of the unmasked Value.Pull"); !same(seedAll.Value, orig) {
			report("projection", fmt.Sprintf("an unmasked Value.Pull next to a masked one is seeded with %v, stored is %v", seedAll.Value, orig))
		}
		go v.Set(proto.Clone(next))
		ev := recvV(ch, "the event of the masked Value.Pull")
		if !same(ev.Value, wantNext) {
			report("projection", fmt.Sprintf("Value.Pull event carries %v, the projection is %v", ev.Value, wantNext))
		}
		if evAll := recvV(chAll, "the event of the unmasked Value.Pull"); !same(evAll.Value, next) {
			report("projection", fmt.Sprintf("an unmasked Value.Pull next to a masked one receives %v, written was %v", evAll.Value, next))
		}
		if !same(ev.Value, wantNext) {
			report("projection", fmt.Sprintf("after the other subscriber received the event too, the masked Value.Pull event reads %v, the projection is %v", ev.Value, wantNext))
		}
		cancel()
		ctx2, cancel2 := context.WithCancel(context.Background())
		defer cancel2()
		col := resource.NewCollection(resource.WithInitialRecord("a", proto.Clone(orig)))
		cch := col.Pull(ctx2, resource.WithReadMask(mask), resource.WithBackpressure(true))
		cs := recvC(cch, "the seed of the masked Collection.Pull")
		compare("Collection.Pull seed", cs.NewValue)
		cchAll := col.Pull(ctx2, resource.WithBackpressure(true))
		recvC(cchAll, "the seed of the unmasked Collection.Pull")
		go col.Update("a", proto.Clone(next))
		ce := recvC(cch, "the event of the masked Collection.Pull")
		if ceAll := recvC(cchAll, "the event of the unmasked Collection.Pull"); !same(ceAll.NewValue, next) || !same(ceAll.OldValue, orig) {
			report("projection", fmt.Sprintf("an unmasked Collection.Pull next to a masked one receives %v -> %v, written was %v -> %v", ceAll.OldValue, ceAll.NewValue, orig, next))
		}
		if !same(ce.NewValue, wantNext) {
			report("projection", fmt.Sprintf("Collection.Pull event new value %v, the projection is %v", ce.NewValue, wantNext))
		}
		if !same(ce.OldValue, want) {
			report("projection", fmt.Sprintf("Collection.Pull event old value %v, the projection is %v", ce.OldValue, want))
		}
		if m, _ := col.Get("a"); !same(m, next) {
			report("mutated-store", "Collection.Pull with a read mask changed the stored item")
		}
		if !same(orig, next) {
			// the masked subscriber next to a neighbour, registered first, that SELECTS items (include) and for which
			// this update takes the item out of its selection: what the neighbour is told (a removal) is its own
			// affair - the masked subscriber receives the update, old and new value projected. (The masked subscriber
			// reads its seed only after the neighbour has its event: by then the neighbour has made of the change
			// whatever it makes of it.)
			ctx3, cancel3 := context.WithCancel(context.Background())
			defer cancel3()
			col3 := resource.NewCollection(resource.WithInitialRecord("a", proto.Clone(orig)))
			nb := col3.Pull(ctx3, resource.WithBackpressure(true), resource.WithInclude(func(id string, m proto.Message) bool { return same(m, orig) }))
			recvC(nb, "the seed of the selecting neighbour")
			mch := col3.Pull(ctx3, resource.WithReadMask(mask), resource.WithBackpressure(true))
			go col3.Update("a", proto.Clone(next))
			nbEv := recvC(nb, "the event of the selecting neighbour")
			if nbEv.ChangeType != types.ChangeType_REMOVE {
				report("include", fmt.Sprintf("a subscriber selecting the items equal to %v is told %v when the item becomes %v", orig, nbEv.ChangeType, next))
			}
			recvC(mch, "the seed of the masked Collection.Pull next to the neighbour")
			me := recvC(mch, "the event of the masked Collection.Pull next to the neighbour")
			if me.ChangeType != types.ChangeType_UPDATE || !same(me.NewValue, wantNext) || !same(me.OldValue, want) {
				report("projection", fmt.Sprintf("next to a selecting neighbour the masked Collection.Pull receives %v %v -> %v, the projections of the update are UPDATE %v -> %v", me.ChangeType, me.OldValue, me.NewValue, want, wantNext))
			}
		}
	}
}

// recvV / recvC: a receive that gives up after a long while. On the unchanged tree every event of these histories is
// there within microseconds; a changed tree that never delivers one is a violation to report, not a worker to lose.
type noEvent struct{ what string }

// patience: half a minute for the first event that does not come; once one has been given up on (the tree under test is
// convicted by then) the later ones are given two seconds, so that the run ends.
var gaveUp bool

func patience() time.Duration {
	if gaveUp {
		return 2 * time.Second
	}
	return 30 * time.Second
}

func recvV(ch <-chan *resource.ValueChange, what string) *resource.ValueChange {
	select {
	case v, ok := <-ch:
		if ok {
			return v
		}
	case <-time.After(patience()):
	}
	gaveUp = true
	panic(noEvent{what})
}

func recvC(ch <-chan *resource.CollectionChange, what string) *resource.CollectionChange {
	select {
	case v, ok := <-ch:
		if ok {
			return v
		}
	case <-time.After(patience()):
	}
	gaveUp = true
	panic(noEvent{what})
}

func corrupt() [][]string {
	var out [][]string
	add := func(p ...string) { out = append(out, p) }
	add("nope")
	add("default_nested_message.nope")
	add("default_nested_message.nope.a")
	add("default_int32.x")
	add("default_string.a")
	add("map_string_string.k")
	add("map_string_string.k.v")
	add("repeated_int32.x")
	add("repeated_int32.0")
	add("repeated_nested_message.a")
	add("repeated_nested_message.nope")
	add("default_nested_message..a")
	add("")
	add("default_int32", "repeated_int32.x")
	add("default_well_known.default_timestamp.seconds.x")
	add("oneof_default_int32.y")
	// a corrupted path next to one of its own ancestors (or repeated): whatever a mask is turned into before it is
	// applied, the corrupted path is still part of what the caller asked for
	add("default_nested_message", "default_nested_message.nope")
	add("default_nested_message.nope", "default_nested_message")
	add("default_int32", "default_int32.x")
	add("map_string_string", "map_string_string.k")
	add("repeated_nested_message", "repeated_nested_message.a")
	add("default_nested_message.corecursive", "default_nested_message.corecursive.nope", "default_string")
	add("nope", "nope")
	return out
}

func masks_FilterClone(mask *fieldmaskpb.FieldMask, m proto.Message) proto.Message {
	return masks.NewResponseFilter(masks.WithFieldMask(mask)).FilterClone(m)
}

func main() {
	h := hx.New("C06")
	h.Seq("reads", func(s *hx.Seq) {
		var rc mcase
		fail := func(c mcase) func(string, string) {
			return func(k, m string) { s.Fail(k, m, c) }
		}
		if s.Replaying(&rc) {
			check(rc, fail(rc))
			return
		}
		var ms []mcase
		ms = append(ms, mcase{Nil: true}, mcase{Paths: []string{}})
		P := lib.MaskPaths
		for i := range P {
			ms = append(ms, mcase{Paths: []string{P[i]}})
			for j := i + 1; j < len(P); j++ {
				ms = append(ms, mcase{Paths: []string{P[i], P[j]}})
				if s.Thorough {
					for k := j + 1; k < len(P); k++ {
						ms = append(ms, mcase{Paths: []string{P[i], P[j], P[k]}})
					}
				}
			}
		}
		// a field named together with TWO of its own parts, in every order (a normalisation that looks at neighbours
		// only gets pairs right)
		for _, tr := range [][3]string{{"default_foreign_message", "default_foreign_message.c", "default_foreign_message.d"}, {"default_nested_message", "default_nested_message.a", "default_nested_message.corecursive"}} {
			for _, o := range [][3]int{{0, 1, 2}, {0, 2, 1}, {1, 0, 2}, {1, 2, 0}, {2, 0, 1}, {2, 1, 0}} {
				ms = append(ms, mcase{Paths: []string{tr[o[0]], tr[o[1]], tr[o[2]]}})
			}
		}
		ms = append(ms, mcase{Paths: []string{"default_int32", "default_int32"}})
		for _, c := range corrupt() {
			ms = append(ms, mcase{Paths: c, Bad: true})
		}
		for mi, m := range ms {
			if !s.Own() {
				continue
			}
			for msg := range cat {
				for _, via := range []string{"filter", "value", "collection", "pull"} {
					if via == "pull" && len(m.Paths) > 2 {
						continue
					}
					c := m
					c.Msg, c.Via = msg, via
					s.Eval(1)
					s.Trans(1)
					check(c, fail(c))
					s.State(c.key())
					if msg > 0 && !c.Nil {
						s.Distinct(c.key())
					}
				}
			}
			_ = mi
		}
		// trait messages: theirs are the field names that are prefixes of a sibling's (state / state_change_time,
		// gain / gain_tween): every mask of one or two top-level fields, through the filter, a Value and a Collection
		if s.Own() {
			tmsgs := []proto.Message{
				&traits.Occupancy{State: traits.Occupancy_OCCUPIED, PeopleCount: 3, StateChangeTime: &timestamppb.Timestamp{Seconds: 5}, Confidence: 0.5},
				&types.AudioLevel{Gain: 4, GainTween: &types.Tween{Progress: 50}, Muted: true},
				&traits.Emergency{Level: traits.Emergency_WARNING, Reason: "r", LevelChangeTime: &timestamppb.Timestamp{Seconds: 7}, Silent: true},
			}
			for _, m := range tmsgs {
				fds := m.ProtoReflect().Descriptor().Fields()
				var names []string
				for i := 0; i < fds.Len(); i++ {
					names = append(names, string(fds.Get(i).Name()))
				}
				var masks [][]string
				for i := range names {
					masks = append(masks, []string{names[i]})
					for j := range names {
						if i != j {
							masks = append(masks, []string{names[i], names[j]})
						}
					}
				}
				for _, paths := range masks {
					mask := &fieldmaskpb.FieldMask{Paths: paths}
					want := lib.Project(m, mask)
					name := fmt.Sprintf("%s mask=%v", m.ProtoReflect().Descriptor().Name(), paths)
					s.State(name)
					for _, via := range []string{"filter", "value", "collection"} {
						s.Eval(1)
						s.Trans(1)
						var got proto.Message
						switch via {
						case "filter":
							got = masks_FilterClone(mask, proto.Clone(m))
						case "value":
							got = resource.NewValue(resource.WithInitialValue(proto.Clone(m))).Get(resource.WithReadMask(mask))
						case "collection":
							got, _ = resource.NewCollection(resource.WithInitialRecord("a", proto.Clone(m))).Get("a", resource.WithReadMask(mask))
						}
						if !proto.Equal(got, want) {
							s.Fail(fmt.Sprintf("projection %s via %s", name, via), fmt.Sprintf("read returned %v, the projection is %v", got, want), nil)
						}
					}
				}
			}
		}
		// a typed nil pointer is a message too (an invalid, empty one): no mask may make a read of it panic
		if s.Own() {
			for _, paths := range [][]string{nil, {}, {"default_int32"}, {"default_nested_message.a"}, {"no_such_field"}, {"default_int32.x"}} {
				var mask *fieldmaskpb.FieldMask
				if paths != nil {
					mask = &fieldmaskpb.FieldMask{Paths: paths}
				}
				for _, via := range []string{"filter", "value"} {
					s.Eval(1)
					s.Trans(1)
					name := fmt.Sprintf("typed-nil %s mask=%v", via, paths)
					s.State(name)
					if p := func() (p any) {
						defer func() { p = recover() }()
						var none *lib.T
						if via == "filter" {
							rf := masks.NewResponseFilter(masks.WithFieldMask(mask))
							rf.Filter(none)
							_ = rf.FilterClone(none)
						} else {
							v := resource.NewValue(resource.WithInitialValue(none))
							_ = v.Get(resource.WithReadMask(mask))
						}
						return nil
					}(); p != nil {
						s.Fail("panic "+name, fmt.Sprintf("reading a typed nil message panicked: %v", p), nil)
					}
				}
			}
		}
		s.Sample(map[string]any{"case": mcase{Msg: 12, Paths: []string{"default_nested_message.a", "default_foreign_message"}, Via: "collection"}.key(), "meaning": "catalogue message #12 read through Collection.Get/List with that mask, compared with an independent protoreflect projection"})
	})
	h.Run()
}
