package resource

// Mounted into pkg/resource by the verification overlay only (never committed to the
// repository): gives the harnesses access to unexported pieces they must drive directly.

// VerifMergeCollectionExcess is mergeCollectionExcess.
func VerifMergeCollectionExcess(in <-chan any) <-chan any { return mergeCollectionExcess(in) }
