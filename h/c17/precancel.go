package main

// The caller's context is already cancelled when Execute is called. Members that do not look at their context
// (o = succeeds, f = fails) still decide the outcome: the strategy's contract is stated over the members' results,
// not over the caller's context, so a cancelled context must not turn a failing group into a success or make
// results disappear. Every schedule of the members is explored.

import (
	"context"
	"fmt"
	"strings"

	"google.golang.org/protobuf/proto"

	"github.com/smart-core-os/sc-golang/pkg/group"
	"verifrt"
	"verifrt/hx"
)

func precancelBody(name, kinds string, st group.ExecutionStrategy) func() {
	n := len(kinds)
	return func() {
		ctx, cancel := context.WithCancel(context.Background())
		cancel()
		calls := make([]int, n)
		members := make([]group.Member, n)
		for i := range members {
			i := i
			members[i] = func(context.Context) (proto.Message, error) {
				calls[i]++
				if kinds[i] == 'f' {
					return nil, fmt.Errorf("member %d failed", i)
				}
				return &T{DefaultInt32: int32(i + 1)}, nil
			}
		}
		res, err := group.Execute(ctx, st, members)
		verifrt.WaitIdle()
		fails := strings.Count(kinds, "f")
		var wantErr bool
		switch st {
		case group.ExecutionStrategyAll, group.ExecutionStrategyUnspecified:
			wantErr = fails > 0
		case group.ExecutionStrategyMost:
			wantErr = fails > n/2
		case group.ExecutionStrategyAny, group.ExecutionStrategyOne, group.ExecutionStrategyFast:
			wantErr = fails == n
		case group.ExecutionStrategyRace:
			wantErr = fails == n // (uniform vectors only)
		}
		if (err != nil) != wantErr {
			verifrt.Logf("FAIL precancelled-outcome %s ## members %q, caller's context already cancelled: returned error %v, the strategy's contract over these members gives error=%v", name, kinds, err, wantErr)
		}
		if !wantErr && err == nil {
			got := 0
			for i, r := range res {
				if r == nil {
					continue
				}
				got++
				if r.(*T).DefaultInt32 != int32(i+1) || kinds[i] != 'o' {
					verifrt.Logf("FAIL precancelled-results %s ## result slot %d holds %v", name, i, r)
				}
			}
			wantAll := st == group.ExecutionStrategyAll || st == group.ExecutionStrategyMost || st == group.ExecutionStrategyAny || st == group.ExecutionStrategyUnspecified
			if (wantAll && got != n-fails) || (!wantAll && got != 1) {
				verifrt.Logf("FAIL precancelled-results %s ## members %q: %d results in %v", name, kinds, got, res)
			}
		}
		if a := verifrt.Alive(); len(a) > 0 {
			verifrt.Logf("FAIL goroutine-left %s ## %v", name, a)
		}
		verifrt.Logf("OUT err=%v calls=%v", err != nil, calls)
	}
}

func registerPrecancel(h *hx.H, strats []group.ExecutionStrategy) {
	for n := 1; n <= 3; n++ {
		for _, k := range vectors(n, "of") {
			for _, st := range strats {
				if st == group.ExecutionStrategyRace && strings.Count(k, "f") != 0 && strings.Count(k, "f") != n {
					continue // whoever answers first decides: only uniform vectors have one outcome
				}
				name := fmt.Sprintf("%s(%s)/caller-context-already-cancelled", stratNames[st], k)
				h.Sched(name, -1, -1, precancelBody(name, k, st), hx.StdOracle)
			}
		}
	}
}
