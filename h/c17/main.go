// C17 — group execution honours each strategy's contract, for every member count,
// success/failure/slow vector, strategy and completion order (= schedule).
package main

import (
	"context"
	"errors"
	"fmt"
	"strings"

	"google.golang.org/protobuf/proto"

	"github.com/smart-core-os/sc-golang/internal/testproto"
	"github.com/smart-core-os/sc-golang/pkg/group"
	"verifrt"
	"verifrt/hx"
)

type T = testproto.TestAllTypes

// member kinds: o = succeeds at once, f = fails at once, s = cancellation-aware and
// slow: returns only when its context is done, w = cancellation-aware worker:
// succeeds unless it sees its context already cancelled.
type ret struct {
	msg proto.Message
	err error
}

var stratNames = map[group.ExecutionStrategy]string{
	group.ExecutionStrategyUnspecified: "Unspecified", group.ExecutionStrategyAll: "All", group.ExecutionStrategyMost: "Most",
	group.ExecutionStrategyAny: "Any", group.ExecutionStrategyOne: "One", group.ExecutionStrategyFast: "Fast", group.ExecutionStrategyRace: "Race",
}

func body(kinds string, strat group.ExecutionStrategy) func() {
	n := len(kinds)
	return func() {
		parent, cancelParent := context.WithCancel(context.Background())
		defer cancelParent()
		sawAt := make([][]int, n) // cancellation-aware member i observed its context done after these hand-overs
		rescued := false          // the harness itself cancelled the caller's context
		tid := make([]int, n)     // thread id that ran member i
		rets := make([]*ret, n)   // what member i returned
		calls := make([]int, n)   // how often member i was called
		var callOrder []int
		members := make([]group.Member, n)
		for i := range members {
			i := i
			m := &T{DefaultInt32: int32(i + 1)}
			e := fmt.Errorf("member %d failed", i)
			members[i] = func(ctx context.Context) (proto.Message, error) {
				tid[i] = verifrt.ThreadID()
				calls[i]++
				callOrder = append(callOrder, i)
				var r ret
				switch kinds[i] {
				case 'o':
					r = ret{m, nil}
				case 'f':
					r = ret{nil, e}
				case 's':
					<-ctx.Done()
					if !rescued {
						sawAt[i] = append([]int{-1}, verifrt.Sends()...)
					}
					r = ret{nil, ctx.Err()}
				case 'w':
					select {
					case <-ctx.Done():
						if !rescued {
							sawAt[i] = append([]int{-1}, verifrt.Sends()...)
						}
						r = ret{nil, ctx.Err()}
					default:
						r = ret{m, nil}
					}
				}
				rets[i] = &r
				return r.msg, r.err
			}
		}
		var res []proto.Message
		var err error
		finished := false
		execTid := -1
		go func() {
			execTid = verifrt.ThreadID()
			res, err = group.Execute(parent, strat, members)
			finished = true
		}()
		verifrt.WaitIdle()
		stuck := !finished
		var rdvAtStuck []int
		retsAtStuck := make([]bool, n)
		if stuck {
			rdvAtStuck = verifrt.Sends()
			for i := range rets {
				retsAtStuck[i] = rets[i] != nil
			}
			rescued = true
			cancelParent()
			verifrt.WaitIdle()
		}
		name := fmt.Sprintf("%s(%s)", stratNames[strat], kinds)
		if !finished {
			verifrt.Logf("FAIL never-returns %s ## Execute did not return even after the parent context was cancelled; alive: %v", name, verifrt.Alive())
			return
		}
		if a := verifrt.Alive(); len(a) > 0 {
			verifrt.Logf("FAIL goroutine-leak %s ## Execute returned and every member returned, yet %d goroutine(s) it started never end: %v", name, len(a), a)
		}
		// which thread ran which member
		memberOfTid := map[int]int{}
		for i, t := range tid {
			if calls[i] > 0 {
				memberOfTid[t] = i
			}
		}
		// order in which the member goroutines handed over their responses (FIFO channel:
		// send order = receive order, whether or not the channel is buffered)
		order := func(sends []int) []int {
			var o []int
			for _, t := range sends {
				if i, ok := memberOfTid[t]; ok && t != execTid {
					o = append(o, i)
				}
			}
			return o
		}
		recv := order(verifrt.Sends())
		isOne := strat == group.ExecutionStrategyOne
		if isOne {
			recv = callOrder
		}
		// ---------------- expected outcome from the observed order
		var wantErr error
		wantRes := make([]proto.Message, n)
		decidedAt := -1 // position in recv after which the outcome was decided (cancel expected)
		switch strat {
		case group.ExecutionStrategyUnspecified, group.ExecutionStrategyAll, group.ExecutionStrategyMost, group.ExecutionStrategyAny:
			allowed := 0
			if strat == group.ExecutionStrategyMost {
				allowed = n / 2
			} else if strat == group.ExecutionStrategyAny {
				allowed = n - 1
			}
			errs := 0
			var first error
			for pos, i := range recv {
				wantRes[i] = rets[i].msg
				if rets[i].err != nil {
					if first == nil {
						first = rets[i].err
					}
					errs++
					if errs > allowed && decidedAt < 0 {
						decidedAt = pos
					}
				}
			}
			if errs > allowed {
				wantErr = first
			}
			if n > 0 && len(recv) != n {
				verifrt.Logf("FAIL missing-response %s ## %d of %d member responses were collected: %v", name, len(recv), n, recv)
			}
			if n == 0 {
				wantErr = err // the statement does not say which verdict an empty group gets
			}
		case group.ExecutionStrategyOne:
			// members are tried in index order until one succeeds
			for k, i := range callOrder {
				if i != k {
					verifrt.Logf("FAIL one-order %s ## members were called in order %v", name, callOrder)
				}
			}
			var first error
			okAt := -1
			for _, i := range callOrder {
				if rets[i].err == nil {
					okAt = i
					break
				}
				if first == nil {
					first = rets[i].err
				}
			}
			if okAt >= 0 {
				wantRes[okAt] = rets[okAt].msg
				if len(callOrder) != okAt+1 {
					verifrt.Logf("FAIL one-continues %s ## members called after the first success: %v", name, callOrder)
				}
			} else {
				wantErr = first
				if len(callOrder) != n {
					verifrt.Logf("FAIL one-stops-early %s ## only %v called though none succeeded", name, callOrder)
				}
			}
			if n == 0 {
				wantErr = err
			}
		case group.ExecutionStrategyFast:
			var first error
			firstErrIdx := -1
			okAt := -1
			for pos, i := range recv {
				if rets[i].err == nil {
					okAt = i
					decidedAt = pos
					break
				}
				if first == nil {
					first, firstErrIdx = rets[i].err, i
				}
			}
			_ = firstErrIdx
			if okAt >= 0 {
				wantRes[okAt] = rets[okAt].msg
			} else {
				wantErr = first
			}
			if n == 0 {
				wantErr = err
			}
		case group.ExecutionStrategyRace:
			if len(recv) > 0 {
				i := recv[0]
				decidedAt = 0
				wantRes[i] = rets[i].msg
				wantErr = rets[i].err
			}
			if n == 0 {
				wantErr = err
			}
		}
		if !errors.Is(err, wantErr) && !(err != nil && wantErr != nil && err.Error() == wantErr.Error()) {
			verifrt.Logf("FAIL wrong-error %s ## responses observed in order %v; Execute returned err=%v, the contract gives %v", name, recv, err, wantErr)
		}
		if len(res) != n {
			verifrt.Logf("FAIL result-length %s ## %d results for %d members", name, len(res), n)
		} else {
			for i := range res {
				if (res[i] == nil) != (wantRes[i] == nil) || (res[i] != nil && !proto.Equal(res[i], wantRes[i])) {
					verifrt.Logf("FAIL wrong-result %s ## responses observed in order %v; results[%d]=%v, the contract gives %v (all: %v)", name, recv, i, res[i], wantRes[i], res)
					break
				}
			}
		}
		// remaining members are cancelled once the outcome is decided: if the harness had
		// to cancel the parent context itself, the outcome must have been undecided then.
		if stuck && !isOne {
			before := order(rdvAtStuck)
			decided := false
			switch strat {
			case group.ExecutionStrategyFast:
				for _, i := range before {
					if rets[i].err == nil {
						decided = true
					}
				}
			case group.ExecutionStrategyRace:
				decided = len(before) > 0
			default:
				allowed := 0
				if strat == group.ExecutionStrategyMost {
					allowed = n / 2
				} else if strat == group.ExecutionStrategyAny {
					allowed = n - 1
				}
				errs := 0
				for _, i := range before {
					if rets[i].err != nil {
						errs++
					}
				}
				decided = errs > allowed
			}
			if decided {
				verifrt.Logf("FAIL not-cancelled %s ## the outcome was decided after responses %v but the remaining members' contexts were not cancelled (they only ended when the caller's context was)", name, before)
			}
		}
		// ... and not before: a member that saw its context cancelled (without the harness having
		// cancelled the caller's context) must have been cancelled by a decided outcome
		if !isOne {
			decidedBy := func(before []int) bool {
				switch strat {
				case group.ExecutionStrategyFast:
					for _, i := range before {
						if rets[i] != nil && rets[i].err == nil {
							return true
						}
					}
					return false
				case group.ExecutionStrategyRace:
					return len(before) > 0
				}
				allowed := 0
				if strat == group.ExecutionStrategyMost {
					allowed = n / 2
				} else if strat == group.ExecutionStrategyAny {
					allowed = n - 1
				}
				errs := 0
				for _, i := range before {
					if rets[i] != nil && rets[i].err != nil {
						errs++
					}
				}
				return errs > allowed
			}
			for i := range sawAt {
				if sawAt[i] == nil {
					continue
				}
				before := order(sawAt[i][1:])
				if !decidedBy(before) {
					verifrt.Logf("FAIL cancelled-before-decided %s ## member %d saw its context cancelled after responses %v only: the outcome was not decided yet and the caller's context was not cancelled", name, i, before)
					break
				}
			}
		}
		es := "nil"
		if err != nil {
			es = err.Error()
		}
		var rs []string
		for _, r := range res {
			if r == nil {
				rs = append(rs, "-")
			} else {
				rs = append(rs, fmt.Sprint(r.(*T).DefaultInt32))
			}
		}
		verifrt.Logf("OUT order=%v err=%s res=%s stuck=%v", recv, es, strings.Join(rs, ","), stuck)
	}
}

func vectors(n int, alpha string) []string {
	if n == 0 {
		return []string{""}
	}
	var out []string
	for _, p := range vectors(n-1, alpha) {
		for _, c := range alpha {
			out = append(out, p+string(c))
		}
	}
	return out
}

func main() {
	h := hx.New("C17")
	strats := []group.ExecutionStrategy{group.ExecutionStrategyAll, group.ExecutionStrategyMost, group.ExecutionStrategyAny,
		group.ExecutionStrategyOne, group.ExecutionStrategyFast, group.ExecutionStrategyRace, group.ExecutionStrategyUnspecified}
	for n := 0; n <= 4; n++ {
		alpha := "ofsw"
		if n == 4 {
			alpha = "ofs"
		}
		for _, k := range vectors(n, alpha) {
			for _, st := range strats {
				q, t := -1, -1
				switch {
				case n == 3:
					q, t = 2, -1
				case n == 4:
					q, t = -2, 3
					if strings.Count(k, "s") > 1 {
						continue
					}
				}
				if st == group.ExecutionStrategyUnspecified && n > 2 {
					continue
				}
				h.Sched(fmt.Sprintf("%s(%s)", stratNames[st], k), q, t, body(k, st), hx.StdOracle)
			}
		}
	}
	registerPrecancel(h, strats)
	for _, trait := range []string{"onoff", "light"} {
		for _, op := range []string{"get", "update"} {
			for _, c := range groupCases() {
				name := groupName(trait, op, c)
				h.Sched(name, -1, -1, groupBody(name, trait, op, c.st, c.members, c.wantErr), hx.StdOracle)
			}
		}
	}
	for _, trait := range []string{"onoff", "light"} {
		for _, st := range []group.ExecutionStrategy{group.ExecutionStrategyAll, group.ExecutionStrategyRace} {
			for _, members := range [][]string{{"v0", "v1"}, {"vv0", "vv1"}, {"fail0", "v1"}, {"v0", "fail1"}, {"vv0", "v1", "v21"}} {
				for failAt := 0; failAt <= 2; failAt++ {
					name := fmt.Sprintf("%s.Group/pull/%s[%s]/subscriber-fails-at=%d", trait, stratNames[st], strings.Join(members, ","), failAt)
					q, t := -1, -1 // (the unbounded search with sleep sets is the cheaper one here)
					h.Sched(name, q, t, groupPullBody(name, trait, st, members, failAt), hx.StdOracle)
				}
			}
		}
	}
	h.Run()
}
