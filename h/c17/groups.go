package main

// The trait group servers (onoffpb.Group, lightpb.Group) run their members through group.Execute: the context
// a member is called with must be the one Execute hands out, so that a member still waiting is cancelled once
// the outcome is decided. Members here are fake clients keyed by device name: "ok…" answers, "fail…" fails,
// "wait…" blocks until its context ends. Only member vectors whose outcome the non-waiting members decide
// are used; a waiter that is never cancelled shows as a deadlock of the call.

import (
	"context"
	"fmt"
	"strings"
	"time"

	"github.com/smart-core-os/sc-api/go/traits"
	"google.golang.org/grpc"
	"google.golang.org/grpc/codes"
	"google.golang.org/grpc/status"

	"github.com/smart-core-os/sc-golang/pkg/group"
	"github.com/smart-core-os/sc-golang/pkg/trait/lightpb"
	"github.com/smart-core-os/sc-golang/pkg/trait/onoffpb"
	"verifrt"
)

type fakeMembers struct {
	traits.OnOffApiClient
	traits.LightApiClient
	cancelled []string // waiting members that saw their context end
	called    []string
}

func (f *fakeMembers) act(ctx context.Context, name string) error {
	f.called = append(f.called, name)
	switch {
	case strings.HasPrefix(name, "fail"):
		return status.Error(codes.Unavailable, name)
	case strings.HasPrefix(name, "wait"):
		<-ctx.Done()
		f.cancelled = append(f.cancelled, name)
		return ctx.Err()
	}
	return nil
}

func (f *fakeMembers) GetOnOff(ctx context.Context, r *traits.GetOnOffRequest, _ ...grpc.CallOption) (*traits.OnOff, error) {
	if err := f.act(ctx, r.Name); err != nil {
		return nil, err
	}
	return &traits.OnOff{State: traits.OnOff_ON}, nil
}
func (f *fakeMembers) UpdateOnOff(ctx context.Context, r *traits.UpdateOnOffRequest, _ ...grpc.CallOption) (*traits.OnOff, error) {
	if err := f.act(ctx, r.Name); err != nil {
		return nil, err
	}
	return r.OnOff, nil
}
func (f *fakeMembers) GetBrightness(ctx context.Context, r *traits.GetBrightnessRequest, _ ...grpc.CallOption) (*traits.Brightness, error) {
	if err := f.act(ctx, r.Name); err != nil {
		return nil, err
	}
	return &traits.Brightness{LevelPercent: 40}, nil
}
func (f *fakeMembers) UpdateBrightness(ctx context.Context, r *traits.UpdateBrightnessRequest, _ ...grpc.CallOption) (*traits.Brightness, error) {
	if err := f.act(ctx, r.Name); err != nil {
		return nil, err
	}
	return r.Brightness, nil
}

func groupBody(name, trait, op string, st group.ExecutionStrategy, members []string, wantErr bool) func() {
	return func() {
		f := &fakeMembers{}
		ctx := context.Background()
		var err error
		switch trait + "/" + op {
		case "onoff/get":
			g := onoffpb.NewGroup(f, members...)
			g.ReadExecution = st
			_, err = g.GetOnOff(ctx, &traits.GetOnOffRequest{Name: "group"})
		case "onoff/update":
			g := onoffpb.NewGroup(f, members...)
			g.WriteExecution = st
			_, err = g.UpdateOnOff(ctx, &traits.UpdateOnOffRequest{Name: "group", OnOff: &traits.OnOff{State: traits.OnOff_OFF}})
		case "light/get":
			g := lightpb.NewGroup(f, members...)
			g.ReadExecution = st
			_, err = g.GetBrightness(ctx, &traits.GetBrightnessRequest{Name: "group"})
		case "light/update":
			g := lightpb.NewGroup(f, members...)
			g.WriteExecution = st
			_, err = g.UpdateBrightness(ctx, &traits.UpdateBrightnessRequest{Name: "group", Brightness: &traits.Brightness{LevelPercent: 10}})
		}
		verifrt.WaitIdle()
		if (err != nil) != wantErr {
			verifrt.Logf("FAIL group-outcome %s ## returned error %v, the strategy's contract gives error=%v", name, err, wantErr)
		}
		if st == group.ExecutionStrategyOne {
			// "One tries members in order until one succeeds": in the order they were given to the group
			var want []string
			for _, m := range members {
				want = append(want, m)
				if !strings.HasPrefix(m, "fail") {
					break
				}
			}
			if fmt.Sprint(f.called) != fmt.Sprint(want) {
				verifrt.Logf("FAIL group-one-order %s ## members were called in the order %v, the group was given %v: %v expected", name, f.called, members, want)
			}
		}
		for _, m := range f.called {
			if strings.HasPrefix(m, "wait") {
				seen := false
				for _, c := range f.cancelled {
					if c == m {
						seen = true
					}
				}
				if !seen {
					verifrt.Logf("FAIL group-member-not-cancelled %s ## member %s was still waiting when the outcome was decided and its context was never cancelled", name, m)
				}
			}
		}
		if a := verifrt.Alive(); len(a) > 0 {
			verifrt.Logf("FAIL goroutine-left %s ## %v", name, a)
		}
		verifrt.Logf("OUT err=%v called=%d cancelled=%d", err != nil, len(f.called), len(f.cancelled))
	}
}

type groupCase struct {
	st      group.ExecutionStrategy
	members []string
	wantErr bool
}

func groupCases() []groupCase {
	return []groupCase{
		{group.ExecutionStrategyAll, []string{"fail0", "wait1"}, true},
		{group.ExecutionStrategyAll, []string{"wait0", "fail1", "ok2"}, true},
		{group.ExecutionStrategyMost, []string{"fail0", "fail1", "wait2"}, true},
		{group.ExecutionStrategyAny, []string{"fail0", "fail1"}, true},
		{group.ExecutionStrategyFast, []string{"wait0", "ok1"}, false},
		{group.ExecutionStrategyFast, []string{"fail0", "ok1", "wait2"}, false},
		{group.ExecutionStrategyRace, []string{"wait0", "ok1"}, false},
		{group.ExecutionStrategyRace, []string{"wait0", "fail1"}, true},
		{group.ExecutionStrategyOne, []string{"fail0", "ok1", "wait2"}, false},
		{group.ExecutionStrategyAll, []string{"ok0", "ok1"}, false},
		// member names in no particular order, and one name twice (a member listed twice is asked twice)
		{group.ExecutionStrategyOne, []string{"ok9", "fail1", "ok0"}, false},
		{group.ExecutionStrategyOne, []string{"fail7", "ok3", "fail1"}, false},
		{group.ExecutionStrategyMost, []string{"fail0", "fail0", "ok1"}, true},
		// failures the strategy tolerates: the call succeeds, and what the failed members did not deliver is simply
		// not part of the group's answer
		{group.ExecutionStrategyMost, []string{"fail0", "ok1", "ok2"}, false},
		{group.ExecutionStrategyMost, []string{"ok0", "fail1", "ok2"}, false},
		{group.ExecutionStrategyAny, []string{"fail0", "ok1"}, false},
		{group.ExecutionStrategyAny, []string{"fail0", "fail1", "ok2"}, false},
		{group.ExecutionStrategyAny, []string{"ok0", "fail1"}, false},
	}
}

func groupName(trait, op string, c groupCase) string {
	return fmt.Sprintf("%s.Group/%s/%s[%s]", trait, op, stratNames[c.st], strings.Join(c.members, ","))
}

// Group.Pull*: every member holds a subscription (a scripted stream: some values at once, then silence until its
// context ends; "fail" cannot even open one) and hands what it receives to the group loop, which sends the reduced
// value on. The subscriber's Send fails at the failAt-th message (and it leaves once all is quiet if that
// message never comes), or (failAt=0) its context is cancelled by another thread at any moment. The call must return, and nothing it started may be left - a member still holding a value
// it cannot hand over any more is one.
type scriptedPull[T any] struct {
	grpc.ClientStream
	ctx  context.Context
	vals []*T
}

func (p *scriptedPull[T]) Recv() (*T, error) {
	if len(p.vals) > 0 {
		v := p.vals[0]
		p.vals = p.vals[1:]
		return v, nil
	}
	<-p.ctx.Done()
	return nil, p.ctx.Err()
}

type failingSubscriber[T any] struct {
	grpc.ServerStream
	ctx    context.Context
	failAt int
	sent   int
}

func (f *failingSubscriber[T]) Context() context.Context { return f.ctx }
func (f *failingSubscriber[T]) Send(*T) error {
	f.sent++
	if f.sent == f.failAt {
		return status.Error(codes.Unavailable, "subscriber went away")
	}
	return f.ctx.Err()
}

func (f *fakeMembers) PullBrightness(ctx context.Context, r *traits.PullBrightnessRequest, _ ...grpc.CallOption) (grpc.ServerStreamingClient[traits.PullBrightnessResponse], error) {
	if strings.HasPrefix(r.Name, "fail") {
		return nil, status.Error(codes.Unavailable, r.Name)
	}
	p := &scriptedPull[traits.PullBrightnessResponse]{ctx: ctx}
	base := float32(10)
	if strings.HasSuffix(r.Name, "1") {
		base = 20
	}
	for i := 0; i < strings.Count(r.Name, "v"); i++ {
		p.vals = append(p.vals, &traits.PullBrightnessResponse{Changes: []*traits.PullBrightnessResponse_Change{{Brightness: &traits.Brightness{LevelPercent: base + float32(20*i)}}}})
	}
	return p, nil
}

func (f *fakeMembers) PullOnOff(ctx context.Context, r *traits.PullOnOffRequest, _ ...grpc.CallOption) (grpc.ServerStreamingClient[traits.PullOnOffResponse], error) {
	if strings.HasPrefix(r.Name, "fail") {
		return nil, status.Error(codes.Unavailable, r.Name)
	}
	p := &scriptedPull[traits.PullOnOffResponse]{ctx: ctx}
	st := traits.OnOff_ON
	if strings.HasSuffix(r.Name, "1") {
		st = traits.OnOff_OFF
	}
	for i := 0; i < strings.Count(r.Name, "v"); i++ {
		p.vals = append(p.vals, &traits.PullOnOffResponse{Changes: []*traits.PullOnOffResponse_Change{{OnOff: &traits.OnOff{State: st}}}})
		st = traits.OnOff_ON + traits.OnOff_OFF - st
	}
	return p, nil
}

func groupPullBody(name, trait string, st group.ExecutionStrategy, members []string, failAt int) func() {
	return func() {
		f := &fakeMembers{}
		// a subscriber that never saw the failing Send (the reduced value did not change often enough) leaves
		// once everything is quiet: virtual time only advances then
		ctx, cancel := context.WithTimeout(context.Background(), time.Hour)
		defer cancel()
		if failAt == 0 {
			go cancel()
		}
		var err error
		sendFailed := false
		switch trait {
		case "light":
			g := lightpb.NewGroup(f, members...)
			g.ReadExecution = st
			sub := &failingSubscriber[traits.PullBrightnessResponse]{ctx: ctx, failAt: failAt}
			err = g.PullBrightness(&traits.PullBrightnessRequest{Name: "group"}, sub)
			sendFailed = failAt > 0 && sub.sent >= failAt
		case "onoff":
			g := onoffpb.NewGroup(f, members...)
			g.ReadExecution = st
			sub := &failingSubscriber[traits.PullOnOffResponse]{ctx: ctx, failAt: failAt}
			err = g.PullOnOff(&traits.PullOnOffRequest{Name: "group"}, sub)
			sendFailed = failAt > 0 && sub.sent >= failAt
		}
		// a Send that fails decides the call: the members are told to stop and the call returns - then, not when the
		// subscriber's own context happens to end (here: an hour of virtual time later, which only passes once
		// nothing else can move)
		if sendFailed && ctx.Err() != nil {
			verifrt.Logf("FAIL group-pull-returns-late %s ## the subscriber's Send failed, but the call returned only after the subscriber's context had ended (%v): the members were never told to stop", name, ctx.Err())
		}
		verifrt.WaitIdle()
		if a := verifrt.Alive(); len(a) > 0 {
			verifrt.Logf("FAIL goroutine-left %s ## after the call returned (%v): %v", name, err, a)
		}
		verifrt.Logf("OUT err=%v", err != nil)
	}
}
