package main

// resource.GetAndUpdate is exported: "applies an atomic get and update operation". Used directly (a caller's own
// lock and store), two or three concurrent increments must each either take effect exactly once or come back
// Aborted - an increment that reports success and is lost is the lost update the helper exists to prevent.
// (The resources themselves write through a sibling of this helper that also orders their events.)

import (
	"fmt"
	"sync"

	"google.golang.org/grpc/codes"
	"google.golang.org/grpc/status"
	"google.golang.org/protobuf/proto"

	"github.com/smart-core-os/sc-golang/pkg/resource"
	"verifrt"
	"verifrt/hx"
)

func directBody(name string, writers int) func() {
	return func() {
		var mu sync.RWMutex
		var stored proto.Message = msg(0)
		ok := 0
		var okMu sync.Mutex
		var wg sync.WaitGroup
		for w := 0; w < writers; w++ {
			wg.Add(1)
			go func() {
				defer wg.Done()
				_, _, err := resource.GetAndUpdate(&mu,
					func() (proto.Message, error) { return stored, nil },
					func(old, dst proto.Message) (proto.Message, error) {
						dst.(*T).DefaultInt32 = old.(*T).DefaultInt32 + 1
						return dst, nil
					},
					func(m proto.Message) { stored = m })
				switch {
				case err == nil:
					okMu.Lock()
					ok++
					okMu.Unlock()
				case status.Code(err) != codes.Aborted:
					verifrt.Logf("FAIL direct-error %s ## %v", name, err)
				}
			}()
		}
		wg.Wait()
		if got := int(stored.(*T).DefaultInt32); got != ok {
			verifrt.Logf("FAIL direct-lost-update %s ## %d increments reported success, the stored counter is %d", name, ok, got)
		}
		verifrt.Logf("OUT ok=%d", ok)
	}
}

func registerDirect(h *hx.H) {
	for _, n := range []int{2, 3} {
		name := fmt.Sprintf("GetAndUpdate(direct)/%d concurrent increments", n)
		h.Sched(name, -1, -1, directBody(name, n), hx.StdOracle)
	}
}
