// C02 — concurrent writes are atomic: every interleaving (up to the preemption
// bound) of 2-3 writers on one Value / one Collection id is checked for
// linearizability against a register/map reference model.
package main

import (
	"fmt"
	"sort"
	"strings"
	"sync"

	"google.golang.org/grpc/codes"
	"google.golang.org/grpc/status"
	"google.golang.org/protobuf/proto"

	"github.com/smart-core-os/sc-golang/internal/testproto"
	"github.com/smart-core-os/sc-golang/pkg/resource"
	"verifrt"
	"verifrt/hx"
)

type T = testproto.TestAllTypes

func msg(v int) *T { return &T{DefaultInt32: int32(v)} }
func val(m proto.Message) int {
	if m == nil {
		return -1
	}
	return int(m.(*T).DefaultInt32)
}

// state of the reference model: the value stored under the single id (absent = !has)
type state struct {
	has bool
	v   int
}

type res struct {
	code codes.Code
	v    int // returned value, -1 = none
}

func (r res) String() string { return fmt.Sprintf("%v:%d", r.code, r.v) }

type env struct {
	val *resource.Value
	col *resource.Collection
}

type opSpec struct {
	name  string
	real  func(e env) res
	model func(s *state) res
}

func code(err error) codes.Code {
	if err == nil {
		return codes.OK
	}
	return status.Code(err)
}

func mk(m proto.Message, err error) res {
	if err != nil {
		return res{code(err), -1}
	}
	return res{codes.OK, val(m)}
}

var inc = resource.InterceptBefore(func(old, new proto.Message) {
	new.(*T).DefaultInt32 = old.(*T).DefaultInt32 + 1
})

func below(limit int) resource.WriteOption {
	return resource.WithExpectedCheck(func(old proto.Message) error {
		if val(old) >= limit {
			return status.Error(codes.FailedPrecondition, "limit reached")
		}
		return nil
	})
}

// ---- Value ops
func vSet(x int) opSpec {
	return opSpec{fmt.Sprintf("Set(%d)", x),
		func(e env) res { return mk(e.val.Set(msg(x))) },
		func(s *state) res { s.v = x; return res{codes.OK, x} }}
}
func vCAS(exp, x int) opSpec {
	return opSpec{fmt.Sprintf("CAS(%d->%d)", exp, x),
		func(e env) res { return mk(e.val.Set(msg(x), resource.WithExpectedValue(msg(exp)))) },
		func(s *state) res {
			if s.v != exp {
				return res{codes.FailedPrecondition, -1}
			}
			s.v = x
			return res{codes.OK, x}
		}}
}

// vCASCheck: a write that brings BOTH kinds of precondition (an expected value and a check callback), in either
// order: it succeeds only if both held at the instant of the write.
func vCASCheck(exp, x, limit int, checkFirst bool) opSpec {
	n := fmt.Sprintf("CAS(%d->%d)+IfBelow(%d)", exp, x, limit)
	if checkFirst {
		n = fmt.Sprintf("IfBelow(%d)+CAS(%d->%d)", limit, exp, x)
	}
	return opSpec{n,
		func(e env) res {
			opts := []resource.WriteOption{resource.WithExpectedValue(msg(exp)), below(limit)}
			if checkFirst {
				opts[0], opts[1] = opts[1], opts[0]
			}
			return mk(e.val.Set(msg(x), opts...))
		},
		func(s *state) res {
			if s.v != exp || s.v >= limit {
				return res{codes.FailedPrecondition, -1}
			}
			s.v = x
			return res{codes.OK, x}
		}}
}

func vInc() opSpec {
	return opSpec{"Inc",
		func(e env) res { return mk(e.val.Set(msg(0), inc)) },
		func(s *state) res { s.v++; return res{codes.OK, s.v} }}
}

// vAdd: a relative write the way the trait models write theirs - the interceptor adds the stored value to the
// caller's message in place. Running it twice for one call (a retry) adds twice.
var addOld = resource.InterceptBefore(func(old, new proto.Message) {
	new.(*T).DefaultInt32 += old.(*T).DefaultInt32
})

func vAdd(d int) opSpec {
	return opSpec{fmt.Sprintf("Add(%d)", d),
		func(e env) res { return mk(e.val.Set(msg(d), addOld)) },
		func(s *state) res { s.v += d; return res{codes.OK, s.v} }}
}

// a write that leaves its message out (a typed nil, as an update request without its resource gives): it reads as the
// empty message, and the interceptor is handed an empty message of this call's own to write to. Accumulating
// like addOld, it stores old+1 every time - whatever an earlier call's interceptor wrote.
var addOldPlusOne = resource.InterceptBefore(func(old, new proto.Message) {
	new.(*T).DefaultInt32 += old.(*T).DefaultInt32 + 1
})

func vIncNil() opSpec {
	return opSpec{"IncWritingNil",
		func(e env) res { return mk(e.val.Set((*T)(nil), addOldPlusOne)) },
		func(s *state) res { s.v++; return res{codes.OK, s.v} }}
}
func cIncNil() opSpec {
	return opSpec{"IncWritingNil",
		func(e env) res { return mk(e.col.Update("a", (*T)(nil), addOldPlusOne)) },
		func(s *state) res {
			if !s.has {
				return res{codes.NotFound, -1}
			}
			s.v++
			return res{codes.OK, s.v}
		}}
}
func cAddDelta(d int) opSpec {
	return opSpec{fmt.Sprintf("AddDelta(%d)", d),
		func(e env) res { return mk(e.col.Update("a", msg(d), addOld)) },
		func(s *state) res {
			if !s.has {
				return res{codes.NotFound, -1}
			}
			s.v += d
			return res{codes.OK, s.v}
		}}
}

// ---- ops for a Value that starts EMPTY (constructed without an initial value): the first writes it ever sees
// race like any others - the optimistic read of "nothing stored" has to be re-checked like any other read.
var addOldOrNothing = resource.InterceptBefore(func(old, new proto.Message) {
	if o, ok := old.(*T); ok && o != nil {
		new.(*T).DefaultInt32 += o.DefaultInt32
	}
})

func vAddFresh(d int) opSpec {
	return opSpec{fmt.Sprintf("Add(%d)", d),
		func(e env) res { return mk(e.val.Set(msg(d), addOldOrNothing)) },
		func(s *state) res {
			if !s.has {
				s.has, s.v = true, 0
			}
			s.v += d
			return res{codes.OK, s.v}
		}}
}
func vSetOnce(x int) opSpec {
	return opSpec{fmt.Sprintf("SetIfEmpty(%d)", x),
		func(e env) res {
			return mk(e.val.Set(msg(x), resource.WithExpectedCheck(func(old proto.Message) error {
				if o, ok := old.(*T); ok && o != nil {
					return status.Error(codes.FailedPrecondition, "already initialised")
				}
				return nil
			})))
		},
		func(s *state) res {
			if s.has {
				return res{codes.FailedPrecondition, -1}
			}
			s.has, s.v = true, x
			return res{codes.OK, x}
		}}
}

func vIncBelow(limit int) opSpec {
	return opSpec{fmt.Sprintf("IncBelow(%d)", limit),
		func(e env) res { return mk(e.val.Set(msg(0), below(limit), inc)) },
		func(s *state) res {
			if s.v >= limit {
				return res{codes.FailedPrecondition, -1}
			}
			s.v++
			return res{codes.OK, s.v}
		}}
}

// ---- Collection ops (all on id "a")
func cAdd(x int) opSpec {
	return opSpec{fmt.Sprintf("Add(%d)", x),
		func(e env) res { return mk(e.col.Add("a", msg(x))) },
		func(s *state) res {
			if s.has {
				return res{codes.AlreadyExists, -1}
			}
			s.has, s.v = true, x
			return res{codes.OK, x}
		}}
}
func cUpsertInc() opSpec {
	return opSpec{"UpsertInc",
		func(e env) res { return mk(e.col.Update("a", msg(0), resource.WithCreateIfAbsent(), inc)) },
		func(s *state) res {
			if !s.has {
				s.has, s.v = true, 0
			}
			s.v++
			return res{codes.OK, s.v}
		}}
}
func cInc() opSpec {
	return opSpec{"UpdInc",
		func(e env) res { return mk(e.col.Update("a", msg(0), inc)) },
		func(s *state) res {
			if !s.has {
				return res{codes.NotFound, -1}
			}
			s.v++
			return res{codes.OK, s.v}
		}}
}
func cCAS(exp, x int) opSpec {
	return opSpec{fmt.Sprintf("UpdCAS(%d->%d)", exp, x),
		func(e env) res { return mk(e.col.Update("a", msg(x), resource.WithExpectedValue(msg(exp)))) },
		func(s *state) res {
			if !s.has {
				return res{codes.NotFound, -1}
			}
			if s.v != exp {
				return res{codes.FailedPrecondition, -1}
			}
			s.v = x
			return res{codes.OK, x}
		}}
}
func cSet(x int) opSpec {
	return opSpec{fmt.Sprintf("Upd(%d)", x),
		func(e env) res { return mk(e.col.Update("a", msg(x))) },
		func(s *state) res {
			if !s.has {
				return res{codes.NotFound, -1}
			}
			s.v = x
			return res{codes.OK, x}
		}}
}
func cDel() opSpec {
	return opSpec{"Del",
		func(e env) res { return mk(e.col.Delete("a")) },
		func(s *state) res {
			if !s.has {
				return res{codes.NotFound, -1}
			}
			s.has = false
			return res{codes.OK, s.v}
		}}
}
func cDelAllow() opSpec {
	return opSpec{"DelAllowMissing",
		func(e env) res {
			m, err := e.col.Delete("a", resource.WithAllowMissing(true))
			if err == nil && m == nil {
				return res{codes.OK, -1}
			}
			return mk(m, err)
		},
		func(s *state) res {
			if !s.has {
				return res{codes.OK, -1}
			}
			s.has = false
			return res{codes.OK, s.v}
		}}
}
func cDelExpect(exp int) opSpec {
	return opSpec{fmt.Sprintf("DelExpect(%d)", exp),
		func(e env) res {
			m, err := e.col.Delete("a", resource.WithExpectedValue(msg(exp)))
			if err != nil {
				return res{code(err), -1}
			}
			return res{codes.OK, val(m)}
		},
		func(s *state) res {
			if !s.has {
				return res{codes.NotFound, -1}
			}
			if s.v != exp {
				return res{codes.FailedPrecondition, -1}
			}
			s.has = false
			return res{codes.OK, s.v}
		}}
}

// cDelBelow: Delete guarded by a check callback (the other precondition option of Delete): it may only
// remove a version the check accepted.
func cDelBelow(limit int) opSpec {
	return opSpec{fmt.Sprintf("DelIfBelow(%d)", limit),
		func(e env) res {
			m, err := e.col.Delete("a", below(limit))
			if err != nil {
				return res{code(err), -1}
			}
			return res{codes.OK, val(m)}
		},
		func(s *state) res {
			if !s.has {
				return res{codes.NotFound, -1}
			}
			if s.v >= limit {
				return res{codes.FailedPrecondition, -1}
			}
			s.has = false
			return res{codes.OK, s.v}
		}}
}

type call struct {
	op        *opSpec
	thread    int
	inv, resp int64
	got       res
}

// linearizable: is there an order of the calls, consistent with real time, in which
// the reference model returns what each call returned and ends in final? Calls that
// returned Aborted / Unavailable lost a race and must have had no effect: they are
// dropped.
func linearizable(calls []call, init, final state) (bool, string) {
	var cs []call
	for _, c := range calls {
		if c.got.code == codes.Aborted || c.got.code == codes.Unavailable {
			continue
		}
		cs = append(cs, c)
	}
	n := len(cs)
	used := make([]bool, n)
	order := make([]int, 0, n)
	var rec func(s state) bool
	rec = func(s state) bool {
		if len(order) == n {
			return s == final || (!s.has && !final.has)
		}
		for i := 0; i < n; i++ {
			if used[i] {
				continue
			}
			// real time: every unused call that finished before cs[i] was invoked must come first
			ok := true
			for j := 0; j < n; j++ {
				if j != i && !used[j] && cs[j].resp < cs[i].inv {
					ok = false
					break
				}
			}
			if !ok {
				continue
			}
			t := s
			if r := cs[i].op.model(&t); r != cs[i].got {
				continue
			}
			used[i] = true
			order = append(order, i)
			if rec(t) {
				return true
			}
			order = order[:len(order)-1]
			used[i] = false
		}
		return false
	}
	if rec(init) {
		var w []string
		for _, i := range order {
			w = append(w, cs[i].op.name)
		}
		return true, strings.Join(w, "<")
	}
	return false, ""
}

type program struct {
	name    string
	isVal   bool
	init    state
	threads [][]opSpec
	// coarse: the resource is built with an equivalence that calls values one apart "the same". An equivalence
	// thins out event streams; it has no say in whether a concurrent write happened.
	coarse bool
}

var oneApart = resource.WithMessageEquivalence(func(x, y proto.Message) bool {
	xt, _ := x.(*T)
	yt, _ := y.(*T)
	if xt == nil || yt == nil {
		return false
	}
	d := xt.DefaultInt32 - yt.DefaultInt32
	return d >= -1 && d <= 1
})

func (p program) body() func() {
	return func() {
		// the clock stands still: every write of the scenario carries the same change time (a write is told from
		// another by what it stores, not by when)
		verifrt.VirtualClock()
		var e env
		if p.isVal && !p.init.has {
			e.val = resource.NewValue() // nothing stored yet
		} else if p.isVal && p.coarse {
			e.val = resource.NewValue(resource.WithInitialValue(msg(p.init.v)), oneApart)
		} else if p.isVal {
			e.val = resource.NewValue(resource.WithInitialValue(msg(p.init.v)))
		} else if p.coarse {
			e.col = resource.NewCollection(oneApart)
			if p.init.has {
				if _, err := e.col.Add("a", msg(p.init.v)); err != nil {
					panic(err)
				}
			}
		} else {
			e.col = resource.NewCollection()
			if p.init.has {
				if _, err := e.col.Add("a", msg(p.init.v)); err != nil {
					panic(err)
				}
			}
		}
		results := make([][]call, len(p.threads))
		var wg sync.WaitGroup
		wg.Add(len(p.threads))
		for ti := range p.threads {
			ti := ti
			go func() {
				defer wg.Done()
				for oi := range p.threads[ti] {
					op := &p.threads[ti][oi]
					c := call{op: op, thread: ti, inv: verifrt.Stamp()}
					c.got = op.real(e)
					c.resp = verifrt.Stamp()
					results[ti] = append(results[ti], c)
				}
			}()
		}
		wg.Wait()
		var final state
		if p.isVal {
			final = state{true, val(e.val.Get())}
			if g, _ := e.val.Get().(*T); g == nil {
				final = state{}
			}
		} else {
			m, ok := e.col.Get("a")
			final = state{has: ok}
			if ok {
				final.v = val(m)
			}
			if l := e.col.List(); (len(l) == 1) != ok {
				verifrt.Logf("FAIL list-get-disagree ## List has %d items, Get ok=%v", len(l), ok)
			}
		}
		var all []call
		var outs []string
		for ti, rs := range results {
			for _, c := range rs {
				all = append(all, c)
				outs = append(outs, fmt.Sprintf("T%d.%s=%v", ti, c.op.name, c.got))
			}
		}
		fs := "absent"
		if final.has {
			fs = fmt.Sprint(final.v)
		}
		hist := strings.Join(outs, " ") + " final=" + fs
		ok, wit := linearizable(all, p.init, final)
		if !ok {
			// key: program + observed result vector (independent of the schedule)
			verifrt.Logf("FAIL not-linearizable %s: %s ## no sequential order of the calls explains these results", p.name, hist)
		}
		verifrt.Logf("OUT %s lin=%s", hist, wit)
	}
}

func progName(isVal bool, init state, threads [][]opSpec) string {
	var ts []string
	for _, t := range threads {
		var os []string
		for _, o := range t {
			os = append(os, o.name)
		}
		ts = append(ts, strings.Join(os, ";"))
	}
	sort.Strings(ts)
	k := "Collection"
	is := "{}"
	if isVal && !init.has {
		k = "Value"
		is = "{nothing stored}"
	} else if isVal {
		k = "Value"
		is = fmt.Sprintf("{%d}", init.v)
	} else if init.has {
		is = fmt.Sprintf("{a:%d}", init.v)
	}
	return fmt.Sprintf("%s%s: %s", k, is, strings.Join(ts, " || "))
}

func main() {
	h := hx.New("C02")
	registerDirect(h)
	add := func(isVal bool, init state, q, t int, threads ...[]opSpec) {
		p := program{isVal: isVal, init: init, threads: threads}
		p.name = progName(isVal, init, threads)
		h.Sched(p.name, q, t, p.body(), hx.StdOracle)
	}
	one := func(o opSpec) []opSpec { return []opSpec{o} }

	// ---- a Value with nothing stored yet
	add(true, state{}, -1, -1, one(vAddFresh(1)), one(vAddFresh(5)))
	add(true, state{}, -1, -1, one(vSetOnce(1)), one(vSetOnce(2)))
	add(true, state{}, -1, -1, one(vSetOnce(1)), one(vAddFresh(5)))
	add(true, state{}, 2, -1, one(vAddFresh(1)), one(vAddFresh(5)), one(vAddFresh(10)))
	add(true, state{}, 2, -1, one(vSetOnce(1)), []opSpec{vAddFresh(5), vAddFresh(10)})

	// ---- resources built with a coarse equivalence (values one apart are "the same")
	addCoarse := func(isVal bool, init state, threads ...[]opSpec) {
		p := program{isVal: isVal, init: init, threads: threads, coarse: true}
		p.name = progName(isVal, init, threads) + " (resource with a coarse equivalence)"
		h.Sched(p.name, -1, -1, p.body(), hx.StdOracle)
	}
	addCoarse(true, state{true, 0}, one(vInc()), one(vInc()))
	addCoarse(true, state{true, 0}, one(vCAS(0, 7)), one(vInc()))
	addCoarse(true, state{true, 0}, one(vIncBelow(1)), one(vInc()))
	addCoarse(false, state{true, 0}, one(cInc()), one(cInc()))
	addCoarse(false, state{true, 0}, one(cCAS(0, 7)), one(cInc()))

	// ---- both kinds of precondition on one write
	for _, first := range []bool{false, true} {
		add(true, state{true, 0}, -1, -1, one(vCASCheck(0, 7, 5, first)), one(vInc()))
		add(true, state{true, 0}, -1, -1, one(vCASCheck(0, 7, 0, first)), one(vSet(5)))
		add(true, state{true, 0}, -1, -1, one(vCASCheck(1, 7, 5, first)), one(vInc()))
	}

	// ---- writes that leave their message out
	add(true, state{true, 0}, -1, -1, []opSpec{vIncNil(), vIncNil()}, one(vIncNil()))
	add(true, state{true, 0}, -1, -1, one(vIncNil()), one(vAdd(1)))
	add(false, state{true, 0}, -1, -1, []opSpec{cIncNil(), cIncNil()}, one(cIncNil()))
	add(false, state{true, 0}, -1, -1, one(cIncNil()), one(cAddDelta(1)))

	// ---- Value, 2 threads: all pairs
	vops := []opSpec{vSet(5), vCAS(0, 7), vInc(), vIncBelow(1), vAdd(1)}
	for i := range vops {
		for j := i; j < len(vops); j++ {
			add(true, state{true, 0}, 2, -1, one(vops[i]), one(vops[j]))
		}
	}
	add(true, state{true, 0}, 2, 4, []opSpec{vInc(), vInc()}, []opSpec{vInc(), vInc()})
	add(true, state{true, 0}, 2, 3, one(vInc()), one(vInc()), one(vInc()))
	add(true, state{true, 0}, 2, 3, one(vAdd(1)), one(vSet(10)), one(vAdd(2)))
	add(true, state{true, 0}, 2, 3, one(vCAS(0, 7)), one(vCAS(0, 8)), one(vSet(0)))
	add(true, state{true, 0}, 2, 3, one(vIncBelow(1)), one(vIncBelow(1)), one(vIncBelow(1)))

	// ---- Collection, 2 threads
	absentOps := []opSpec{cAdd(1), cAdd(2), cUpsertInc(), cInc(), cDel(), cDelAllow()}
	for i := range absentOps {
		for j := i; j < len(absentOps); j++ {
			if i == j && absentOps[i].name == "Add(1)" {
				continue
			}
			add(false, state{}, 2, -1, one(absentOps[i]), one(absentOps[j]))
		}
	}
	presentOps := []opSpec{cAdd(9), cUpsertInc(), cInc(), cCAS(0, 7), cSet(5), cDel(), cDelAllow(), cDelExpect(0), cDelBelow(1), cAddDelta(1)}
	for i := range presentOps {
		for j := i; j < len(presentOps); j++ {
			add(false, state{true, 0}, 2, -1, one(presentOps[i]), one(presentOps[j]))
		}
	}
	// ---- Collection, 3 threads / 2 ops
	add(false, state{}, 2, 3, one(cAdd(1)), one(cAdd(2)), one(cDel()))
	add(false, state{}, 2, 3, one(cUpsertInc()), one(cUpsertInc()), one(cUpsertInc()))
	add(false, state{true, 0}, 2, 3, one(cInc()), one(cDel()), one(cAdd(3)))
	add(false, state{true, 0}, 2, 3, one(cDelExpect(0)), one(cSet(5)), one(cSet(0)))
	add(false, state{true, 0}, 2, 3, []opSpec{cDel(), cAdd(0)}, one(cDelExpect(0)))
	add(false, state{true, 0}, 2, 3, one(cDelBelow(1)), one(cInc()), one(cInc()))
	add(false, state{true, 0}, 2, 3, one(cDelBelow(2)), []opSpec{cInc(), cInc()})
	add(false, state{true, 0}, 2, 3, []opSpec{cInc(), cInc()}, []opSpec{cInc(), cInc()})
	add(false, state{true, 0}, 2, 3, []opSpec{cDel(), cAdd(0)}, []opSpec{cCAS(0, 7)})
	h.Run()
}
