// C12 — routers deliver each request to the client registered under its name.
//  1. every generated router x every method of its service descriptor x response
//     scripts, through wrap.ServerToClient(router), with fake per-name clients;
//  2. the registry as a map (BFS over Add/Remove/Has/Get with factory / fallback);
//  3. concurrent first Gets under every schedule;
//  4. the default-name interceptor;
//  5. regenerating routers and wrappers from the current descriptors and diffing
//     them with the checked-in files (regen.go).
package main

import (
	"context"
	"errors"
	"fmt"
	"io"
	"sort"
	"strings"
	"sync"

	"google.golang.org/grpc"
	"google.golang.org/grpc/codes"
	"google.golang.org/grpc/metadata"
	"google.golang.org/grpc/status"
	"google.golang.org/protobuf/proto"
	"google.golang.org/protobuf/reflect/protoreflect"
	"google.golang.org/protobuf/reflect/protoregistry"

	"github.com/smart-core-os/sc-api/go/traits"
	"github.com/smart-core-os/sc-golang/pkg/middleware/name"
	"github.com/smart-core-os/sc-golang/pkg/router"
	"github.com/smart-core-os/sc-golang/pkg/wrap"
	"github.com/smart-core-os/sc-golang/verif_h/reg"
	"verifrt"
	"verifrt/hx"
)

// ---------------------------------------------------------------- message filling

func fill(m protoreflect.Message, seed, depth int) {
	fds := m.Descriptor().Fields()
	for i := 0; i < fds.Len(); i++ {
		fd := fds.Get(i)
		if fd.IsList() || fd.IsMap() || fd.ContainingOneof() != nil {
			continue
		}
		k := seed + i
		switch fd.Kind() {
		case protoreflect.StringKind:
			if fd.Name() != "name" {
				m.Set(fd, protoreflect.ValueOfString(fmt.Sprintf("s%d", k)))
			}
		case protoreflect.Int32Kind, protoreflect.Sint32Kind, protoreflect.Sfixed32Kind:
			m.Set(fd, protoreflect.ValueOfInt32(int32(k%7+1)))
		case protoreflect.Int64Kind, protoreflect.Sint64Kind, protoreflect.Sfixed64Kind:
			m.Set(fd, protoreflect.ValueOfInt64(int64(k%7+1)))
		case protoreflect.BoolKind:
			m.Set(fd, protoreflect.ValueOfBool(k%2 == 0))
		case protoreflect.FloatKind:
			m.Set(fd, protoreflect.ValueOfFloat32(float32(k%5)+0.5))
		case protoreflect.DoubleKind:
			m.Set(fd, protoreflect.ValueOfFloat64(float64(k%5)+0.5))
		case protoreflect.EnumKind:
			vs := fd.Enum().Values()
			m.Set(fd, protoreflect.ValueOfEnum(vs.Get(k%vs.Len()).Number()))
		case protoreflect.MessageKind:
			if depth > 0 && !strings.HasPrefix(string(fd.Message().FullName()), "google.protobuf") {
				fill(m.Mutable(fd).Message(), seed+3, depth-1)
			}
		}
	}
}

func newMsg(md protoreflect.MessageDescriptor, seed int, nameValue string) proto.Message {
	mt, err := protoregistry.GlobalTypes.FindMessageByName(md.FullName())
	if err != nil {
		panic(err)
	}
	m := mt.New()
	fill(m, seed, 2)
	if fd := md.Fields().ByName("name"); fd != nil && fd.Kind() == protoreflect.StringKind {
		m.Set(fd, protoreflect.ValueOfString(nameValue))
	}
	return m.Interface()
}

// ---------------------------------------------------------------- fake clients

type script struct {
	Msgs    int        // stream: number of messages
	Header  bool       // stream: header set
	Trailer bool       // stream: trailer set
	Code    codes.Code // OK = success / EOF
}

func (s script) String() string {
	return fmt.Sprintf("msgs=%d,header=%v,trailer=%v,code=%v", s.Msgs, s.Header, s.Trailer, s.Code)
}

type call struct {
	method string
	req    []byte
}

type fakeConn struct {
	who   string
	calls []call
	sc    script
	out   protoreflect.MessageDescriptor
	ctxs  []context.Context
}

func (f *fakeConn) errOf() error {
	if f.sc.Code == codes.OK {
		return nil
	}
	return status.Error(f.sc.Code, "scripted failure of "+f.who)
}

func (f *fakeConn) Invoke(ctx context.Context, method string, args, reply any, _ ...grpc.CallOption) error {
	b, _ := proto.MarshalOptions{Deterministic: true}.Marshal(args.(proto.Message))
	f.calls = append(f.calls, call{method, b})
	if err := f.errOf(); err != nil {
		return err
	}
	proto.Merge(reply.(proto.Message), newMsg(f.out, 100, "resp-"+f.who))
	return nil
}

var (
	hdr = metadata.Pairs("x-hdr", "h1", "x-hdr", "h2")
	trl = metadata.Pairs("x-trl", "t1")
)

type fakeStream struct {
	f    *fakeConn
	ctx  context.Context
	sent int
}

func (s *fakeStream) Header() (metadata.MD, error) {
	if s.f.sc.Header {
		return hdr.Copy(), nil
	}
	return nil, nil
}
func (s *fakeStream) Trailer() metadata.MD {
	if s.f.sc.Trailer {
		return trl.Copy()
	}
	return nil
}
func (s *fakeStream) CloseSend() error         { return nil }
func (s *fakeStream) Context() context.Context { return s.ctx }
func (s *fakeStream) SendMsg(m any) error {
	b, _ := proto.MarshalOptions{Deterministic: true}.Marshal(m.(proto.Message))
	s.f.calls[len(s.f.calls)-1].req = b
	return nil
}
func (s *fakeStream) RecvMsg(m any) error {
	if s.sent < s.f.sc.Msgs {
		proto.Merge(m.(proto.Message), newMsg(s.f.out, 200+s.sent, "resp-"+s.f.who))
		s.sent++
		return nil
	}
	if err := s.f.errOf(); err != nil {
		return err
	}
	return io.EOF
}

func (f *fakeConn) NewStream(ctx context.Context, _ *grpc.StreamDesc, method string, _ ...grpc.CallOption) (grpc.ClientStream, error) {
	f.calls = append(f.calls, call{method: method})
	f.ctxs = append(f.ctxs, ctx)
	return &fakeStream{f: f, ctx: ctx}, nil
}

// ---------------------------------------------------------------- 1. forwarding

type fcase struct {
	Router int
	Method string
	Name   string // a | b | missing
	S      script
}

func mdStr(md metadata.MD) string {
	var ks []string
	for k, v := range md {
		if strings.HasPrefix(k, "x-") {
			ks = append(ks, k+"="+strings.Join(v, "|"))
		}
	}
	sort.Strings(ks)
	return strings.Join(ks, ";")
}

func forward(c fcase) (key, msg string) {
	e := reg.Routers[c.Router]
	sd, err := protoregistry.GlobalFiles.FindDescriptorByName(protoreflect.FullName(e.Desc.ServiceName))
	if err != nil {
		return "no-descriptor", err.Error()
	}
	md := sd.(protoreflect.ServiceDescriptor).Methods().ByName(protoreflect.Name(c.Method))
	full := fmt.Sprintf("/%s/%s", e.Desc.ServiceName, c.Method)
	var fk, fm string
	fail := func(k, m string) {
		if fk == "" {
			fk, fm = k, m
		}
	}
	res := verifrt.RunOnce(nil, false, func() {
		r := e.New()
		fa := &fakeConn{who: "a", sc: c.S, out: md.Output()}
		fb := &fakeConn{who: "b", sc: c.S, out: md.Output()}
		r.Add("a", e.NewClient(fa))
		r.Add("b", e.NewClient(fb))
		conn := wrap.ServerToClient(*e.Desc, r)
		req := newMsg(md.Input(), 7, c.Name)
		hasName := md.Input().Fields().ByName("name") != nil
		reqBytes, _ := proto.MarshalOptions{Deterministic: true}.Marshal(req)
		ctx, cancel := context.WithCancel(context.Background())
		defer cancel()
		var gotErr error
		var gotMsgs []proto.Message
		var gotHdr, gotTrl metadata.MD
		if md.IsStreamingClient() {
			fail("client-streaming-unsupported", "the harness does not drive client-streaming methods")
			return
		}
		if !md.IsStreamingServer() {
			mt, _ := protoregistry.GlobalTypes.FindMessageByName(md.Output().FullName())
			resp := mt.New().Interface()
			gotErr = conn.Invoke(ctx, full, req, resp)
			if gotErr == nil {
				gotMsgs = append(gotMsgs, resp)
			}
		} else {
			cs, err := conn.NewStream(ctx, &grpc.StreamDesc{ServerStreams: true}, full)
			if err != nil {
				gotErr = err
			} else {
				if err := cs.SendMsg(req); err != nil {
					fail("send", err.Error())
					return
				}
				cs.CloseSend()
				gotHdr, _ = cs.Header()
				for {
					mt, _ := protoregistry.GlobalTypes.FindMessageByName(md.Output().FullName())
					resp := mt.New().Interface()
					if err := cs.RecvMsg(resp); err != nil {
						gotErr = err
						break
					}
					gotMsgs = append(gotMsgs, resp)
					if len(gotMsgs) > 10 {
						fail("endless-stream", "more than 10 messages")
						return
					}
				}
				gotTrl = cs.Trailer()
				if gotErr == io.EOF {
					gotErr = nil
				}
			}
		}
		cancel()
		verifrt.WaitIdle()
		if a := verifrt.Alive(); len(a) > 0 {
			fail("goroutine-left", fmt.Sprintf("after the call finished these threads never ended: %v", a))
			return
		}
		if status.Code(gotErr) == codes.Unimplemented {
			fail("unrouted", fmt.Sprintf("%s answered Unimplemented: the router does not route this RPC of its service", full))
			return
		}
		target, other := fa, fb
		if c.Name == "b" {
			target, other = fb, fa
		}
		if !hasName {
			return // nothing to route by: not a named request
		}
		if c.Name == "missing" {
			if status.Code(gotErr) != codes.NotFound {
				fail("missing-name", fmt.Sprintf("request for an unregistered name returned %v, want NotFound", gotErr))
			}
			if len(fa.calls)+len(fb.calls) != 0 {
				fail("missing-name-touched-client", fmt.Sprintf("request for an unregistered name reached a client: a=%d b=%d calls", len(fa.calls), len(fb.calls)))
			}
			return
		}
		if len(other.calls) != 0 {
			fail("wrong-client", fmt.Sprintf("request for %q reached the other client (%d calls)", c.Name, len(other.calls)))
			return
		}
		if len(target.calls) != 1 {
			fail("not-exactly-once", fmt.Sprintf("request for %q was forwarded %d times", c.Name, len(target.calls)))
			return
		}
		if target.calls[0].method != full {
			fail("wrong-method", fmt.Sprintf("forwarded as %s", target.calls[0].method))
		}
		if string(target.calls[0].req) != string(reqBytes) {
			fail("request-altered", "the forwarded request differs from the one sent")
		}
		// the outcome
		wantErr := target.errOf()
		if status.Code(gotErr) != status.Code(wantErr) || (wantErr != nil && status.Convert(gotErr).Message() != status.Convert(wantErr).Message()) {
			fail("status-altered", fmt.Sprintf("the client returned %v, the caller saw %v", wantErr, gotErr))
			return
		}
		wantN := 1
		if md.IsStreamingServer() {
			wantN = c.S.Msgs
		} else if wantErr != nil {
			wantN = 0
		}
		if len(gotMsgs) != wantN {
			fail("message-count", fmt.Sprintf("caller received %d messages, the client produced %d", len(gotMsgs), wantN))
			return
		}
		for i, g := range gotMsgs {
			seed := 100
			if md.IsStreamingServer() {
				seed = 200 + i
			}
			if !proto.Equal(g, newMsg(md.Output(), seed, "resp-"+target.who)) {
				fail("response-altered", fmt.Sprintf("message %d differs from what the client produced: %v", i, g))
				return
			}
		}
		if md.IsStreamingServer() {
			wh, wt := "", ""
			if c.S.Header {
				wh = mdStr(hdr)
			}
			if c.S.Trailer {
				wt = mdStr(trl)
			}
			if mdStr(gotHdr) != wh {
				fail("header-altered", fmt.Sprintf("caller saw header %q, the client sent %q", mdStr(gotHdr), wh))
			}
			if mdStr(gotTrl) != wt {
				fail("trailer-altered", fmt.Sprintf("caller saw trailer %q, the client sent %q", mdStr(gotTrl), wt))
			}
		}
	})
	if fk == "" && res.Status != "ok" {
		return res.Status, res.Msg
	}
	return fk, fm
}

func forwarding(s *hx.Seq) {
	var rc fcase
	if s.Replaying(&rc) {
		if k, m := forward(rc); k != "" {
			s.Fail(k, m, rc)
		}
		return
	}
	for ri, e := range reg.Routers {
		if !s.Own() {
			continue
		}
		sd, err := protoregistry.GlobalFiles.FindDescriptorByName(protoreflect.FullName(e.Desc.ServiceName))
		if err != nil {
			s.Fail("no-descriptor "+e.Desc.ServiceName, err.Error(), nil)
			continue
		}
		ms := sd.(protoreflect.ServiceDescriptor).Methods()
		for i := 0; i < ms.Len(); i++ {
			md := ms.Get(i)
			var scripts []script
			if md.IsStreamingServer() {
				maxN := 2
				if s.Thorough {
					maxN = 3
				}
				for n := 0; n <= maxN; n++ {
					for _, h := range []bool{false, true} {
						for _, t := range []bool{false, true} {
							for _, c := range []codes.Code{codes.OK, codes.Unavailable, codes.NotFound} {
								scripts = append(scripts, script{n, h, t, c})
							}
						}
					}
				}
			} else {
				for _, c := range []codes.Code{codes.OK, codes.NotFound, codes.Internal, codes.Unavailable} {
					scripts = append(scripts, script{Code: c})
				}
			}
			for _, nm := range []string{"a", "b", "missing"} {
				for si, sc := range scripts {
					if nm == "missing" && si > 0 {
						continue
					}
					c := fcase{Router: ri, Method: string(md.Name()), Name: nm, S: sc}
					s.Eval(1)
					s.Trans(1)
					if k, m := forward(c); k != "" {
						s.Fail(fmt.Sprintf("%s %s.%s %s.%s name=%s", k, e.Pkg, e.Type, e.Desc.ServiceName, md.Name(), nm), m+" (script "+sc.String()+")", c)
					}
					s.State(fmt.Sprintf("%s %s %s", e.Desc.ServiceName, md.Name(), nm))
					s.Distinct(fmt.Sprintf("%s %s %s %v", e.Desc.ServiceName, md.Name(), nm, sc))
				}
			}
		}
		if s.Stop() {
			return
		}
	}
	s.Note("%d routers discovered in the tree", len(reg.Routers))
	s.Sample(map[string]any{"case": fcase{Router: 0, Method: "<each method of the service descriptor>", Name: "a", S: script{2, true, true, codes.Unavailable}}, "meaning": "request built by protoreflect and sent through wrap.ServerToClient(router); fake typed clients registered under a and b record method + request bytes and answer by script (k messages, header, trailer, final status); the caller-side transcript is compared with the script"})
}

// ---------------------------------------------------------------- 2. registry as a map

type rop struct {
	Kind string // add remove has get
	Name string
	Cl   string
}

func (o rop) String() string {
	return fmt.Sprintf("%s(%s%s)", o.Kind, o.Name, map[bool]string{true: "," + o.Cl, false: ""}[o.Cl != ""])
}

type rcfg struct {
	Factory  string // "" ok err nil
	Fallback string // "" hit miss err
}

func registryRun(cf rcfg, path []rop) (key, msg, canon string) {
	var changes []string
	opts := []router.Option{router.WithOnChange(func(c router.Change) {
		changes = append(changes, fmt.Sprintf("%s:%v>%v auto=%v", c.Name, c.Old, c.New, c.Auto))
	})}
	made := 0
	switch cf.Factory {
	case "ok":
		opts = append(opts, router.WithFactory(func(n string) (any, error) { made++; return fmt.Sprintf("made-%s-%d", n, made), nil }))
	case "err":
		opts = append(opts, router.WithFactory(func(n string) (any, error) { return "junk", errors.New("factory failed") }))
	case "nil":
		opts = append(opts, router.WithFactory(func(n string) (any, error) { return nil, nil }))
	}
	switch cf.Fallback {
	case "hit":
		opts = append(opts, router.WithFallback(func(n string) (any, error) { return "fallback-" + n, nil }))
	case "miss":
		opts = append(opts, router.WithFallback(func(n string) (any, error) { return nil, nil }))
	case "err": // a fallback that fails supplies nothing: what happens next is what happens without it
		opts = append(opts, router.WithFallback(func(n string) (any, error) { return nil, errors.New("fallback: not mine") }))
	}
	r := router.NewRouter(opts...)
	model := map[string]string{}
	mmade := 0
	for step, o := range path {
		changes = changes[:0]
		var want []string
		where := fmt.Sprintf("step %d %v", step, o)
		switch o.Kind {
		case "add":
			old := r.Add(o.Name, o.Cl)
			wold, had := model[o.Name]
			if (old == nil) == had || (had && old != wold) {
				return "add-return", fmt.Sprintf("%s returned %v, previous client was %q (present=%v)", where, old, wold, had), ""
			}
			oldS := "<nil>"
			if had {
				oldS = wold
			}
			want = []string{fmt.Sprintf("%s:%s>%s auto=false", o.Name, oldS, o.Cl)}
			model[o.Name] = o.Cl
		case "remove":
			old := r.Remove(o.Name)
			wold, had := model[o.Name]
			if (old == nil) == had || (had && old != wold) {
				return "remove-return", fmt.Sprintf("%s returned %v, registered client was %q (present=%v)", where, old, wold, had), ""
			}
			if had {
				want = []string{fmt.Sprintf("%s:%s><nil> auto=false", o.Name, wold)}
				delete(model, o.Name)
			}
		case "has":
			_, had := model[o.Name]
			if r.Has(o.Name) != had {
				return "has", fmt.Sprintf("%s = %v, the registry holds it: %v", where, !had, had), ""
			}
		case "get":
			got, err := r.Get(o.Name)
			if v, had := model[o.Name]; had {
				if err != nil || got != v {
					return "get-registered", fmt.Sprintf("%s returned (%v, %v), registered client is %q", where, got, err, v), ""
				}
			} else if cf.Fallback == "hit" {
				if err != nil || got != "fallback-"+o.Name {
					return "get-fallback", fmt.Sprintf("%s returned (%v, %v), the fallback supplies fallback-%s", where, got, err, o.Name), ""
				}
			} else if cf.Factory == "ok" {
				mmade++
				w := fmt.Sprintf("made-%s-%d", o.Name, mmade)
				if err != nil || got != w {
					return "get-factory", fmt.Sprintf("%s returned (%v, %v), the factory creates %s", where, got, err, w), ""
				}
				model[o.Name] = w
				want = []string{fmt.Sprintf("%s:<nil>>%s auto=true", o.Name, w)}
			} else {
				if status.Code(err) != codes.NotFound || got != nil {
					return "get-missing", fmt.Sprintf("%s returned (%v, %v), want NotFound", where, got, err), ""
				}
			}
		}
		if fmt.Sprint(changes) != fmt.Sprint(want) {
			return "change-callbacks", fmt.Sprintf("%s reported changes %v, the transitions are %v", where, changes, want), ""
		}
		for n := range map[string]bool{"x": true, "y": true} {
			_, had := model[n]
			if r.Has(n) != had {
				return "has-after", fmt.Sprintf("after %s Has(%s)=%v but the registry model says %v", where, n, !had, had), ""
			}
		}
	}
	var ks []string
	for k, v := range model {
		ks = append(ks, k+"="+v)
	}
	sort.Strings(ks)
	return "", "", strings.Join(ks, ",") + fmt.Sprint(mmade)
}

func registry(s *hx.Seq) {
	var rp struct {
		C rcfg
		P []rop
	}
	if s.Replaying(&rp) {
		if k, m, _ := registryRun(rp.C, rp.P); k != "" {
			s.Fail(k, m, rp)
		}
		return
	}
	var ops []rop
	for _, n := range []string{"x", "y"} {
		ops = append(ops, rop{"add", n, "c1"}, rop{"add", n, "c2"}, rop{"remove", n, ""}, rop{"has", n, ""}, rop{"get", n, ""})
	}
	depth := 4
	if s.Thorough {
		depth = 6
	}
	for _, fa := range []string{"", "ok", "err", "nil"} {
		for _, fb := range []string{"", "hit", "miss", "err"} {
			if !s.Own() {
				continue
			}
			cf := rcfg{fa, fb}
			seen := map[string]bool{}
			frontier := [][]rop{nil}
			for d := 0; d < depth && len(frontier) > 0; d++ {
				var next [][]rop
				for _, p := range frontier {
					for _, o := range ops {
						path := append(append([]rop{}, p...), o)
						s.Eval(1)
						s.Trans(1)
						k, m, c := registryRun(cf, path)
						if k != "" {
							s.Fail(fmt.Sprintf("%s factory=%s fallback=%s %v", k, fa, fb, path), m, map[string]any{"C": cf, "P": path})
							continue
						}
						key := fmt.Sprintf("%v|%s", cf, c)
						s.Distinct(key + o.Kind)
						if !seen[c] {
							seen[c] = true
							s.State(key)
							next = append(next, path)
						}
					}
				}
				frontier = next
			}
		}
	}
	s.Sample("router registry: BFS over Add/Remove/Has/Get on names {x,y} for every factory (none, ok, failing, nil client) x fallback (none, hit, miss) configuration, against a map with an exact change log")
}

// ---------------------------------------------------------------- 3. concurrent first Gets

func concurrentGets(name string, getters int, extra string) func() {
	return func() {
		var mu sync.Mutex
		made := 0
		var autos []string
		r := router.NewRouter(
			router.WithFactory(func(n string) (any, error) {
				mu.Lock()
				made++
				c := fmt.Sprintf("made-%d", made)
				mu.Unlock()
				return c, nil
			}),
			router.WithOnChange(func(c router.Change) {
				mu.Lock()
				if c.Auto {
					autos = append(autos, fmt.Sprint(c.New))
				}
				mu.Unlock()
			}))
		got := make([]any, getters)
		var wg sync.WaitGroup
		for i := 0; i < getters; i++ {
			i := i
			wg.Add(1)
			go func() {
				defer wg.Done()
				c, err := r.Get("n")
				if err != nil {
					verifrt.Logf("FAIL get-error %s ## %v", name, err)
				}
				got[i] = c
			}()
		}
		var removed any
		if extra != "" {
			wg.Add(1)
			go func() {
				defer wg.Done()
				switch extra {
				case "add":
					r.Add("n", "added")
				case "remove":
					removed = r.Remove("n")
				}
			}()
		}
		wg.Wait()
		final, _ := r.Get("n")
		// every Get returned a client that was at some point the committed one: either an
		// auto-committed factory client or the added one
		committed := map[string]bool{"added": extra == "add"}
		for _, a := range autos {
			committed[a] = true
		}
		for i, g := range got {
			if !committed[fmt.Sprint(g)] {
				verifrt.Logf("FAIL uncommitted-client %s ## Get #%d returned %v, which was never committed to the registry (auto commits: %v)", name, i, g, autos)
			}
		}
		if extra == "" {
			if len(autos) != 1 {
				verifrt.Logf("FAIL commit-count %s ## %d factory clients were committed: %v", name, len(autos), autos)
			}
			for i, g := range got {
				if g != final {
					verifrt.Logf("FAIL not-single-client %s ## Get #%d returned %v, the registry holds %v", name, i, g, final)
				}
			}
		}
		if extra == "remove" && removed != nil && !committed[fmt.Sprint(removed)] {
			verifrt.Logf("FAIL removed-uncommitted %s ## Remove returned %v", name, removed)
		}
		verifrt.Logf("OUT made=%d autos=%d removed=%v", made, len(autos), removed != nil)
	}
}

// ---------------------------------------------------------------- 3b. concurrent Add / Remove on one name

// The registry behaves as a map also when two callers change the same name at once: what Add and Remove return
// and what the change callback reports are the transitions of SOME one-at-a-time order (the callback runs after
// the lock is released, so its order is not the commit order: any order that chains from the initial client to
// the final registry content is accepted).
func concurrentChanges(name string, ops []string) func() {
	return func() {
		var mu sync.Mutex
		var changes []router.Change
		r := router.NewRouter(router.WithOnChange(func(c router.Change) {
			mu.Lock()
			changes = append(changes, c)
			mu.Unlock()
		}))
		r.Add("n", "a")
		changes = nil
		rets := make([]any, len(ops))
		var wg sync.WaitGroup
		for i, o := range ops {
			i, o := i, o
			wg.Add(1)
			go func() {
				defer wg.Done()
				if o == "remove" {
					rets[i] = r.Remove("n")
				} else {
					rets[i] = r.Add("n", o)
				}
			}()
		}
		wg.Wait()
		var final any
		if r.Has("n") {
			final, _ = r.Get("n")
		}
		show := func() string {
			var cs []string
			for _, c := range changes {
				cs = append(cs, fmt.Sprintf("%v->%v", c.Old, c.New))
			}
			return fmt.Sprintf("returns %v, reported changes %v, registry finally holds %v", rets, cs, final)
		}
		// every operation's own report
		used := make([]bool, len(changes))
		for i, o := range ops {
			if o == "remove" && rets[i] == nil {
				continue // nothing there to remove: nothing to report
			}
			var wantNew any
			if o != "remove" {
				wantNew = o
			}
			found := false
			for k, c := range changes {
				if !used[k] && c.Old == rets[i] && c.New == wantNew && c.Name == "n" && !c.Auto {
					used[k], found = true, true
					break
				}
			}
			if !found {
				verifrt.Logf("FAIL concurrent-change-report %s ## operation %d (%s) returned %v but no change %v->%v was reported: %s", name, i, o, rets[i], rets[i], wantNew, show())
			}
		}
		for k, u := range used {
			if !u {
				verifrt.Logf("FAIL concurrent-change-report %s ## reported change %v->%v belongs to no operation: %s", name, changes[k].Old, changes[k].New, show())
			}
		}
		// some order of the reported changes leads from "a" to the final content
		ok := false
		var perm func(cur any, left []int)
		perm = func(cur any, left []int) {
			if len(left) == 0 {
				if cur == final {
					ok = true
				}
				return
			}
			for k, ci := range left {
				if changes[ci].Old == cur {
					rest := append(append([]int{}, left[:k]...), left[k+1:]...)
					perm(changes[ci].New, rest)
				}
			}
		}
		idx := make([]int, len(changes))
		for i := range idx {
			idx[i] = i
		}
		perm("a", idx)
		if !ok {
			verifrt.Logf("FAIL concurrent-change-chain %s ## the reported changes are the transitions of no one-at-a-time order from \"a\": %s", name, show())
		}
		verifrt.Logf("OUT %s", show())
	}
}

// ---------------------------------------------------------------- 4. default name interceptor

type oneStream struct {
	grpc.ServerStream
	in proto.Message
}

func (o *oneStream) RecvMsg(m any) error { proto.Merge(m.(proto.Message), o.in); return nil }

func defaultName(s *hx.Seq) {
	if !s.Own() {
		return
	}
	ctx := context.Background()
	// "fills in only EMPTY names": names that merely look blank, or equal the default, are names
	for _, given := range []string{"", "dev", " ", "\t", "\u00a0", " a ", "default", "DEFAULT", "0", "\x00"} {
		for _, kind := range []string{"named", "unnamed", "non-string-name"} {
			s.Eval(2)
			s.Trans(2)
			var req proto.Message
			switch kind {
			case "named":
				req = &traits.GetOnOffRequest{Name: given}
			case "unnamed":
				req = &traits.OnOff{State: traits.OnOff_ON} // no name field
			case "non-string-name":
				req = &traits.Child{Name: given} // has a string name too: used as a second named type
			}
			orig := proto.Clone(req)
			var seen proto.Message
			_, err := name.IfAbsentUnaryInterceptor("default")(ctx, req, &grpc.UnaryServerInfo{}, func(ctx context.Context, r any) (any, error) {
				seen = proto.Clone(r.(proto.Message))
				return nil, nil
			})
			check := func(via string, seen proto.Message) {
				want := proto.Clone(orig)
				if fd := want.ProtoReflect().Descriptor().Fields().ByName("name"); fd != nil && given == "" {
					want.ProtoReflect().Set(fd, protoreflect.ValueOfString("default"))
				}
				if !proto.Equal(seen, want) {
					s.Fail(fmt.Sprintf("default-name %s %s name=%q", via, kind, given), fmt.Sprintf("handler saw %v, expected %v", seen, want), nil)
				}
			}
			if err != nil {
				s.Fail("default-name-error", err.Error(), nil)
			}
			check("unary", seen)
			var sseen proto.Message
			name.IfAbsentStreamInterceptor("default")(nil, &oneStream{in: orig}, &grpc.StreamServerInfo{}, func(srv any, ss grpc.ServerStream) error {
				m := orig.ProtoReflect().New().Interface()
				if err := ss.RecvMsg(m); err != nil {
					return err
				}
				sseen = m
				return nil
			})
			check("stream", sseen)
			s.State(kind + given)
			s.Distinct(kind + given)
		}
	}
	s.Sample("IfAbsentUnaryInterceptor / IfAbsentStreamInterceptor with requests with and without a name field, empty and non-empty names")
}

func main() {
	h := hx.New("C12")
	h.Seq("registry", registry)
	h.Seq("default-name", defaultName)
	h.Seq("regen", regen)
	for _, n := range []int{2, 3} {
		for _, extra := range []string{"", "add", "remove"} {
			if n == 3 && extra != "" {
				continue
			}
			name := fmt.Sprintf("concurrent-gets/%d getters/%s", n, extra)
			h.Sched(name, -1, -1, concurrentGets(name, n, extra), hx.StdOracle)
		}
	}
	for _, ops := range [][]string{{"remove", "remove"}, {"remove", "b"}, {"b", "c"}, {"remove", "b", "remove"}} {
		name := "concurrent-changes/" + strings.Join(ops, "||")
		h.Sched(name, -1, -1, concurrentChanges(name, ops), hx.StdOracle)
	}
	h.Seq("forwarding", forwarding)
	h.Run()
}
