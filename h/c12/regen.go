package main

import (
	"bytes"
	"fmt"
	"os"
	"os/exec"
	"path/filepath"
	"sort"
	"strings"

	"google.golang.org/protobuf/proto"
	"google.golang.org/protobuf/reflect/protodesc"
	"google.golang.org/protobuf/reflect/protoreflect"
	"google.golang.org/protobuf/reflect/protoregistry"
	"google.golang.org/protobuf/types/descriptorpb"
	"google.golang.org/protobuf/types/pluginpb"

	"verifrt/hx"
)

// regen: run the repository's own protoc-gen-router / protoc-gen-wrapper (built from the
// current tree by the check driver) on the descriptors the binary links, and compare
// every produced file byte for byte with the checked-in one. Deterministic: not a search.
func regen(s *hx.Seq) {
	if !s.Own() {
		return
	}
	repo := os.Getenv("VERIF_REPO")
	if repo == "" {
		repo = "/repo"
	}
	var toGen []protoreflect.FileDescriptor
	protoregistry.GlobalFiles.RangeFiles(func(fd protoreflect.FileDescriptor) bool {
		if fd.Services().Len() == 0 {
			return true
		}
		opts, _ := fd.Options().(*descriptorpb.FileOptions)
		gp := opts.GetGoPackage()
		if strings.HasPrefix(gp, "github.com/smart-core-os/sc-api/go/traits") || strings.HasPrefix(gp, "github.com/smart-core-os/sc-golang/pkg/trait/") {
			toGen = append(toGen, fd)
		}
		return true
	})
	sort.Slice(toGen, func(i, j int) bool { return toGen[i].Path() < toGen[j].Path() })
	var ordered []*descriptorpb.FileDescriptorProto
	seen := map[string]bool{}
	var visit func(fd protoreflect.FileDescriptor)
	visit = func(fd protoreflect.FileDescriptor) {
		if seen[fd.Path()] {
			return
		}
		seen[fd.Path()] = true
		imps := fd.Imports()
		for i := 0; i < imps.Len(); i++ {
			visit(imps.Get(i).FileDescriptor)
		}
		ordered = append(ordered, protodesc.ToFileDescriptorProto(fd))
	}
	req := &pluginpb.CodeGeneratorRequest{}
	services := 0
	for _, fd := range toGen {
		visit(fd)
		req.FileToGenerate = append(req.FileToGenerate, fd.Path())
		services += fd.Services().Len()
	}
	req.ProtoFile = ordered
	in, err := proto.Marshal(req)
	if err != nil {
		s.Fail("regen-tool", err.Error(), nil)
		return
	}
	for _, plug := range []struct{ env, suffix string }{{"VERIF_PLUGIN_ROUTER", "_router.pb.go"}, {"VERIF_PLUGIN_WRAPPER", "_wrap.pb.go"}} {
		bin := os.Getenv(plug.env)
		if bin == "" {
			s.Note("%s not set: regeneration clause skipped", plug.env)
			continue
		}
		cmd := exec.Command(bin)
		cmd.Stdin = bytes.NewReader(in)
		var out, errb bytes.Buffer
		cmd.Stdout, cmd.Stderr = &out, &errb
		if err := cmd.Run(); err != nil {
			s.Fail("regen-plugin-failed "+plug.suffix, fmt.Sprintf("%v: %s", err, errb.String()), nil)
			continue
		}
		resp := &pluginpb.CodeGeneratorResponse{}
		if err := proto.Unmarshal(out.Bytes(), resp); err != nil || resp.Error != nil {
			s.Fail("regen-plugin-failed "+plug.suffix, fmt.Sprintf("%v %v", err, resp.GetError()), nil)
			continue
		}
		generated := map[string]string{}
		for _, f := range resp.File {
			generated[f.GetName()] = f.GetContent()
		}
		if d := os.Getenv("VERIF_REGEN_DUMP"); d != "" {
			for n, c := range generated {
				os.MkdirAll(filepath.Join(d, filepath.Dir(n)), 0o755)
				os.WriteFile(filepath.Join(d, n), []byte(c), 0o644)
			}
		}
		s.Eval(len(generated))
		s.Trans(len(generated))
		if len(generated) != services {
			s.Fail("regen-count "+plug.suffix, fmt.Sprintf("%d services in the descriptors but the generator produced %d files", services, len(generated)), nil)
		}
		// checked-in files of this kind
		checked := map[string]string{}
		matches, _ := filepath.Glob(filepath.Join(repo, "pkg/trait/*/*"+plug.suffix))
		for _, m := range matches {
			b, _ := os.ReadFile(m)
			rel, _ := filepath.Rel(repo, m)
			checked[rel] = string(b)
		}
		used := map[string]bool{}
		var names []string
		for n := range generated {
			names = append(names, n)
		}
		sort.Strings(names)
		for _, n := range names {
			content := generated[n]
			s.State(n)
			s.Distinct(n)
			if c, ok := checked[n]; ok {
				used[n] = true
				if normalize(c) != normalize(content) {
					s.Fail("regen-differs "+n, "the checked-in file is not what the generator produces from the current descriptors: "+firstDiff(c, content), nil)
				}
				continue
			}
			// same content under another name in the same package?
			found := ""
			for cn, c := range checked {
				if filepath.Dir(cn) == filepath.Dir(n) && normalize(c) == normalize(content) {
					found = cn
				}
			}
			if found != "" {
				used[found] = true
				s.Note("generator names %s, the tree has the identical content as %s (file name only)", n, found)
				continue
			}
			s.Fail("regen-missing "+n, "the generator produces this file but the tree has no file with this name or content", nil)
		}
		for cn := range checked {
			if !used[cn] {
				s.Fail("regen-stale "+cn, "checked-in generated file that the generator no longer produces", nil)
			}
		}
	}
	s.Sample(fmt.Sprintf("%d proto files with %d services fed to the repository's protoc-gen-router and protoc-gen-wrapper; every produced file compared byte for byte with the tree", len(toGen), services))
}

// normalize makes the comparison insensitive to the formatting of the import block
// (goimports-style grouping / dropped redundant aliases): the import block is replaced by
// the sorted set of imported paths. Everything else is compared byte for byte.
func normalize(src string) string {
	i := strings.Index(src, "import (")
	if i < 0 {
		return src
	}
	j := strings.Index(src[i:], "\n)")
	if j < 0 {
		return src
	}
	var paths []string
	for _, l := range strings.Split(src[i+len("import ("):i+j], "\n") {
		l = strings.TrimSpace(l)
		if l == "" {
			continue
		}
		if k := strings.Index(l, "\""); k >= 0 {
			paths = append(paths, l[k:])
		}
	}
	sort.Strings(paths)
	return src[:i] + "import(" + strings.Join(paths, ";") + ")" + src[i+j+2:]
}

func firstDiff(a, b string) string {
	la, lb := strings.Split(a, "\n"), strings.Split(b, "\n")
	for i := 0; i < len(la) || i < len(lb); i++ {
		var x, y string
		if i < len(la) {
			x = la[i]
		}
		if i < len(lb) {
			y = lb[i]
		}
		if x != y {
			return fmt.Sprintf("first difference at line %d: tree has %q, generator gives %q (tree %d lines, generated %d lines)", i+1, x, y, len(la), len(lb))
		}
	}
	return "identical?"
}
