// C03 — a subscriber's folded view converges to the store's state, for every
// placement of the subscribe relative to concurrent writers, every order of
// commits and publications and every consumer pace.
package main

import (
	"context"
	"fmt"
	"sort"
	"strings"
	"sync"

	"google.golang.org/protobuf/proto"
	"google.golang.org/protobuf/types/known/fieldmaskpb"

	"github.com/smart-core-os/sc-api/go/types"
	"github.com/smart-core-os/sc-golang/internal/testproto"
	"github.com/smart-core-os/sc-golang/pkg/resource"
	"verifrt"
	"verifrt/hx"
)

type T = testproto.TestAllTypes

func msg(v int) *T { return &T{DefaultInt32: int32(v), DefaultString: fmt.Sprintf("s%d", v)} }

func show(m proto.Message) string {
	if m == nil {
		return "-"
	}
	t := m.(*T)
	return fmt.Sprintf("%d%s", t.DefaultInt32, t.DefaultString)
}

type cfg struct {
	kind         string // value | coll | id
	backpressure bool
	updatesOnly  bool
	mask         bool
	writers      [][]string // per writer thread: ops  set:N | mset:N | upd:ID:N | mup:ID:N | ups:ID:N | del:ID  (m..: with an update mask)
	// leaver: another subscriber is already there and cancels at some moment; the bus tidies it away during a
	// publication, which must not cost the observed subscriber its registration
	leaver bool
	// nodup: the collection is configured WithNoDuplicates. What the subscriber "already holds" for an id ends with
	// the item's removal: the same value written again afterwards is a new item, not a duplicate
	nodup bool
	// maskedNeighbour: another subscriber, registered first, with backpressure and a read mask, reads along: what
	// is cut down for IT is its own copy - the observed subscriber still receives whole values
	maskedNeighbour bool
	// emptyValue: the Value is built without an initial value: the subscription opens around its FIRST write
	emptyValue bool
}

func (c cfg) name() string {
	var ws []string
	for _, w := range c.writers {
		ws = append(ws, strings.Join(w, ";"))
	}
	n := fmt.Sprintf("%s/bp=%v,uo=%v,mask=%v/%s", c.kind, c.backpressure, c.updatesOnly, c.mask, strings.Join(ws, "|"))
	if c.leaver {
		n += "/+leaving-subscriber"
	}
	if c.nodup {
		n += "/collection with no-duplicates"
	}
	if c.maskedNeighbour {
		n += "/+masked backpressured neighbour"
	}
	if c.emptyValue {
		n += "/Value without an initial value"
	}
	return n
}

func body(c cfg) func() {
	name := c.name()
	return func() {
		var ropts []resource.ReadOption
		ropts = append(ropts, resource.WithBackpressure(c.backpressure), resource.WithUpdatesOnly(c.updatesOnly))
		var gopts []resource.ReadOption
		if c.mask {
			m := &fieldmaskpb.FieldMask{Paths: []string{"default_int32"}}
			ropts = append(ropts, resource.WithReadMask(m))
			gopts = append(gopts, resource.WithReadMask(m))
		}
		var val *resource.Value
		var col *resource.Collection
		if c.kind == "value" && c.emptyValue {
			val = resource.NewValue()
		} else if c.kind == "value" {
			val = resource.NewValue(resource.WithInitialValue(msg(0)))
		} else if c.nodup {
			col = resource.NewCollection(resource.WithNoDuplicates(), resource.WithInitialRecord("a", msg(0)))
		} else {
			col = resource.NewCollection(resource.WithInitialRecord("a", msg(0)))
		}
		ctx, cancel := context.WithCancel(context.Background())
		defer cancel()

		if c.maskedNeighbour {
			nm := resource.WithReadMask(&fieldmaskpb.FieldMask{Paths: []string{"default_int32"}})
			if val != nil {
				nch := val.Pull(ctx, resource.WithBackpressure(true), resource.WithUpdatesOnly(true), nm)
				go func() {
					for range nch {
					}
				}()
			} else {
				nch := col.Pull(ctx, resource.WithBackpressure(true), resource.WithUpdatesOnly(true), nm)
				go func() {
					for range nch {
					}
				}()
			}
		}
		if c.leaver {
			lctx, lcancel := context.WithCancel(context.Background())
			defer lcancel()
			if val != nil {
				val.Pull(lctx, resource.WithUpdatesOnly(true))
			} else {
				col.Pull(lctx, resource.WithUpdatesOnly(true))
			}
			go func() { lcancel() }()
		}

		// ---- subscriber: folds what it receives
		var subAt int64
		var vEvents []string         // value / id: delivered values in order
		view := map[string]string{}  // coll: folded view
		touched := map[string]bool{} // coll: ids with at least one delivered event
		var cEvents []string
		ended := false
		go func() {
			switch c.kind {
			case "value":
				ch := val.Pull(ctx, ropts...)
				subAt = verifrt.Stamp()
				for ev := range ch {
					vEvents = append(vEvents, show(ev.Value))
				}
			case "id":
				ch := col.PullID(ctx, "a", ropts...)
				subAt = verifrt.Stamp()
				for ev := range ch {
					vEvents = append(vEvents, show(ev.Value))
				}
				ended = true
			case "coll":
				ch := col.Pull(ctx, ropts...)
				subAt = verifrt.Stamp()
				for ev := range ch {
					touched[ev.Id] = true
					cEvents = append(cEvents, fmt.Sprintf("%v:%s:%s>%s", ev.ChangeType, ev.Id, show(ev.OldValue), show(ev.NewValue)))
					switch ev.ChangeType {
					case types.ChangeType_REMOVE:
						delete(view, ev.Id)
					default:
						view[ev.Id] = show(ev.NewValue)
					}
				}
			}
		}()

		// ---- writers
		type wrec struct {
			op        string
			inv, resp int64
			ok        bool
		}
		recs := make([][]wrec, len(c.writers))
		var wg sync.WaitGroup
		for wi, ops := range c.writers {
			wi, ops := wi, ops
			wg.Add(1)
			go func() {
				defer wg.Done()
				for _, o := range ops {
					f := strings.Split(o, ":")
					r := wrec{op: o, inv: verifrt.Stamp()}
					var err error
					switch f[0] {
					case "set":
						var n int
						fmt.Sscan(f[1], &n)
						_, err = val.Set(msg(n))
					case "mset": // a masked write: what is stored (number N, the text as it was) is not the message passed in
						var n int
						fmt.Sscan(f[1], &n)
						_, err = val.Set(msg(n), resource.WithUpdatePaths("default_int32"))
					case "mup":
						var n int
						fmt.Sscan(f[2], &n)
						_, err = col.Update(f[1], msg(n), resource.WithUpdatePaths("default_int32"))
					case "upd": // plain update: NotFound once the item is gone (never re-creates)
						var n int
						fmt.Sscan(f[2], &n)
						_, err = col.Update(f[1], msg(n))
					case "ups":
						var n int
						fmt.Sscan(f[2], &n)
						_, err = col.Update(f[1], msg(n), resource.WithCreateIfAbsent())
					case "upz": // create-if-absent with a body that sets no field: the item exists all the same
						_, err = col.Update(f[1], &T{}, resource.WithCreateIfAbsent())
					case "addz":
						_, err = col.Add(f[1], &T{})
					case "del":
						_, err = col.Delete(f[1], resource.WithAllowMissing(true))
					}
					r.ok = err == nil
					r.resp = verifrt.Stamp()
					recs[wi] = append(recs[wi], r)
				}
			}()
		}
		wg.Wait()
		verifrt.WaitIdle() // the reader has received everything that will ever arrive

		lateWrite := false // a successful write invoked after the subscription was open
		for _, rs := range recs {
			for _, r := range rs {
				if r.ok && subAt != 0 && r.inv > subAt {
					lateWrite = true
				}
			}
		}
		contains := func(l []string, x string) bool {
			for _, e := range l {
				if e == x {
					return true
				}
			}
			return false
		}
		kindOf := func(delivered []string, final string) string {
			// with backpressure nothing may be dropped: a stale view whose final value WAS
			// delivered earlier means a later event overtook it; otherwise it was missed
			if !c.backpressure {
				return "stale-lossy"
			}
			if contains(delivered, final) {
				return "overtaken"
			}
			return "missed"
		}
		switch c.kind {
		case "value":
			final := show(val.Get(gopts...))
			switch {
			case len(vEvents) == 0:
				if !c.updatesOnly {
					verifrt.Logf("FAIL no-seed %s ## subscription without updates-only delivered nothing; store=%s", name, final)
				} else if lateWrite {
					verifrt.Logf("FAIL missed %s ## a write invoked after Pull returned produced no event; store=%s", name, final)
				}
			case vEvents[len(vEvents)-1] != final:
				verifrt.Logf("FAIL %s %s ## events delivered %v, last is not the final value %s", kindOf(vEvents, final), name, vEvents, final)
			}
			verifrt.Logf("OUT events=%v final=%s", vEvents, final)
		case "id":
			// a scenario that removes the item and creates it again: the subscription either ends with the removal
			// or - the removal and the creation having reached it as one replacement - goes on, and then it has to
			// arrive at the new item's value like after any other change
			recreates := false
			for _, w := range c.writers {
				for _, o := range w {
					if strings.HasPrefix(o, "ups:a:") || o == "upz:a" || o == "addz:a" {
						recreates = true
					}
				}
			}
			m, ok := col.Get("a", gopts...)
			final := "-"
			if ok {
				final = show(m)
			}
			last := "-"
			if len(vEvents) > 0 {
				last = vEvents[len(vEvents)-1]
			}
			switch {
			case ended && ok && recreates:
				// the subscription ended with the removal; the item that exists now is another one
			case ended && ok:
				// the channel closes when the item is removed; a later re-creation is not followed
				// (these scenarios never re-create), so an ended subscription means: absent
				verifrt.Logf("FAIL ended-but-present %s ## PullID channel closed although the item exists (%s); events %v", name, final, vEvents)
			case !ended && !ok:
				// nothing delivered = the view says "absent", which is what the store says
				if len(vEvents) > 0 {
					verifrt.Logf("FAIL %s %s ## item was removed but the PullID channel is still open; events %v", kindOf(vEvents, final), name, vEvents)
				}
			case !ended && ok:
				if len(vEvents) == 0 {
					if !c.updatesOnly {
						verifrt.Logf("FAIL no-seed %s ## PullID without updates-only delivered nothing; store=%s", name, final)
					} else if lateWrite {
						verifrt.Logf("FAIL missed %s ## a write invoked after PullID returned produced no event; store=%s", name, final)
					}
				} else if last != final {
					verifrt.Logf("FAIL %s %s ## events delivered %v, last is not the final value %s", kindOf(vEvents, final), name, vEvents, final)
				}
			}
			verifrt.Logf("OUT events=%v ended=%v final=%s", vEvents, ended, final)
		case "coll":
			list := col.List(gopts...)
			store := map[string]string{}
			for _, m := range list {
				// ids are recovered from the values: value n of id x is written as n with s<n>; use Get per id
				_ = m
			}
			for _, id := range []string{"a", "b"} {
				if m, ok := col.Get(id, gopts...); ok {
					store[id] = show(m)
				}
			}
			if len(store) != len(list) {
				verifrt.Logf("FAIL list-get %s ## List has %d items, Get finds %d", name, len(list), len(store))
			}
			var bad []string
			for _, id := range []string{"a", "b"} {
				if c.updatesOnly && !touched[id] {
					continue
				}
				sv, sok := store[id]
				vv, vok := view[id]
				if sok != vok || sv != vv {
					bad = append(bad, fmt.Sprintf("%s: view=%q store=%q", id, vv, sv))
				}
			}
			if len(bad) > 0 {
				var delivered []string
				for _, e := range cEvents {
					delivered = append(delivered, e[strings.LastIndex(e, ">")+1:])
				}
				k := "stale-lossy"
				if c.backpressure {
					k = "overtaken"
					for _, id := range []string{"a", "b"} {
						if sv, ok := store[id]; ok && view[id] != sv && !contains(delivered, sv) {
							k = "missed"
						}
						if _, ok := store[id]; !ok {
							if _, vok := view[id]; vok {
								rm := false
								for _, e := range cEvents {
									if strings.HasPrefix(e, "REMOVE:"+id+":") {
										rm = true
									}
								}
								if !rm {
									k = "missed"
								}
							}
						}
					}
				}
				verifrt.Logf("FAIL %s %s ## folded view differs from the store: %v; events %v", k, name, bad, cEvents)
			}
			var vs []string
			for k, v := range view {
				vs = append(vs, k+"="+v)
			}
			sort.Strings(vs)
			verifrt.Logf("OUT events=%v view=%v", cEvents, vs)
		}
	}
}

func main() {
	h := hx.New("C03")
	for _, kind := range []string{"value", "coll", "id"} {
		for _, bp := range []bool{true, false} {
			for _, uo := range []bool{false, true} {
				for _, mask := range []bool{false, true} {
					var ws [][][]string
					// single-writer programs first (the subscription is opened concurrently with
					// them), then two concurrent writers
					switch kind {
					case "value":
						ws = [][][]string{{{"set:1", "set:2"}}, {{"set:1"}, {"set:2"}}, {{"mset:1", "mset:2"}}, {{"mset:1"}, {"set:2"}}}
						if !mask {
							ws = append(ws, [][]string{{"set:1", "set:3"}, {"set:2"}})
						}
					case "coll":
						ws = [][][]string{{{"upd:a:1", "del:a"}}, {{"ups:b:1", "upd:a:2"}}, {{"ups:b:1", "del:b"}}, {{"upd:a:1"}, {"upd:a:2"}}, {{"upd:a:1"}, {"del:a"}},
							{{"del:a"}, {"ups:a:2"}}, // a delete racing the re-creation of the same item
							{{"mup:a:1", "mup:a:2"}}, {{"mup:a:1"}, {"upd:a:2"}}} // masked updates: the event carries the item as stored
						if !mask {
							ws = append(ws, [][]string{{"ups:b:1"}, {"upd:a:2", "del:b"}})
						}
					case "id":
						ws = [][][]string{{{"upd:a:1", "upd:a:2"}}, {{"upd:a:1", "del:a"}}, {{"upd:a:1"}, {"upd:a:2"}}, {{"upd:a:1"}, {"del:a"}},
							{{"del:a", "ups:a:2"}}, {{"upd:a:1", "del:a", "ups:a:2"}}, // removed and created again
							{{"mup:a:1", "mup:a:2"}}, {{"upd:a:1"}, {"mup:a:2"}}}
					}
					if uo && !mask && kind != "id" {
						// one single-writer program once more, next to a subscriber that leaves
						c := cfg{kind: kind, backpressure: bp, updatesOnly: uo, writers: ws[0], leaver: true}
						h.Sched(c.name(), -1, -1, body(c), hx.StdOracle)
					}
					for k, w := range ws {
						c := cfg{kind: kind, backpressure: bp, updatesOnly: uo, mask: mask, writers: w}
						q := -1
						if len(w) == 2 && len(w[0])+len(w[1]) == 3 {
							q = -2 // 3-write two-writer histories: thorough only
						}
						_ = k
						h.Sched(c.name(), q, -1, body(c), hx.StdOracle)
					}
				}
			}
		}
	}
	for _, kind := range []string{"value", "coll", "id"} {
		for _, bp := range []bool{true, false} {
			w := [][]string{{"upd:a:1", "upd:a:2"}}
			if kind == "value" {
				w = [][]string{{"set:1", "set:2"}}
			}
			c := cfg{kind: kind, backpressure: bp, updatesOnly: true, writers: w, maskedNeighbour: true}
			h.Sched(c.name(), -1, -1, body(c), hx.StdOracle)
		}
	}
	for _, bp := range []bool{true, false} {
		for _, w := range [][][]string{{{"set:1"}}, {{"set:1", "set:2"}}, {{"set:1"}, {"set:2"}}} {
			c := cfg{kind: "value", backpressure: bp, writers: w, emptyValue: true}
			h.Sched(c.name(), -1, -1, body(c), hx.StdOracle)
		}
	}
	// items created with a body that sets no field (equal to the empty message a create starts from): they are
	// items like any other - the subscriber hears of them, of what is written to them next, and of their removal
	for _, kind := range []string{"coll", "id"} {
		for _, bp := range []bool{true, false} {
			for _, uo := range []bool{false, true} {
				ws := [][][]string{{{"upz:b"}}, {{"addz:b", "upd:b:1"}}, {{"upz:b", "del:b"}}, {{"upz:b"}, {"upd:a:1"}}}
				if kind == "id" {
					ws = [][][]string{{{"del:a", "upz:a"}}, {{"del:a", "addz:a", "upd:a:1"}}, {{"del:a"}, {"upz:a"}}}
				}
				for _, w := range ws {
					c := cfg{kind: kind, backpressure: bp, updatesOnly: uo, writers: w}
					h.Sched(c.name(), -1, -1, body(c), hx.StdOracle)
				}
			}
		}
	}
	// a collection with an equivalence: the item is removed and created again with the value it had (and with
	// another one)
	for _, bp := range []bool{true, false} {
		for _, uo := range []bool{false, true} {
			for _, w := range [][][]string{{{"del:a", "ups:a:0"}}, {{"upd:a:1", "del:a", "ups:a:1"}}, {{"del:a"}, {"ups:a:0"}}} {
				c := cfg{kind: "coll", backpressure: bp, updatesOnly: uo, writers: w, nodup: true}
				h.Sched(c.name(), -1, -1, body(c), hx.StdOracle)
			}
		}
	}
	h.Run()
}
