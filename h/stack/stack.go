// Package stack: reflection helpers shared by harnesses that drive every trait server of the registry through
// its gRPC service descriptors (discovery of Get/Update/Pull triples, message generation).
package stack

import (
	"fmt"
	"reflect"
	"sort"
	"strings"

	"google.golang.org/protobuf/reflect/protoreflect"
	"google.golang.org/protobuf/reflect/protoregistry"
	"google.golang.org/protobuf/types/known/fieldmaskpb"

	"github.com/smart-core-os/sc-golang/verif_h/reg"
)

const DevName = "dev"

func Fill(m protoreflect.Message, seed, depth int) {
	fds := m.Descriptor().Fields()
	for i := 0; i < fds.Len(); i++ {
		fd := fds.Get(i)
		if fd.IsList() || fd.IsMap() || fd.ContainingOneof() != nil {
			continue
		}
		k := seed + i
		switch fd.Kind() {
		case protoreflect.StringKind:
			m.Set(fd, protoreflect.ValueOfString(fmt.Sprintf("s%d", k)))
		case protoreflect.Int32Kind, protoreflect.Sint32Kind, protoreflect.Sfixed32Kind:
			m.Set(fd, protoreflect.ValueOfInt32(int32(k%7+1)))
		case protoreflect.Int64Kind, protoreflect.Sint64Kind, protoreflect.Sfixed64Kind:
			m.Set(fd, protoreflect.ValueOfInt64(int64(k%7+1)))
		case protoreflect.Uint32Kind, protoreflect.Fixed32Kind:
			m.Set(fd, protoreflect.ValueOfUint32(uint32(k%7+1)))
		case protoreflect.Uint64Kind, protoreflect.Fixed64Kind:
			m.Set(fd, protoreflect.ValueOfUint64(uint64(k%7+1)))
		case protoreflect.BoolKind:
			m.Set(fd, protoreflect.ValueOfBool(k%2 == 0))
		case protoreflect.FloatKind:
			m.Set(fd, protoreflect.ValueOfFloat32(float32(k%5)*10+5))
		case protoreflect.DoubleKind:
			m.Set(fd, protoreflect.ValueOfFloat64(float64(k%5)*10+5))
		case protoreflect.EnumKind:
			vs := fd.Enum().Values()
			m.Set(fd, protoreflect.ValueOfEnum(vs.Get(1+k%(vs.Len()-1)).Number()))
		case protoreflect.MessageKind:
			if depth > 0 && !strings.HasPrefix(string(fd.Message().FullName()), "google.protobuf") {
				Fill(m.Mutable(fd).Message(), seed+3, depth-1)
			}
		}
	}
}

// hint: a few resources only accept values from a documented domain
func Hint(m protoreflect.Message, seed int) {
	switch m.Descriptor().FullName() {
	case "smartcore.traits.FanSpeed":
		presets := []string{"low", "med", "high", "full"}
		m.Set(m.Descriptor().Fields().ByName("preset"), protoreflect.ValueOfString(presets[seed%len(presets)]))
	case "smartcore.traits.OpenClosePositions":
		// a preset name must be one the model was configured with (the default model has none)
		m.Clear(m.Descriptor().Fields().ByName("preset"))
		// the generic generator leaves repeated fields empty; positions without a state change nothing
		sf := m.Descriptor().Fields().ByName("states")
		st := NewOf(sf.Message())
		st.Set(sf.Message().Fields().ByName("open_percent"), protoreflect.ValueOfFloat32(float32(seed%100)))
		l := m.Mutable(sf).List()
		l.Append(protoreflect.ValueOfMessage(st))
	}
}

func NewOf(md protoreflect.MessageDescriptor) protoreflect.Message {
	mt, err := protoregistry.GlobalTypes.FindMessageByName(md.FullName())
	if err != nil {
		panic(err)
	}
	return mt.New()
}

type Method struct {
	Svc  *reg.RouterEntry
	Desc protoreflect.MethodDescriptor
}

func (m Method) Full() string { return fmt.Sprintf("/%s/%s", m.Svc.Desc.ServiceName, m.Desc.Name()) }

type Triple struct {
	Noun           string
	Get, Upd, Pull Method
	Res            protoreflect.MessageDescriptor // the resource message
	UpdField       protoreflect.FieldDescriptor   // field of the update request holding the resource
	ChangeField    protoreflect.FieldDescriptor   // field of the change message holding the resource
	ChangesField   protoreflect.FieldDescriptor   // repeated changes field of the pull response
}

// discover the Get/Update/Pull triples among all services the server implements
func Discover(server any) (services []*reg.RouterEntry, triples []Triple) {
	byName := map[string]Method{}
	for i := range reg.Routers {
		e := &reg.Routers[i]
		ht := reflect.TypeOf(e.Desc.HandlerType).Elem()
		if !reflect.TypeOf(server).Implements(ht) {
			continue
		}
		services = append(services, e)
		sd, err := protoregistry.GlobalFiles.FindDescriptorByName(protoreflect.FullName(e.Desc.ServiceName))
		if err != nil {
			continue
		}
		ms := sd.(protoreflect.ServiceDescriptor).Methods()
		for j := 0; j < ms.Len(); j++ {
			byName[string(ms.Get(j).Name())] = Method{Svc: e, Desc: ms.Get(j)}
		}
	}
	var names []string
	for n := range byName {
		names = append(names, n)
	}
	sort.Strings(names)
	for _, n := range names {
		if !strings.HasPrefix(n, "Get") {
			continue
		}
		noun := n[3:]
		g, u, p := byName[n], byName["Update"+noun], byName["Pull"+noun]
		if u.Desc == nil || p.Desc == nil {
			continue
		}
		if g.Desc.IsStreamingServer() || u.Desc.IsStreamingServer() || !p.Desc.IsStreamingServer() {
			continue
		}
		res := g.Desc.Output()
		if u.Desc.Output().FullName() != res.FullName() {
			continue
		}
		if g.Desc.Input().Fields().ByName("name") == nil || u.Desc.Input().Fields().ByName("name") == nil || p.Desc.Input().Fields().ByName("name") == nil {
			continue
		}
		// a single resource per device: the Get request names nothing but the device (requests that
		// also need an item id / key address members of a collection, not one register)
		single := true
		gf := g.Desc.Input().Fields()
		for i := 0; i < gf.Len(); i++ {
			if n := gf.Get(i).Name(); n != "name" && n != "read_mask" {
				single = false
			}
		}
		if !single {
			continue
		}
		t := Triple{Noun: noun, Get: g, Upd: u, Pull: p, Res: res}
		uf := u.Desc.Input().Fields()
		for i := 0; i < uf.Len(); i++ {
			if uf.Get(i).Kind() == protoreflect.MessageKind && uf.Get(i).Message().FullName() == res.FullName() && !uf.Get(i).IsList() {
				t.UpdField = uf.Get(i)
			}
		}
		cf := p.Desc.Output().Fields().ByName("changes")
		if t.UpdField == nil || cf == nil || !cf.IsList() || cf.Kind() != protoreflect.MessageKind {
			continue
		}
		t.ChangesField = cf
		chf := cf.Message().Fields()
		for i := 0; i < chf.Len(); i++ {
			if chf.Get(i).Kind() == protoreflect.MessageKind && chf.Get(i).Message().FullName() == res.FullName() && !chf.Get(i).IsList() {
				t.ChangeField = chf.Get(i)
			}
		}
		if t.ChangeField == nil || chf.ByName("name") == nil {
			continue
		}
		triples = append(triples, t)
	}
	return
}

func SetStr(m protoreflect.Message, field, v string) {
	if fd := m.Descriptor().Fields().ByName(protoreflect.Name(field)); fd != nil && fd.Kind() == protoreflect.StringKind {
		m.Set(fd, protoreflect.ValueOfString(v))
	}
}

func SetMask(m protoreflect.Message, field string, paths ...string) {
	if fd := m.Descriptor().Fields().ByName(protoreflect.Name(field)); fd != nil && fd.Kind() == protoreflect.MessageKind && fd.Message().FullName() == "google.protobuf.FieldMask" {
		m.Set(fd, protoreflect.ValueOfMessage((&fieldmaskpb.FieldMask{Paths: paths}).ProtoReflect()))
	}
}
