package main

// Field names are compared as names, not as strings: a trait message may have a read-only field whose name is a
// string prefix of a writable one (OpenClosePosition: open_percent / open_percent_tween, and target_open_percent
// ends like the first). "open_percent" neither contains nor is part of "open_percent_tween.progress" - only a path
// followed by "." and more is a parent. Every (update mask, writable mask) pair over these paths (up to three
// paths each) is written to a Value and to a Collection item; the clauses are those of the main scenario:
// a mask naming a field outside W is refused with InvalidArgument, a refused write changes nothing, a field outside
// M-intersect-W stays what it was, a field inside takes the written value.

import (
	"fmt"
	"strings"
	"time"

	"github.com/smart-core-os/sc-api/go/traits"
	"github.com/smart-core-os/sc-api/go/types"
	"google.golang.org/grpc/codes"
	"google.golang.org/grpc/status"
	"google.golang.org/protobuf/proto"
	"google.golang.org/protobuf/types/known/durationpb"

	"github.com/smart-core-os/sc-golang/pkg/resource"
	lib "github.com/smart-core-os/sc-golang/verif_h/lib"
	"verifrt/hx"
)

var namesLeaves = []string{"open_percent", "open_percent_tween.total_duration", "open_percent_tween.progress", "target_open_percent", "direction", "resistance"}
var namesPool = []string{"open_percent", "open_percent_tween", "open_percent_tween.total_duration", "open_percent_tween.progress", "target_open_percent", "direction"}

type namesCase struct {
	M, W mask
	Coll bool
}

func (c namesCase) key() string {
	return fmt.Sprintf("OpenClosePosition M=%v W=%v collection=%v", c.M, c.W, c.Coll)
}

func namesLeafMap(m proto.Message) map[string]string {
	r := map[string]string{}
	for _, p := range namesLeaves {
		r[p] = lib.Leaf(m, p)
	}
	return r
}

func checkNames(c namesCase) (string, string) {
	stored := &traits.OpenClosePosition{OpenPercent: 10, OpenPercentTween: &types.Tween{TotalDuration: durationpb.New(time.Second), Progress: 20}, TargetOpenPercent: 30, Direction: traits.OpenClosePosition_UP, Resistance: traits.OpenClosePosition_HELD}
	written := &traits.OpenClosePosition{OpenPercent: 11, OpenPercentTween: &types.Tween{TotalDuration: durationpb.New(2 * time.Second), Progress: 21}, TargetOpenPercent: 31, Direction: traits.OpenClosePosition_DOWN, Resistance: traits.OpenClosePosition_SLOW}
	var opts []resource.Option
	if c.W != nil {
		opts = append(opts, resource.WithWritableFields(lib.FM(c.W...)))
	}
	wopts := []resource.WriteOption{resource.WithUpdateMask(lib.FM(c.M...))}
	var get func() proto.Message
	var write func() error
	if c.Coll {
		col := resource.NewCollection(append(opts, resource.WithInitialRecord("id", stored))...)
		get = func() proto.Message { m, _ := col.Get("id"); return m }
		write = func() error { _, err := col.Update("id", written, wopts...); return err }
	} else {
		v := resource.NewValue(append(opts, resource.WithInitialValue(stored))...)
		get = func() proto.Message { return v.Get() }
		write = func() error { _, err := v.Set(written, wopts...); return err }
	}
	key := c.key()
	var before, after map[string]string
	var err error
	var panicked any
	func() {
		defer func() { panicked = recover() }()
		before = namesLeafMap(get())
		err = write()
		after = namesLeafMap(get())
	}()
	if panicked != nil {
		return "panic " + key, fmt.Sprintf("write panicked: %v", panicked)
	}
	wl := namesLeafMap(written)
	var d []string
	for _, p := range namesLeaves {
		if before[p] != after[p] {
			d = append(d, fmt.Sprintf("%s: %s -> %s", p, before[p], after[p]))
		}
	}
	diff := strings.Join(d, "; ")
	mustReject := ""
	if c.W != nil {
		for _, p := range c.M {
			ov := false
			for _, w := range c.W {
				if lib.Overlaps(p, w) {
					ov = true
				}
			}
			if !ov {
				mustReject = "path " + p + " lies outside the writable fields"
				break
			}
		}
	}
	if err != nil {
		if diff != "" {
			return "failed-write-changed-store " + key, fmt.Sprintf("write failed (%v) but the store changed: %s", err, diff)
		}
		if mustReject != "" && status.Code(err) != codes.InvalidArgument {
			return "wrong-code " + key, fmt.Sprintf("%s: expected InvalidArgument, got %v", mustReject, err)
		}
		return "", ""
	}
	if mustReject != "" {
		return "accepted-invalid-mask " + key, fmt.Sprintf("%s, yet the write was accepted; store changes: %s", mustReject, diff)
	}
	for _, p := range namesLeaves {
		in := lib.Covered(c.M, p) && (c.W == nil || lib.Covered(c.W, p))
		if !in && after[p] != before[p] {
			return "frame " + key, fmt.Sprintf("field %s lies outside update-mask ∩ writable-fields but changed: %s -> %s", p, before[p], after[p])
		}
		if in && after[p] != wl[p] {
			return "value " + key, fmt.Sprintf("field %s is inside update-mask ∩ writable-fields: stored %s, written %s, result %s", p, before[p], wl[p], after[p])
		}
	}
	return "", ""
}

func subsetsUpTo(pool []string, k int) []mask {
	var out []mask
	for m := 1; m < 1<<len(pool); m++ {
		var set mask
		for i := range pool {
			if m&(1<<i) != 0 {
				set = append(set, pool[i])
			}
		}
		if len(set) <= k {
			out = append(out, set)
		}
	}
	return out
}

func registerNames(h *hx.H) {
	h.Seq("look-alike-field-names", func(s *hx.Seq) {
		var rc namesCase
		if s.Replaying(&rc) {
			if k, m := checkNames(rc); k != "" {
				s.Fail(k, m, rc)
			}
			return
		}
		Ms := subsetsUpTo(namesPool, 3)
		Ws := append([]mask{nil}, subsetsUpTo(namesPool, 3)...)
		for _, M := range Ms {
			if !s.Own() {
				continue
			}
			for _, W := range Ws {
				for _, coll := range []bool{false, true} {
					c := namesCase{M: M, W: W, Coll: coll}
					s.Eval(1)
					s.Trans(1)
					if k, m := checkNames(c); k != "" {
						s.Fail(k, m, c)
					}
					s.State(c.key())
					s.Distinct(fmt.Sprintf("M=%v W=%v", M, W))
				}
			}
			if s.Stop() {
				return
			}
		}
		s.Sample(map[string]any{"case": namesCase{M: mask{"open_percent", "open_percent_tween"}, W: mask{"open_percent_tween.total_duration", "open_percent_tween.progress"}}.key(),
			"meaning": "open_percent is read-only although writable paths start with the same letters: the write must be refused with InvalidArgument and change nothing"})
	})
}
