// C05 — writes respect update, writable-field and reset masks: exhaustive
// enumeration of (stored, written, update mask, writable mask, extra-writable,
// reset mask) tuples through Value.Set / Collection.Update on the real code,
// checked leaf path by leaf path against an independent reference.
package main

import (
	"fmt"
	"sort"
	"strings"

	"google.golang.org/grpc/codes"
	"google.golang.org/grpc/status"
	"google.golang.org/protobuf/proto"

	"github.com/smart-core-os/sc-golang/pkg/resource"
	lib "github.com/smart-core-os/sc-golang/verif_h/lib"
	"verifrt/hx"
)

type mask []string // nil = no mask

func (m mask) String() string {
	if m == nil {
		return "nil"
	}
	return "{" + strings.Join(m, ",") + "}"
}

var oneofMembers = []string{"oneof_default_int32", "oneof_default_nested_message"}

func top(p string) string {
	if i := strings.Index(p, "."); i >= 0 {
		return p[:i]
	}
	return p
}

func isOneof(p string) bool {
	t := top(p)
	return t == oneofMembers[0] || t == oneofMembers[1]
}

func validPath(p string) bool {
	for _, q := range lib.MaskPaths {
		if p == q {
			return true
		}
	}
	for _, q := range lib.Universe {
		if p == q || strings.HasPrefix(q, p+".") {
			return true
		}
	}
	return false
}

func elems(s string) []string { // "[a b]" / "{a b}" -> elements
	s = strings.Trim(s, "[]{}")
	if s == "" {
		return nil
	}
	return strings.Split(s, " ")
}

func appendList(a, b string) string {
	return "[" + strings.Join(append(elems(a), elems(b)...), " ") + "]"
}

func mergeMap(a, b string) string {
	m := map[string]string{}
	for _, e := range append(elems(a), elems(b)...) {
		k, v, _ := strings.Cut(e, ":")
		m[k] = v
	}
	var xs []string
	for k, v := range m {
		xs = append(xs, k+":"+v)
	}
	sort.Strings(xs)
	return "{" + strings.Join(xs, " ") + "}"
}

type tuple struct {
	S, Wr      int
	M, W, X, R mask
	XAll       bool
	Coll       bool
}

func (t tuple) maskKey() string {
	x := t.X.String()
	if t.XAll {
		x = "ALL"
	}
	return fmt.Sprintf("M=%v W=%v extra=%s reset=%v", t.M, t.W, x, t.R)
}

var cat = lib.Catalogue()
var empty = &lib.T{}

// check one tuple; returns (violation key, message) or "".
func check(t tuple) (string, string) {
	stored := proto.Clone(cat[t.S])
	written := proto.Clone(cat[t.Wr])
	wl := lib.Leaves(written)
	var opts []resource.Option
	if t.W != nil {
		opts = append(opts, resource.WithWritableFields(lib.FM(t.W...)))
	}
	var wopts []resource.WriteOption
	if t.M != nil {
		wopts = append(wopts, resource.WithUpdateMask(lib.FM(t.M...)))
	}
	if t.XAll {
		wopts = append(wopts, resource.WithAllFieldsWritable())
	} else if t.X != nil {
		wopts = append(wopts, resource.WithMoreWritablePaths(t.X...))
	}
	if t.R != nil {
		wopts = append(wopts, resource.WithResetPaths(t.R...))
	}
	var before, after map[string]string
	var err error
	var panicked any
	func() {
		defer func() { panicked = recover() }()
		if t.Coll {
			c := resource.NewCollection(append(opts, resource.WithInitialRecord("id", stored))...)
			m, _ := c.Get("id")
			before = lib.Leaves(m)
			_, err = c.Update("id", written, wopts...)
			m, _ = c.Get("id")
			after = lib.Leaves(m)
		} else {
			v := resource.NewValue(append(opts, resource.WithInitialValue(stored))...)
			before = lib.Leaves(v.Get())
			_, err = v.Set(written, wopts...)
			after = lib.Leaves(v.Get())
		}
	}()
	if panicked != nil {
		return "panic " + t.maskKey(), fmt.Sprintf("write panicked: %v", panicked)
	}
	// effective writable mask
	var effW mask
	allW := t.XAll || t.W == nil
	if !allW {
		effW = append(append(mask{}, t.W...), t.X...)
	}
	diff := func() string {
		var d []string
		for _, p := range lib.Universe {
			if before[p] != after[p] {
				d = append(d, fmt.Sprintf("%s: %s -> %s", p, before[p], after[p]))
			}
		}
		return strings.Join(d, "; ")
	}
	mustReject := ""
	for _, p := range t.M {
		if !validPath(p) {
			mustReject = "unknown path " + p
			break
		}
		if !allW {
			ov := false
			for _, w := range effW {
				if lib.Overlaps(p, w) {
					ov = true
				}
			}
			if !ov {
				mustReject = "path " + p + " lies outside the writable fields"
				break
			}
		}
	}
	if err != nil {
		if d := diff(); d != "" {
			return "failed-write-changed-store " + t.maskKey(), fmt.Sprintf("write failed (%v) but the store changed: %s", err, d)
		}
		if mustReject != "" && status.Code(err) != codes.InvalidArgument {
			return "wrong-code " + t.maskKey(), fmt.Sprintf("%s: expected InvalidArgument, got %v", mustReject, err)
		}
		return "", "" // rejections of valid masks are not flagged: the statement only fixes what must be rejected
	}
	if mustReject != "" {
		return "accepted-invalid-mask " + t.maskKey(), fmt.Sprintf("%s, yet the write was accepted; store changes: %s", mustReject, diff())
	}
	if t.M != nil && len(t.M) == 0 {
		if d := diff(); d != "" {
			return "empty-mask-changed " + t.maskKey(), "empty non-nil update mask changed the store: " + d
		}
		return "", ""
	}
	oneofInE := false
	for _, om := range oneofMembers {
		if t.M == nil || lib.Covered(t.M, om) || lib.Covered(t.M, om+".a") {
			oneofInE = true
		}
		for _, mp := range t.M {
			if lib.Overlaps(mp, om) {
				oneofInE = true
			}
		}
	}
	for _, p := range lib.Universe {
		inM := t.M == nil || lib.Covered(t.M, p)
		inW := allW || lib.Covered(effW, p)
		inR := t.R != nil && lib.Covered(t.R, p)
		dflt := lib.Leaf(empty, p)
		switch {
		case inR:
			if after[p] != dflt {
				return "reset-not-cleared " + t.maskKey(), fmt.Sprintf("reset-mask field %s holds %s after the write", p, after[p])
			}
		case !(inM && inW):
			if isOneof(p) && oneofInE {
				continue // writing one member of a oneof clears the others: inherent
			}
			if after[p] != before[p] {
				return "frame " + t.maskKey(), fmt.Sprintf("field %s lies outside update-mask ∩ writable-fields but changed: %s -> %s (stored #%d, written #%d)", p, before[p], after[p], t.S, t.Wr)
			}
		default:
			named := (t.M != nil && lib.Covering(t.M, p) == p) || (t.M == nil && !strings.Contains(p, "."))
			isList := strings.HasPrefix(dflt, "[")
			isMap := strings.HasPrefix(dflt, "{")
			ok := after[p] == wl[p]
			if !ok && isList && after[p] == appendList(before[p], wl[p]) {
				ok = true // repeated field: "new values are appended" reading of FieldMask updates
			}
			if !ok && isMap && after[p] == mergeMap(before[p], wl[p]) {
				ok = true
			}
			if !ok && !named && wl[p] == dflt && after[p] == before[p] {
				ok = true // sub-message named by the mask: merge reading keeps what the written message does not set
			}
			if !ok && isOneof(p) && after[p] == dflt {
				// another member of the oneof was written later in the same call
				ok = true
			}
			if !ok {
				return "value " + t.maskKey(), fmt.Sprintf("field %s is inside update-mask ∩ writable-fields: stored %s, written %s, result %s (stored #%d, written #%d)", p, before[p], wl[p], after[p], t.S, t.Wr)
			}
		}
	}
	return "", ""
}

func masksM(thorough bool) []mask {
	ms := []mask{nil, {}}
	for _, p := range lib.MaskPaths {
		ms = append(ms, mask{p})
	}
	P := lib.MaskPaths
	for i := range P {
		for j := i + 1; j < len(P); j++ {
			if thorough || (i+j)%3 == 0 || lib.Overlaps(P[i], P[j]) {
				ms = append(ms, mask{P[i], P[j]})
			}
		}
	}
	ms = append(ms, mask{"default_int32", "default_int32"}, mask{"default_foreign_message.c", "default_foreign_message.c"},
		mask{"nope"}, mask{"default_int32.x"}, mask{"default_nested_message.zzz"}, mask{"default_string", "nope"})
	return ms
}

func masksW(thorough bool) []mask {
	ws := []mask{nil, {}, {"default_int32"}, {"default_string"}, {"default_nested_message"}, {"default_nested_message.a"},
		{"default_foreign_message.c", "default_foreign_message.d"}, {"default_foreign_message.c"},
		{"default_int32", "default_string", "default_nested_message", "default_foreign_message"},
		{"repeated_int32", "map_string_string"}, {"oneof_default_nested_message"}}
	if thorough {
		ws = append(ws, mask{"default_nested_message.a", "default_nested_message.corecursive"}, mask{"default_well_known"}, mask{"optional_int32", "oneof_default_int32"})
	}
	return ws
}

func main() {
	h := hx.New("C05")
	h.Seq("masks", func(s *hx.Seq) {
		var rt tuple
		if s.Replaying(&rt) {
			if k, m := check(rt); k != "" {
				s.Fail(k, m, rt)
			}
			return
		}
		Ms, Ws := masksM(s.Thorough), masksW(s.Thorough)
		Xs := []struct {
			x   mask
			all bool
		}{{nil, false}, {mask{"default_string"}, false}, {nil, true}}
		Rs := []mask{nil, {"default_string"}, {"default_nested_message.a"}, {"default_foreign_message"}}
		if !s.Thorough {
			Rs = Rs[:3]
		}
		n := len(cat)
		for mi, M := range Ms {
			if !s.Own() {
				continue
			}
			for _, W := range Ws {
				for _, X := range Xs {
					for ri, R := range Rs {
						for S := 0; S < n; S++ {
							for Wr := 0; Wr < n; Wr++ {
								if !s.Thorough && (S+Wr+mi+ri)%4 != 0 && !(S == n-1 || Wr == n-1 || Wr == 0) {
									continue // quick: a quarter of the stored x written grid, plus the full and empty messages
								}
								for _, coll := range []bool{false, true} {
									if coll && (S+Wr)%5 != 0 {
										continue
									}
									t := tuple{S: S, Wr: Wr, M: M, W: W, X: X.x, XAll: X.all, R: R, Coll: coll}
									s.Eval(1)
									s.Trans(1)
									k, m := check(t)
									if k != "" {
										s.Fail(k, m, t)
									} else if S != Wr {
										s.Distinct(t.maskKey())
									}
									s.State(t.maskKey())
								}
							}
						}
					}
				}
			}
			if s.Stop() {
				return
			}
		}
		s.Sample(map[string]any{"tuple": tuple{S: 12, Wr: 4, M: mask{"default_nested_message"}, W: mask{"default_nested_message.a"}}.maskKey(), "meaning": "stored = catalogue #12 (all fields set), written = #4, then every leaf of the universe is compared"})
	})
	h.Run()
}
