// C05 — writes respect update, writable-field and reset masks: exhaustive
// enumeration of (stored, written, update mask, writable mask, extra-writable,
// reset mask) tuples through Value.Set / Collection.Update on the real code,
// checked leaf path by leaf path against an independent reference.
package main

import (
	"fmt"
	"sort"
	"strings"

	"google.golang.org/grpc/codes"
	"google.golang.org/grpc/status"
	"google.golang.org/protobuf/proto"
	"google.golang.org/protobuf/types/known/fieldmaskpb"

	"github.com/smart-core-os/sc-golang/pkg/resource"
	lib "github.com/smart-core-os/sc-golang/verif_h/lib"
	"verifrt/hx"
)

type mask []string // nil = no mask

func (m mask) String() string {
	if m == nil {
		return "nil"
	}
	return "{" + strings.Join(m, ",") + "}"
}

var oneofMembers = []string{"oneof_default_int32", "oneof_default_nested_message"}

func top(p string) string {
	if i := strings.Index(p, "."); i >= 0 {
		return p[:i]
	}
	return p
}

func isOneof(p string) bool {
	t := top(p)
	return t == oneofMembers[0] || t == oneofMembers[1]
}

func validPath(p string) bool {
	for _, q := range lib.MaskPaths {
		if p == q {
			return true
		}
	}
	for _, q := range lib.Universe {
		if p == q || strings.HasPrefix(q, p+".") {
			return true
		}
	}
	return false
}

func elems(s string) []string { // "[a b]" / "{a b}" -> elements
	s = strings.Trim(s, "[]{}")
	if s == "" {
		return nil
	}
	return strings.Split(s, " ")
}

func appendList(a, b string) string {
	return "[" + strings.Join(append(elems(a), elems(b)...), " ") + "]"
}

func mergeMap(a, b string) string {
	m := map[string]string{}
	for _, e := range append(elems(a), elems(b)...) {
		k, v, _ := strings.Cut(e, ":")
		m[k] = v
	}
	var xs []string
	for k, v := range m {
		xs = append(xs, k+":"+v)
	}
	sort.Strings(xs)
	return "{" + strings.Join(xs, " ") + "}"
}

type tuple struct {
	S, Wr      int
	M, W, X, R mask
	Add        bool // Collection.Add of an item that is not there yet (S is -1: nothing stored under that id)
	U          mask // "more update paths": added to a non-nil update mask; a nil update mask stays "all writable fields"
	XAll       bool
	Coll       bool
	// NilLast (only with M == nil): the call first names an update path and then gives the nil update mask: options
	// are applied in order and the later one counts - the write is a write of all writable fields
	NilLast bool
}

func (t tuple) maskKey() string {
	x := t.X.String()
	if t.XAll {
		x = "ALL"
	}
	u := ""
	if t.U != nil {
		u = fmt.Sprintf(" more-update=%v", t.U)
	}
	if t.Add {
		u += " via Collection.Add(absent id)"
	}
	if t.NilLast {
		u += " (update path default_string given first, then the nil mask)"
	}
	return fmt.Sprintf("M=%v%s W=%v extra=%s reset=%v", t.M, u, t.W, x, t.R)
}

var cat = lib.Catalogue()
var empty = &lib.T{}

// target is one live resource a write step is applied to.
type target struct {
	v *resource.Value
	c *resource.Collection
	// the caller's extra-writable mask objects, one per path, kept and passed again by later writes to this target
	// (one option per object): whatever a write does with them, they are the caller's
	xm map[string]*fieldmaskpb.FieldMask
}

func newTarget(coll bool, w *fieldmaskpb.FieldMask, stored proto.Message) target {
	var opts []resource.Option
	if w != nil {
		opts = append(opts, resource.WithWritableFields(w))
	} else if coll {
		// "nil W meaning every field", said out loud and after a narrower option: the later option counts
		opts = append(opts, resource.WithWritablePaths(&lib.T{}, "default_string"), resource.WithWritableFields(nil))
	} else if stored != nil {
		opts = append(opts, resource.WithWritableFields(nil)) // (the same as leaving the option out, which the never-written Value below does)
	}
	if coll {
		return target{xm: map[string]*fieldmaskpb.FieldMask{}, c: resource.NewCollection(append(opts, resource.WithInitialRecord("id", stored), resource.WithInitialRecord("other", proto.Clone(stored)))...)}
	}
	if stored == nil {
		return target{xm: map[string]*fieldmaskpb.FieldMask{}, v: resource.NewValue(opts...)} // a Value that was never given a value: its first write
	}
	return target{xm: map[string]*fieldmaskpb.FieldMask{}, v: resource.NewValue(append(opts, resource.WithInitialValue(stored))...)}
}

func (g target) get(id string) proto.Message {
	if g.c != nil {
		if m, ok := g.c.Get(id); ok {
			return m
		}
		return &lib.T{} // an item that is not there reads as the empty message
	}
	if m := g.v.Get(); m != nil && m.ProtoReflect().IsValid() {
		return m
	}
	return &lib.T{} // nothing stored yet reads as the empty message
}

// check one tuple on a fresh resource; returns (violation key, message) or "".
func check(t tuple) (string, string) {
	var w *fieldmaskpb.FieldMask
	if t.W != nil {
		w = lib.FM(t.W...)
	}
	var stored proto.Message
	if t.S >= 0 {
		stored = proto.Clone(cat[t.S])
	}
	if t.Add {
		return step(newTarget(true, w, &lib.T{}), "new", t)
	}
	return step(newTarget(t.Coll, w, stored), "id", t)
}

// step applies the write described by t (its S is ignored: the stored message is whatever the resource holds)
// to item id of g and judges it against the statement.
func step(g target, id string, t tuple) (string, string) {
	written := proto.Clone(cat[t.Wr])
	wl := lib.Leaves(written)
	var wopts []resource.WriteOption
	if t.M != nil {
		wopts = append(wopts, resource.WithUpdateMask(lib.FM(t.M...)))
	} else if t.NilLast {
		wopts = append(wopts, resource.WithUpdatePaths("default_string"), resource.WithUpdateMask(nil))
	}
	key := t.maskKey()
	if t.U != nil {
		wopts = append(wopts, resource.WithMoreUpdatePaths(t.U...))
		if t.M != nil {
			// from here on t.M is the effective update mask: the union as a field mask, in which a path that one
			// of its parents already covers says nothing more
			all := append(append(mask{}, t.M...), t.U...)
			t.M = mask{}
			for _, p := range all {
				covered := false
				for _, q := range all {
					if q != p && strings.HasPrefix(p, q+".") {
						covered = true
					}
				}
				if !covered {
					t.M = append(t.M, p)
				}
			}
		}
	}
	if t.XAll {
		wopts = append(wopts, resource.WithAllFieldsWritable())
	} else if t.X != nil {
		for _, p := range t.X {
			if g.xm[p] == nil {
				g.xm[p] = lib.FM(p)
			}
			wopts = append(wopts, resource.WithMoreWritableFields(g.xm[p]))
		}
		if len(t.X) == 0 {
			wopts = append(wopts, resource.WithMoreWritablePaths())
		}
	}
	if t.R != nil {
		wopts = append(wopts, resource.WithResetPaths(t.R...))
	}
	var before, after map[string]string
	var err error
	var panicked any
	func() {
		defer func() { panicked = recover() }()
		before = lib.Leaves(g.get(id))
		if g.c != nil && t.Add {
			_, err = g.c.Add(id, written, wopts...)
		} else if g.c != nil {
			_, err = g.c.Update(id, written, wopts...)
		} else {
			_, err = g.v.Set(written, wopts...)
		}
		after = lib.Leaves(g.get(id))
	}()
	if panicked != nil {
		return "panic " + key, fmt.Sprintf("write panicked: %v", panicked)
	}
	// effective writable mask
	var effW mask
	allW := t.XAll || t.W == nil
	if !allW {
		effW = append(append(mask{}, t.W...), t.X...)
	}
	diff := func() string {
		var d []string
		for _, p := range lib.Universe {
			if before[p] != after[p] {
				d = append(d, fmt.Sprintf("%s: %s -> %s", p, before[p], after[p]))
			}
		}
		return strings.Join(d, "; ")
	}
	mustReject := ""
	for _, p := range t.M {
		if !validPath(p) {
			mustReject = "unknown path " + p
			break
		}
		if !allW {
			ov := false
			for _, w := range effW {
				if lib.Overlaps(p, w) {
					ov = true
				}
			}
			if !ov {
				mustReject = "path " + p + " lies outside the writable fields"
				break
			}
		}
	}
	if err != nil {
		if d := diff(); d != "" {
			return "failed-write-changed-store " + key, fmt.Sprintf("write failed (%v) but the store changed: %s", err, d)
		}
		if mustReject != "" && status.Code(err) != codes.InvalidArgument {
			return "wrong-code " + key, fmt.Sprintf("%s: expected InvalidArgument, got %v", mustReject, err)
		}
		return "", "" // rejections of valid masks are not flagged: the statement only fixes what must be rejected
	}
	if mustReject != "" {
		return "accepted-invalid-mask " + key, fmt.Sprintf("%s, yet the write was accepted; store changes: %s", mustReject, diff())
	}
	if t.M != nil && len(t.M) == 0 {
		if d := diff(); d != "" {
			return "empty-mask-changed " + key, "empty non-nil update mask changed the store: " + d
		}
		return "", ""
	}
	oneofInE := false
	for _, om := range oneofMembers {
		if t.M == nil || lib.Covered(t.M, om) || lib.Covered(t.M, om+".a") {
			oneofInE = true
		}
		for _, mp := range t.M {
			if lib.Overlaps(mp, om) {
				oneofInE = true
			}
		}
	}
	for _, p := range lib.Universe {
		inM := t.M == nil || lib.Covered(t.M, p)
		inW := allW || lib.Covered(effW, p)
		inR := t.R != nil && lib.Covered(t.R, p)
		dflt := lib.Leaf(empty, p)
		switch {
		case inR:
			if after[p] != dflt {
				return "reset-not-cleared " + key, fmt.Sprintf("reset-mask field %s holds %s after the write", p, after[p])
			}
		case !(inM && inW):
			if isOneof(p) && oneofInE {
				continue // writing one member of a oneof clears the others: inherent
			}
			if after[p] != before[p] {
				return "frame " + key, fmt.Sprintf("field %s lies outside update-mask ∩ writable-fields but changed: %s -> %s (stored #%d, written #%d)", p, before[p], after[p], t.S, t.Wr)
			}
		default:
			named := (t.M != nil && lib.Covering(t.M, p) == p) || (t.M == nil && !strings.Contains(p, "."))
			isList := strings.HasPrefix(dflt, "[")
			isMap := strings.HasPrefix(dflt, "{")
			ok := after[p] == wl[p]
			if !ok && isList && after[p] == appendList(before[p], wl[p]) {
				ok = true // repeated field: "new values are appended" reading of FieldMask updates
			}
			if !ok && isMap && after[p] == mergeMap(before[p], wl[p]) {
				ok = true
			}
			if !ok && !named && wl[p] == dflt && after[p] == before[p] {
				ok = true // sub-message named by the mask: merge reading keeps what the written message does not set
			}
			if !ok && isOneof(p) && after[p] == dflt {
				// another member of the oneof was written later in the same call
				ok = true
			}
			if !ok {
				return "value " + key, fmt.Sprintf("field %s is inside update-mask ∩ writable-fields: stored %s, written %s, result %s (stored #%d, written #%d)", p, before[p], wl[p], after[p], t.S, t.Wr)
			}
		}
	}
	return "", ""
}

func masksM(thorough bool) []mask {
	ms := []mask{nil, {}}
	for _, p := range lib.MaskPaths {
		ms = append(ms, mask{p})
	}
	P := lib.MaskPaths
	for i := range P {
		for j := i + 1; j < len(P); j++ {
			if thorough || (i+j)%3 == 0 || lib.Overlaps(P[i], P[j]) {
				ms = append(ms, mask{P[i], P[j]})
			}
		}
	}
	ms = append(ms, mask{"default_int32", "default_int32"}, mask{"default_foreign_message.c", "default_foreign_message.c"},
		mask{"nope"}, mask{"default_int32.x"}, mask{"default_nested_message.zzz"}, mask{"default_string", "nope"})
	return ms
}

func masksW(thorough bool) []mask {
	ws := []mask{nil, {}, {"default_int32"}, {"default_string"}, {"default_nested_message"}, {"default_nested_message.a"},
		{"default_foreign_message.c", "default_foreign_message.d"}, {"default_foreign_message.c"},
		{"default_int32", "default_string", "default_nested_message", "default_foreign_message"},
		{"repeated_int32", "map_string_string"}, {"oneof_default_nested_message"},
		// a writable field named together with one of its own parts is writable as a whole
		{"default_foreign_message", "default_foreign_message.c"}}
	if thorough {
		ws = append(ws, mask{"default_nested_message.a", "default_nested_message.corecursive"}, mask{"default_well_known"}, mask{"optional_int32", "oneof_default_int32"})
	}
	return ws
}

// seqCase: writes applied one after the other, each judged against what the resource held just before it
// and against the writable fields of THAT write (resource writable fields + its own extra-writable mask).
// Mode "same": all steps on one item; "other-item": every step but the last goes to a sibling item of the
// same Collection; "shared-mask": every step but the last goes to another resource configured with the very
// same FieldMask object.
type seqCase struct {
	W     mask
	Coll  bool
	Mode  string
	S     int
	Steps []tuple
}

func (c seqCase) key() string {
	var parts []string
	for _, t := range c.Steps {
		parts = append(parts, t.maskKey())
	}
	return fmt.Sprintf("seq/%s coll=%v W=%v [%s]", c.Mode, c.Coll, c.W, strings.Join(parts, " ; "))
}

func checkSeq(c seqCase) (string, string) {
	var w *fieldmaskpb.FieldMask
	if c.W != nil {
		w = lib.FM(c.W...)
	}
	g := newTarget(c.Coll, w, proto.Clone(cat[c.S]))
	first := g
	if c.Mode == "shared-mask" {
		first = newTarget(c.Coll, w, proto.Clone(cat[c.S]))
	}
	for i, t := range c.Steps {
		t.W, t.Coll, t.S = c.W, c.Coll, c.S
		tg, id := g, "id"
		if i < len(c.Steps)-1 {
			tg = first
			if c.Mode == "other-item" {
				id = "other"
			}
		}
		if k, m := step(tg, id, t); k != "" {
			return fmt.Sprintf("step%d %s ## %s", i+1, k, c.key()), fmt.Sprintf("write %d of %s: %s", i+1, c.key(), m)
		}
	}
	return "", ""
}

func main() {
	h := hx.New("C05")
	registerNames(h)
	h.Seq("sequences", func(s *hx.Seq) {
		var rc seqCase
		if s.Replaying(&rc) {
			if k, m := checkSeq(rc); k != "" {
				s.Fail(k, m, rc)
			}
			return
		}
		// step alphabet: update mask x extra-writable x written message
		Ms := []mask{nil, {}, {"default_int32"}, {"default_string"}, {"default_nested_message"}, {"default_nested_message.a"},
			{"default_foreign_message.c"}, {"default_foreign_message"}, {"repeated_int32"}, {"oneof_default_nested_message"}}
		type xo struct {
			x   mask
			all bool
		}
		Xs := []xo{{nil, false}, {mask{"default_string"}, false}, {mask{"default_nested_message.a", "default_foreign_message"}, false}, {mask{"default_nested_message.a"}, false}, {nil, true}}
		n := len(cat)
		Wrs := []int{4, n - 1}
		Ss := []int{n - 1}
		depth := 2
		if s.Thorough {
			Ms = append(Ms, mask{"default_foreign_message.d"}, mask{"map_string_string"}, mask{"default_int32", "default_string"}, mask{"optional_int32"})
			Xs = append(Xs, xo{mask{"default_int32"}, false}, xo{mask{"repeated_int32", "oneof_default_nested_message"}, false})
			Wrs = []int{0, 4, n - 1}
			Ss = []int{2, n - 1}
		}
		var alpha []tuple
		for _, M := range Ms {
			for _, X := range Xs {
				for _, Wr := range Wrs {
					alpha = append(alpha, tuple{M: M, X: X.x, XAll: X.all, Wr: Wr})
				}
			}
		}
		Ws := masksW(s.Thorough)
		var rec func(c seqCase, left int)
		rec = func(c seqCase, left int) {
			if left == 0 {
				s.Eval(1)
				s.Trans(len(c.Steps))
				if k, m := checkSeq(c); k != "" {
					s.Fail(k, m, c)
				} else {
					s.Distinct(c.key())
				}
				s.State(c.key())
				return
			}
			for _, t := range alpha {
				c2 := c
				c2.Steps = append(append([]tuple{}, c.Steps...), t)
				rec(c2, left-1)
			}
		}
		for _, W := range Ws {
			if !s.Own() {
				continue
			}
			for _, S := range Ss {
				for _, coll := range []bool{false, true} {
					modes := []string{"same", "shared-mask"}
					if coll {
						modes = append(modes, "other-item")
					}
					for _, mode := range modes {
						rec(seqCase{W: W, Coll: coll, Mode: mode, S: S}, depth)
					}
				}
			}
			if s.Stop() {
				return
			}
		}
		if s.Thorough {
			// depth 3 over a reduced alphabet: does anything a write leaves behind survive one more write?
			var a3 []tuple
			for _, t := range alpha {
				if t.Wr == 4 && len(t.M) <= 1 && (t.X == nil || len(t.X) == 1) {
					a3 = append(a3, t)
				}
			}
			alpha = a3
			for _, W := range Ws {
				if !s.Own() {
					continue
				}
				rec(seqCase{W: W, Coll: false, Mode: "same", S: n - 1}, 3)
				rec(seqCase{W: W, Coll: true, Mode: "other-item", S: n - 1}, 3)
				if s.Stop() {
					return
				}
			}
		}
		s.Sample(map[string]any{"sequence": seqCase{W: mask{"default_int32"}, Mode: "same", Steps: []tuple{{M: mask{"default_string"}, X: mask{"default_string"}, Wr: 4}, {M: mask{"default_string"}, Wr: 4}}}.key(),
			"meaning": "second write names a field that only the first write's extra-writable mask covered: it must be rejected and change nothing"})
	})
	h.Seq("masks", func(s *hx.Seq) {
		var rt tuple
		if s.Replaying(&rt) {
			if k, m := check(rt); k != "" {
				s.Fail(k, m, rt)
			}
			return
		}
		Ms, Ws := masksM(s.Thorough), masksW(s.Thorough)
		Xs := []struct {
			x   mask
			all bool
		}{{nil, false}, {mask{"default_string"}, false}, {nil, true}}
		// (the last one: a field named together with one of its own parts is named)
		Rs := []mask{nil, {"default_string"}, {"default_foreign_message", "default_foreign_message.c"}, {"default_nested_message.a"}, {"default_foreign_message"}}
		if !s.Thorough {
			Rs = Rs[:3]
		}
		n := len(cat)
		for mi, M := range Ms {
			if !s.Own() {
				continue
			}
			for _, W := range Ws {
				for _, X := range Xs {
					for ri, R := range Rs {
						for S := -1; S < n; S++ { // -1: a Value without an initial value (its first write)
							for Wr := 0; Wr < n; Wr++ {
								if !s.Thorough && S >= 0 && (S+Wr+mi+ri)%4 != 0 && !(S == n-1 || Wr == n-1 || Wr == 0) {
									continue // quick: a quarter of the stored x written grid, plus the full and empty messages
								}
								if !s.Thorough && S < 0 && (Wr+mi+ri)%2 != 0 && Wr != n-1 {
									continue
								}
								for ci, coll := range []bool{false, true, true} {
									add := ci == 2 // the third round: a Collection.Add of an absent item, where S=-1 stands for "nothing there"
									if (coll && !add && (S < 0 || (S+Wr)%5 != 0)) || (add && S >= 0) {
										continue
									}
									t := tuple{S: S, Wr: Wr, M: M, W: W, X: X.x, XAll: X.all, R: R, Coll: coll, Add: add}
									s.Eval(1)
									s.Trans(1)
									k, m := check(t)
									if k != "" {
										s.Fail(k, m, t)
									} else if S != Wr {
										s.Distinct(t.maskKey())
									}
									s.State(t.maskKey())
									// a nil update mask given AFTER another mask option of the same call
									if M == nil && (S+Wr)%2 == 0 {
										tn := t
										tn.NilLast = true
										s.Eval(1)
										s.Trans(1)
										if k, m := check(tn); k != "" {
											s.Fail(k, m, tn)
										}
										s.State(tn.maskKey())
									}
									// the same write once more with "more update paths" on top of its update mask
									if (S+Wr)%3 == 0 && (s.Thorough || (mi+ri)%3 == 0) {
										for _, U := range []mask{{"default_string"}, {"default_nested_message.a"}} {
											tu := t
											tu.U = U
											s.Eval(1)
											s.Trans(1)
											if k, m := check(tu); k != "" {
												s.Fail(k, m, tu)
											}
											s.State(tu.maskKey())
										}
									}
								}
							}
						}
					}
				}
			}
			if s.Stop() {
				return
			}
		}
		s.Sample(map[string]any{"tuple": tuple{S: 12, Wr: 4, M: mask{"default_nested_message"}, W: mask{"default_nested_message.a"}}.maskKey(), "meaning": "stored = catalogue #12 (all fields set), written = #4, then every leaf of the universe is compared"})
	})
	h.Run()
}
