// C01 — Value / Collection conform to a sequential register / map specification:
// explicit-state BFS over operation sequences with every (quick: pairwise) option
// combination, each step compared with a reference model; a backpressured
// subscriber (under the controlled scheduler, exact quiescence) counts events.
package main

import (
	"context"
	"encoding/base64"
	"fmt"
	"sort"
	"strings"
	"time"

	"google.golang.org/grpc/codes"
	"google.golang.org/grpc/status"
	"google.golang.org/protobuf/proto"
	"google.golang.org/protobuf/types/known/fieldmaskpb"

	"github.com/smart-core-os/sc-api/go/types"
	"github.com/smart-core-os/sc-golang/internal/testproto"
	"github.com/smart-core-os/sc-golang/pkg/resource"
	"verifrt"
	"verifrt/hx"
)

type T = testproto.TestAllTypes

// values are (a,b) = (default_int32, default_string)
type val struct {
	a int
	b string
}

func (v val) msg() *T        { return &T{DefaultInt32: int32(v.a), DefaultString: v.b} }
func (v val) String() string { return fmt.Sprintf("%d/%s", v.a, v.b) }
func of(m proto.Message) val {
	t := m.(*T)
	return val{int(t.DefaultInt32), t.DefaultString}
}

var t0 = time.Unix(1_700_000_000, 0).UTC()

type clk struct{ t time.Time }

func (c *clk) Now() time.Time { return c.t }

// scripted rng: byte k of the stream is k*41+7
type rng struct{ n int }

func (r *rng) Read(p []byte) (int, error) {
	for i := range p {
		p[i] = byte(r.n*41 + 7)
		r.n++
	}
	return len(p), nil
}

// the id GenerateUniqueId will produce on its try-th attempt when the stream is at position pos
func genCandidate(pos, try int) (string, int) {
	r := &rng{n: pos}
	b := make([]byte, 6+try)
	r.Read(b)
	return base64.RawURLEncoding.EncodeToString(b), r.n
}

// ---------------------------------------------------------------- write options

type wopts struct {
	Mask      string // "nil" | "{}" | "a" | "b" | "a,b" | "zz"
	Reset     string // "" | "b" | "zz" (a field the message does not have)
	Expect    string // "" | "value:<a>/<b>" | "check-pass" | "check-fail"
	Expect2   string // a second precondition given after the first one (same forms): a write needs BOTH to hold
	Before    bool   // InterceptBefore: value.a += old.a + 10
	After     bool   // InterceptAfter: new.b = "after:" + first letter of old.b
	WriteTime bool
	MoreU     bool // "more update paths": a is added to the update mask the call set (a nil mask stays "everything")
	MoreW     bool // this write alone may also write b (WithMoreWritablePaths): the resource's own writable fields stay what they are
	// collection only
	Create       bool
	ExpectAbsent bool
	AllowMissing bool
	GenID        bool
}

func (o wopts) String() string {
	var p []string
	if o.Mask != "nil" {
		p = append(p, "mask="+o.Mask)
	}
	if o.Reset != "" {
		p = append(p, "reset="+o.Reset)
	}
	if o.Expect != "" {
		p = append(p, "expect="+o.Expect)
	}
	if o.Expect2 != "" {
		p = append(p, "and-expect="+o.Expect2)
	}
	for _, f := range []struct {
		on bool
		n  string
	}{{o.Before, "before"}, {o.After, "after"}, {o.WriteTime, "writeTime"}, {o.MoreU, "alsoUpdate=a"}, {o.MoreW, "alsoWritable=b"}, {o.Create, "createIfAbsent"}, {o.ExpectAbsent, "expectAbsent"}, {o.AllowMissing, "allowMissing"}, {o.GenID, "genID"}} {
		if f.on {
			p = append(p, f.n)
		}
	}
	return "[" + strings.Join(p, ",") + "]"
}

// mask: the update mask that counts for the call ("more update paths" adds a to a mask that was set)
func (o wopts) mask() string {
	if !o.MoreU || o.Mask == "nil" || o.Mask == "zz" {
		return o.Mask
	}
	switch o.Mask {
	case "{}", "a":
		return "a"
	case "b":
		return "a,b"
	}
	return o.Mask // a,b
}

// holds: every precondition the call brought is satisfied by the stored value
func (o wopts) holds(old val) bool {
	exs := []string{o.Expect, o.Expect2}
	if o.Expect != "" && o.Expect2 != "" && strings.HasPrefix(o.Expect, "value:") == strings.HasPrefix(o.Expect2, "value:") {
		exs = exs[1:] // the same option given twice: the later one replaces the earlier, as with every option
	}
	for _, ex := range exs {
		if ex == "check-fail" || (strings.HasPrefix(ex, "value:") && ex[6:] != old.String()) {
			return false
		}
	}
	return true
}

var errCheck = status.Error(codes.FailedPrecondition, "check failed")

type cb struct {
	ids     []string
	created int
}

// spare hands the options over as a slice with unused capacity behind them, as a caller passing a prefix of an
// option pool does; spareWritten tells how many of the unused slots the last call wrote to.
var lastSpare []resource.WriteOption

func spare(w []resource.WriteOption) []resource.WriteOption {
	ws := make([]resource.WriteOption, len(w), len(w)+4)
	copy(ws, w)
	lastSpare = ws
	return ws
}

func spareWritten() (n int) {
	if lastSpare == nil {
		return 0
	}
	for _, o := range lastSpare[len(lastSpare):cap(lastSpare)] {
		if o != nil {
			n++
		}
	}
	lastSpare = nil
	return n
}

func (o wopts) build(c *cb) []resource.WriteOption {
	var w []resource.WriteOption
	switch o.Mask {
	case "nil":
	case "{}":
		w = append(w, resource.WithUpdateMask(&fieldmaskpb.FieldMask{}))
	default:
		var ps []string
		for _, f := range strings.Split(o.Mask, ",") {
			ps = append(ps, map[string]string{"a": "default_int32", "b": "default_string", "zz": "no_such_field"}[f])
		}
		w = append(w, resource.WithUpdatePaths(ps...))
	}
	switch o.Reset {
	case "b":
		w = append(w, resource.WithResetPaths("default_string"))
	case "zz": // a reset mask is validated whether or not the write has an update mask
		w = append(w, resource.WithResetPaths("no_such_field"))
	}
	for _, ex := range []string{o.Expect, o.Expect2} {
		switch {
		case strings.HasPrefix(ex, "value:"):
			var v val
			fmt.Sscanf(strings.Replace(ex[6:], "/", " ", 1), "%d %s", &v.a, &v.b)
			w = append(w, resource.WithExpectedValue(v.msg()))
		case ex == "check-pass":
			w = append(w, resource.WithExpectedCheck(func(proto.Message) error { return nil }))
		case ex == "check-fail":
			w = append(w, resource.WithExpectedCheck(func(proto.Message) error { return errCheck }))
		}
	}
	if o.Before {
		w = append(w, resource.InterceptBefore(func(old, n proto.Message) {
			n.(*T).DefaultInt32 += old.(*T).DefaultInt32 + 10
		}))
	}
	if o.After {
		// (it reads the OLD value: what was stored before this write, not what the write has made of it)
		w = append(w, resource.InterceptAfter(func(old, n proto.Message) { n.(*T).DefaultString = "after:" + first(old.(*T).GetDefaultString()) }))
	}
	if o.WriteTime {
		w = append(w, resource.WithWriteTime(t0.Add(-time.Hour)))
	}
	if o.MoreU {
		w = append(w, resource.WithMoreUpdatePaths("default_int32"))
	}
	if o.MoreW {
		w = append(w, resource.WithMoreWritablePaths("default_string"))
	}
	if o.Create {
		w = append(w, resource.WithCreateIfAbsent())
	}
	if o.ExpectAbsent {
		w = append(w, resource.WithExpectAbsent())
	}
	if o.AllowMissing {
		w = append(w, resource.WithAllowMissing(true))
	}
	if o.GenID {
		w = append(w, resource.WithGenIDIfAbsent())
	}
	w = append(w, resource.WithIDCallback(func(id string) { c.ids = append(c.ids, id) }), resource.WithCreatedCallback(func() { c.created++ }))
	return w
}

// ---------------------------------------------------------------- reference model

type model struct {
	writable string // "" = all, "a"
	lower    bool   // id interceptor: lower-case
	items    map[string]val
	isValue  bool
	rngPos   int
	// equiv: the resource was built with a message equivalence (here: same a). It only thins out the event
	// streams - a subscriber is not told of a value equivalent to the one it was sent last - the register
	// itself stores every successful write.
	equiv    bool
	lastSent *val
}

type outcome struct {
	code    codes.Code
	ret     string // returned message ("-" none)
	events  []string
	genID   string
	created bool
}

func (m *model) key(id string) string {
	if m.lower {
		return strings.ToLower(id)
	}
	return id
}

// merge implements: validation -> (caller handled preconditions) -> masked merge (+reset) -> after
func (m *model) validate(o wopts) codes.Code {
	if o.Mask == "zz" {
		return codes.InvalidArgument
	}
	if mk := o.mask(); m.writable == "a" && mk != "nil" && mk != "{}" {
		for _, f := range strings.Split(mk, ",") {
			if f != "a" && !(f == "b" && o.MoreW) {
				return codes.InvalidArgument
			}
		}
	}
	if o.Reset == "zz" {
		return codes.Internal // the write's own reset mask is the caller's programming error, not the client's
	}
	return codes.OK
}

func first(s string) string {
	if s == "" {
		return ""
	}
	return s[:1]
}

func (m *model) change(old val, v val, o wopts) (val, codes.Code) {
	if !o.holds(old) {
		return old, codes.FailedPrecondition
	}
	if o.Before {
		v.a += old.a + 10
	}
	n := old
	if mk := o.mask(); mk != "{}" {
		inMask := func(f string) bool { return mk == "nil" || strings.Contains(","+mk+",", ","+f+",") }
		inW := func(f string) bool { return m.writable == "" || m.writable == f || (f == "b" && o.MoreW) }
		if inMask("a") && inW("a") {
			n.a = v.a
		}
		if inMask("b") && inW("b") {
			n.b = v.b
		}
		if o.Reset == "b" {
			n.b = ""
		}
	}
	if o.After {
		n.b = "after:" + first(old.b)
	}
	return n, codes.OK
}

type op struct {
	Kind string // get | list | set | add | update | delete
	ID   string
	V    val
	O    wopts
	Read string // read mask for get/list: "nil" | "{}" | "a"
	Incl string // list include: "" | "a>0"
}

func (p op) String() string {
	switch p.Kind {
	case "get":
		return fmt.Sprintf("Get(%q,mask=%s)", p.ID, p.Read)
	case "list":
		return fmt.Sprintf("List(mask=%s,include=%s)", p.Read, p.Incl)
	case "set":
		return fmt.Sprintf("Set(%v)%v", p.V, p.O)
	case "delete":
		return fmt.Sprintf("Delete(%q)%v", p.ID, p.O)
	}
	return fmt.Sprintf("%s(%q,%v)%v", strings.Title(p.Kind), p.ID, p.V, p.O)
}

func project(v val, read string) string {
	switch read {
	case "{}":
		return val{}.String()
	case "a":
		return val{a: v.a}.String()
	}
	return v.String()
}

func (m *model) apply(p op) outcome {
	out := outcome{ret: "-"}
	switch p.Kind {
	case "get":
		if m.isValue {
			out.ret = project(m.items[""], p.Read)
			return out
		}
		if v, ok := m.items[m.key(p.ID)]; ok {
			out.ret = project(v, p.Read)
		} else {
			out.code = codes.NotFound
		}
		return out
	case "list":
		var ids []string
		for id := range m.items {
			ids = append(ids, id)
		}
		sort.Strings(ids)
		var r []string
		for _, id := range ids {
			if p.Incl == "a>0" && m.items[id].a <= 0 {
				continue
			}
			r = append(r, project(m.items[id], p.Read))
		}
		out.ret = strings.Join(r, " ")
		return out
	case "set":
		if c := m.validate(p.O); c != codes.OK {
			out.code = c
			return out
		}
		n, c := m.change(m.items[""], p.V, p.O)
		if c != codes.OK {
			out.code = c
			return out
		}
		m.items[""] = n
		out.ret = n.String()
		if m.equiv && m.lastSent != nil && m.lastSent.a == n.a {
			return out // stored, nobody is told
		}
		m.lastSent = &n
		out.events = []string{"UPDATE::" + n.String()}
		return out
	case "add", "update":
		o := p.O
		if p.Kind == "add" {
			o.Create, o.ExpectAbsent = true, true
		}
		id := m.key(p.ID)
		if c := m.validate(o); c != codes.OK {
			out.code = c
			return out
		}
		pos := m.rngPos
		if id == "" && o.GenID {
			found := false
			for try := 0; try < 10; try++ {
				var cand string
				cand, pos = genCandidate(pos, try)
				if _, exists := m.items[m.key(cand)]; !exists {
					id, found = m.key(cand), true // ids live in their intercepted form
					break
				}
			}
			m.rngPos = pos // the stream is consumed whether or not the call succeeds
			if !found {
				out.code = codes.Aborted
				return out
			}
			out.genID = id
		}
		old, exists := m.items[id]
		if exists && o.ExpectAbsent {
			out.code = codes.AlreadyExists
			return out
		}
		if !exists {
			if !o.Create {
				out.code = codes.NotFound
				return out
			}
			old = val{}
			out.created = true
		}
		n, c := m.change(old, p.V, o)
		if c != codes.OK {
			out.code = c
			out.created = false
			return out
		}
		m.items[id] = n
		out.ret = n.String()
		if exists {
			out.events = []string{fmt.Sprintf("UPDATE:%s:%v>%v", id, old, n)}
		} else {
			out.events = []string{fmt.Sprintf("ADD:%s:->%v", id, n)}
		}
		return out
	case "delete":
		id := m.key(p.ID)
		old, exists := m.items[id]
		if !exists {
			if !p.O.AllowMissing {
				out.code = codes.NotFound
			}
			return out
		}
		if !p.O.holds(old) {
			out.code = codes.FailedPrecondition
			return out
		}
		delete(m.items, id)
		out.ret = old.String()
		out.events = []string{fmt.Sprintf("REMOVE:%s:%v>-", id, old)}
		return out
	}
	panic("unknown op")
}

func (m *model) canon() string {
	var ids []string
	for id := range m.items {
		ids = append(ids, id)
	}
	sort.Strings(ids)
	var p []string
	for _, id := range ids {
		p = append(p, id+"="+m.items[id].String())
	}
	if m.equiv {
		p = append(p, fmt.Sprint("last-sent=", m.lastSent)) // decides whether the next write is announced
	}
	return fmt.Sprintf("{%s} rng=%d", strings.Join(p, " "), m.rngPos)
}

// ---------------------------------------------------------------- the real thing

type config struct {
	IsValue         bool
	Writable        string
	Lower           bool
	InterceptorLast bool           // the id interceptor is given after the initial records
	Equiv           bool           // built with a message equivalence: messages with the same a are equivalent
	Initial         map[string]val // collection: initial records
	Name            string
}

func showMsg(m proto.Message) string {
	if m == nil {
		return "-"
	}
	return of(m).String()
}

func readOpts(read, incl string) []resource.ReadOption {
	var r []resource.ReadOption
	switch read {
	case "{}":
		r = append(r, resource.WithReadMask(&fieldmaskpb.FieldMask{}))
	case "a":
		r = append(r, resource.WithReadMask(&fieldmaskpb.FieldMask{Paths: []string{"default_int32"}}))
	}
	if incl == "a>0" {
		r = append(r, resource.WithInclude(func(id string, item proto.Message) bool { return item != nil && item.(*T).DefaultInt32 > 0 }))
	}
	return r
}

// runPath executes the ops on a fresh real resource (inside one controlled execution, so
// that "no event" is a fact) and on a fresh reference model; returns the first mismatch.
func runPath(cfg config, path []op) (key, msg string, finalCanon string) {
	var failKey, failMsg, canon string
	res := verifrt.RunOnce(nil, false, func() {
		var opts []resource.Option
		ck := &clk{t0}
		r := &rng{}
		opts = append(opts, resource.WithClock(ck), resource.WithRNG(r))
		if cfg.Writable == "a" {
			opts = append(opts, resource.WithWritablePaths(&T{}, "default_int32"))
		}
		if cfg.Lower && !cfg.InterceptorLast {
			opts = append(opts, resource.WithIDInterceptor(strings.ToLower))
		}
		if cfg.Equiv {
			opts = append(opts, resource.WithMessageEquivalence(func(x, y proto.Message) bool {
				xt, _ := x.(*T)
				yt, _ := y.(*T)
				return xt != nil && yt != nil && xt.DefaultInt32 == yt.DefaultInt32
			}))
		}
		ref := &model{writable: cfg.Writable, lower: cfg.Lower, items: map[string]val{}, isValue: cfg.IsValue, equiv: cfg.Equiv}
		var value *resource.Value
		var col *resource.Collection
		ctx, cancel := context.WithCancel(context.Background())
		defer cancel()
		var events []string
		if cfg.IsValue {
			ref.items[""] = val{}
			value = resource.NewValue(append(opts, resource.WithInitialValue(val{}.msg()))...)
			ch := value.Pull(ctx, resource.WithBackpressure(true), resource.WithUpdatesOnly(true))
			go func() {
				for e := range ch {
					events = append(events, "UPDATE::"+showMsg(e.Value))
				}
			}()
		} else {
			for id, v := range cfg.Initial {
				rid := id
				if cfg.Lower {
					rid = strings.ToLower(id) // an initial record is an item like any other: reachable under its intercepted id
				}
				ref.items[rid] = v
				opts = append(opts, resource.WithInitialRecord(id, v.msg()))
			}
			if cfg.Lower && cfg.InterceptorLast {
				// options describe the collection, their order is not part of the description
				opts = append(opts, resource.WithIDInterceptor(strings.ToLower))
			}
			col = resource.NewCollection(opts...)
			ch := col.Pull(ctx, resource.WithBackpressure(true), resource.WithUpdatesOnly(true))
			go func() {
				for e := range ch {
					events = append(events, fmt.Sprintf("%v:%s:%s>%s", e.ChangeType, e.Id, showMsg(e.OldValue), showMsg(e.NewValue)))
				}
			}()
		}
		_ = types.ChangeType_ADD
		for step, p := range path {
			ck.t = t0.Add(time.Duration(step+1) * time.Second)
			events = events[:0]
			c := &cb{}
			got := outcome{ret: "-"}
			var err error
			var ret proto.Message
			pn := func() (pn any) {
				defer func() { pn = recover() }()
				switch p.Kind {
				case "get":
					if cfg.IsValue {
						ret = value.Get(readOpts(p.Read, "")...)
					} else {
						var ok bool
						ret, ok = col.Get(p.ID, readOpts(p.Read, "")...)
						if !ok {
							err = status.Error(codes.NotFound, "")
							ret = nil
						}
					}
				case "list":
					var parts []string
					for _, m := range col.List(readOpts(p.Read, p.Incl)...) {
						parts = append(parts, showMsg(m))
					}
					got.ret = strings.Join(parts, " ")
				case "set":
					ret, err = value.Set(p.V.msg(), spare(p.O.build(c))...)
				case "add":
					ret, err = col.Add(p.ID, p.V.msg(), spare(p.O.build(c))...)
				case "update":
					ret, err = col.Update(p.ID, p.V.msg(), spare(p.O.build(c))...)
				case "delete":
					ret, err = col.Delete(p.ID, spare(p.O.build(c))...)
					if err != nil {
						ret = nil // on a failed precondition Delete also returns the current value; not part of the comparison
					}
				}
				return nil
			}()
			where := fmt.Sprintf("step %d %v", step, p)
			if pn != nil {
				failKey, failMsg = "panic", fmt.Sprintf("%s panicked: %v", where, pn)
				return
			}
			if n := spareWritten(); n > 0 {
				failKey, failMsg = "caller-options-written", fmt.Sprintf("%s wrote %d option(s) into the caller's option slice beyond the length it was given: a caller that later passes a longer prefix of the same array (an option pool) gets them applied to that call", where, n)
				return
			}
			verifrt.WaitIdle()
			got.code = status.Code(err)
			if err == nil {
				got.code = codes.OK
			}
			if p.Kind != "list" {
				got.ret = showMsg(ret)
			}
			got.events = append([]string{}, events...)
			want := ref.apply(p)
			if got.code != want.code {
				failKey, failMsg = "code", fmt.Sprintf("%s returned %v, the reference model returns %v", where, got.code, want.code)
				return
			}
			if want.code == codes.OK && got.ret != want.ret {
				failKey, failMsg = "result", fmt.Sprintf("%s returned %s, the reference model returns %s", where, got.ret, want.ret)
				return
			}
			if fmt.Sprint(got.events) != fmt.Sprint(want.events) {
				failKey, failMsg = "events", fmt.Sprintf("%s emitted %v, the reference model emits %v", where, got.events, want.events)
				return
			}
			if want.code == codes.OK {
				if want.genID != "" && (len(c.ids) != 1 || c.ids[0] != want.genID) {
					failKey, failMsg = "generated-id", fmt.Sprintf("%s: id callback saw %v, expected exactly [%s]", where, c.ids, want.genID)
					return
				}
				if want.genID == "" && len(c.ids) != 0 {
					failKey, failMsg = "generated-id", fmt.Sprintf("%s: id callback saw %v though no id was generated", where, c.ids)
					return
				}
				if (p.Kind == "add" || p.Kind == "update") && c.created != map[bool]int{true: 1, false: 0}[want.created] {
					failKey, failMsg = "created-callback", fmt.Sprintf("%s: created callback ran %d times, created=%v", where, c.created, want.created)
					return
				}
			}
			// contents
			var cur string
			if cfg.IsValue {
				cur = "{=" + showMsg(value.Get()) + "}"
			} else {
				var parts []string
				for _, m := range col.List() {
					parts = append(parts, showMsg(m))
				}
				var ids []string
				for id := range ref.items {
					ids = append(ids, id)
				}
				sort.Strings(ids)
				var wparts []string
				for _, id := range ids {
					wparts = append(wparts, ref.items[id].String())
					if m, ok := col.Get(id); !ok || showMsg(m) != ref.items[id].String() {
						failKey, failMsg = "contents", fmt.Sprintf("after %s: Get(%q) gives %s, the reference model holds %v", where, id, showMsg(m), ref.items[id])
						return
					}
				}
				if strings.Join(parts, " ") != strings.Join(wparts, " ") {
					failKey, failMsg = "contents", fmt.Sprintf("after %s: List gives [%s], the reference model holds [%s] (sorted by id)", where, strings.Join(parts, " "), strings.Join(wparts, " "))
					return
				}
			}
			_ = cur
			if cfg.IsValue && showMsg(value.Get()) != ref.items[""].String() {
				failKey, failMsg = "contents", fmt.Sprintf("after %s: Get gives %s, the reference model holds %v", where, showMsg(value.Get()), ref.items[""])
				return
			}
		}
		canon = ref.canon()
	})
	if failKey == "" && res.Status != "ok" {
		return res.Status, res.Msg, ""
	}
	return failKey, failMsg, canon
}

// ---------------------------------------------------------------- alphabets

func optionCombos(thorough, collection, del bool) []wopts {
	type dim struct {
		name string
		vals []func(*wopts)
	}
	dims := []dim{
		{"mask", []func(*wopts){func(o *wopts) { o.Mask = "{}" }, func(o *wopts) { o.Mask = "a" }, func(o *wopts) { o.Mask = "b" }, func(o *wopts) { o.Mask = "a,b" }, func(o *wopts) { o.Mask = "zz" }}},
		{"reset", []func(*wopts){func(o *wopts) { o.Reset = "b" }, func(o *wopts) { o.Reset = "zz" }}},
		{"expect", []func(*wopts){func(o *wopts) { o.Expect = "value:0/" }, func(o *wopts) { o.Expect = "value:1/x" }, func(o *wopts) { o.Expect = "check-pass" }, func(o *wopts) { o.Expect = "check-fail" }}},
		{"and-expect", []func(*wopts){func(o *wopts) { o.Expect2 = "value:0/" }, func(o *wopts) { o.Expect2 = "value:1/x" }, func(o *wopts) { o.Expect2 = "check-pass" }}},
		{"before", []func(*wopts){func(o *wopts) { o.Before = true }}},
		{"after", []func(*wopts){func(o *wopts) { o.After = true }}},
		{"writeTime", []func(*wopts){func(o *wopts) { o.WriteTime = true }}},
		{"alsoWritable", []func(*wopts){func(o *wopts) { o.MoreW = true }}},
		{"alsoUpdate", []func(*wopts){func(o *wopts) { o.MoreU = true }}},
	}
	if collection {
		dims = append(dims,
			dim{"create", []func(*wopts){func(o *wopts) { o.Create = true }}},
			dim{"expectAbsent", []func(*wopts){func(o *wopts) { o.ExpectAbsent = true }}},
			dim{"genID", []func(*wopts){func(o *wopts) { o.GenID = true }}})
	}
	if del {
		dims = []dim{dims[2], dims[3], {"allowMissing", []func(*wopts){func(o *wopts) { o.AllowMissing = true }}}}
	}
	var out []wopts
	seen := map[string]bool{}
	add := func(o wopts) {
		if !seen[o.String()] {
			seen[o.String()] = true
			out = append(out, o)
		}
	}
	base := wopts{Mask: "nil"}
	add(base)
	if thorough {
		var rec func(i int, o wopts)
		rec = func(i int, o wopts) {
			if i == len(dims) {
				add(o)
				return
			}
			rec(i+1, o)
			for _, f := range dims[i].vals {
				n := o
				f(&n)
				rec(i+1, n)
			}
		}
		rec(0, base)
		return out
	}
	// quick: every single option and every pair of options from two different dimensions
	for i := range dims {
		for _, f := range dims[i].vals {
			o := base
			f(&o)
			add(o)
			for j := i + 1; j < len(dims); j++ {
				for _, g := range dims[j].vals {
					n := o
					g(&n)
					add(n)
				}
			}
		}
	}
	return out
}

func alphabet(cfg config, thorough bool) []op {
	var ops []op
	vals := []val{{1, "x"}, {2, ""}}
	if cfg.IsValue {
		for _, r := range []string{"nil", "{}", "a"} {
			ops = append(ops, op{Kind: "get", Read: r})
		}
		for _, v := range vals {
			for _, o := range optionCombos(thorough, false, false) {
				ops = append(ops, op{Kind: "set", V: v, O: o})
			}
		}
		return ops
	}
	ids := []string{"a", "A", "b", ""}
	for _, id := range ids[:3] {
		ops = append(ops, op{Kind: "get", ID: id, Read: "nil"}, op{Kind: "get", ID: id, Read: "a"})
	}
	for _, r := range []string{"nil", "a"} {
		for _, in := range []string{"", "a>0"} {
			ops = append(ops, op{Kind: "list", Read: r, Incl: in})
		}
	}
	for _, id := range ids {
		for vi, v := range vals {
			for oi, o := range optionCombos(thorough, true, false) {
				if !thorough && vi == 1 && oi%3 != 0 {
					continue
				}
				if o.GenID && id != "" && !thorough {
					continue
				}
				ops = append(ops, op{Kind: "update", ID: id, V: v, O: o})
			}
			for oi, o := range optionCombos(false, false, false) {
				if oi%4 == 0 || thorough {
					ops = append(ops, op{Kind: "add", ID: id, V: v, O: o})
				}
			}
			g := wopts{Mask: "nil", GenID: true}
			ops = append(ops, op{Kind: "add", ID: id, V: v, O: g})
		}
		for _, o := range optionCombos(true, false, true) {
			ops = append(ops, op{Kind: "delete", ID: id, O: o})
		}
	}
	return ops
}

func configs() []config {
	first, _ := genCandidate(0, 0)
	collide := map[string]val{first: {5, "taken"}}
	all := map[string]val{}
	pos := 0
	for try := 0; try < 10; try++ {
		var c string
		c, pos = genCandidate(pos, try)
		all[c] = val{7, "taken"}
	}
	return []config{
		{Name: "value", IsValue: true},
		{Name: "value/writable=a", IsValue: true, Writable: "a"},
		{Name: "value/equivalence(same a)", IsValue: true, Equiv: true},
		{Name: "collection"},
		{Name: "collection/lower-case-ids", Lower: true},
		{Name: "collection/writable=a", Writable: "a"},
		{Name: "collection/first-generated-id-taken", Initial: collide},
		{Name: "collection/all-generated-ids-taken", Initial: all},
		// the id interceptor and id generation together: the first candidate is taken - under the
		// intercepted (lower-case) form only
		{Name: "collection/lower-case-ids/initial-record-upper-case", Lower: true, Initial: map[string]val{"A": {3, "init"}}},
		{Name: "collection/lower-case-ids/initial-record-upper-case/interceptor-option-last", Lower: true, InterceptorLast: true, Initial: map[string]val{"A": {3, "init"}}},
		{Name: "collection/lower-case-ids/first-generated-id-taken", Lower: true, Initial: map[string]val{strings.ToLower(first): {5, "taken"}}},
	}
}

// plain: an operation with no option beyond what its kind implies
func plain(o op) bool {
	b := wopts{Mask: "nil"}
	return o.O.String() == b.String() || o.Kind == "get" || o.Kind == "list"
}

func bfs(s *hx.Seq, cfg config, depth int, fullProduct bool) {
	ops := alphabet(cfg, fullProduct)
	var rp struct{ Path []op }
	if s.Replaying(&rp) {
		if k, m, _ := runPath(cfg, rp.Path); k != "" {
			s.Fail(k+" "+cfg.Name+" "+fmt.Sprint(rp.Path), m, rp)
		}
		return
	}
	type node struct{ path []op }
	seen := map[string]bool{}
	_, _, c0 := runPath(cfg, nil)
	seen[c0] = true
	s.State(cfg.Name + c0)
	frontier := []node{{}}
	reported := map[string]int{}
	for d := 0; d < depth && len(frontier) > 0; d++ {
		var next []node
		for _, n := range frontier {
			for _, o := range ops {
				path := append(append([]op{}, n.path...), o)
				own := s.Own()
				if s.Stop() {
					return
				}
				if !own && o.Kind != "get" && o.Kind != "list" {
					// successors must be known to every shard; only checking is dealt out
					if fullProduct && !plain(o) {
						continue // with the full option product only plainly reached states are expanded (below)
					}
					k, _, c := runPath(cfg, path)
					if k == "" && !seen[c] {
						seen[c] = true
						next = append(next, node{path})
					}
					continue
				}
				if !own {
					continue
				}
				s.Eval(1)
				s.Trans(1)
				k, m, c := runPath(cfg, path)
				if k != "" {
					// key: clause + the failing operation with its options (not the whole prefix)
					kk := fmt.Sprintf("%s %s %v", k, cfg.Name, o)
					reported[kk]++
					if reported[kk] == 1 {
						s.Fail(kk, m+fmt.Sprintf(" (sequence %v)", path), map[string]any{"Path": path})
					}
					continue
				}
				s.Distinct(cfg.Name + c + o.O.String())
				if fullProduct && !plain(o) {
					// the full product of options (thousands per operation) is applied FROM every state that a
					// plain operation reaches; states reached only through option combinations are checked, not expanded
					s.State(cfg.Name + c)
					continue
				}
				if !seen[c] {
					seen[c] = true
					s.State(cfg.Name + c)
					next = append(next, node{path})
				}
			}
		}
		frontier = next
	}
	s.Note("%s: %d operations in the alphabet, %d canonical states, frontier left %d", cfg.Name, len(ops), len(seen), len(frontier))
	s.Sample(map[string]any{"config": cfg.Name, "example-ops": []string{ops[len(ops)/3].String(), ops[len(ops)/2].String(), ops[len(ops)-1].String()}})
}

func main() {
	h := hx.New("C01")
	for _, cfg := range configs() {
		cfg := cfg
		// quick: depth 2 with every single option and every pair of options;
		// thorough: depth 2 with the full option product ...
		h.Seq(cfg.Name, func(s *hx.Seq) {
			bfs(s, cfg, 2, s.Thorough)
		})
		// ... and depth 3 with the pairwise alphabet (thorough only)
		h.Seq(cfg.Name+"/depth3", func(s *hx.Seq) {
			if !s.Thorough {
				var rp struct{ Path []op }
				if !s.Replaying(&rp) {
					s.Note("depth 3 runs in the thorough tier only")
					return
				}
			}
			if strings.Contains(cfg.Name, "generated") {
				s.Note("the generated-id collision configurations are covered at depth 2")
				return
			}
			bfs(s, cfg, 3, false)
		})
	}
	h.Run()
}
