// C16 — message comparers are sound equivalences: every pair of messages obtained
// by mutating a common ancestor in 0-1 (quick) / 0-2 (thorough) places, every
// tolerance around the actual differences, compared with an independent
// reference equality; plus the equivalence clause of Pull streams.
package main

import (
	"context"
	"fmt"
	"google.golang.org/protobuf/types/known/structpb"
	"math"
	"math/big"
	"strings"
	"time"

	"google.golang.org/protobuf/encoding/protowire"
	"google.golang.org/protobuf/proto"
	pref "google.golang.org/protobuf/reflect/protoreflect"
	"google.golang.org/protobuf/types/known/durationpb"
	"google.golang.org/protobuf/types/known/timestamppb"

	"github.com/smart-core-os/sc-api/go/traits"
	"github.com/smart-core-os/sc-api/go/types"
	"github.com/smart-core-os/sc-golang/internal/testproto"
	"github.com/smart-core-os/sc-golang/pkg/cmp"
	"github.com/smart-core-os/sc-golang/pkg/resource"
	"verifrt/hx"
)

type T = testproto.TestAllTypes
type N = testproto.TestAllTypes_NestedMessage
type WK = testproto.WellKnown

// ---------------------------------------------------------------- reference equality

type tol struct {
	float    bool
	fraction float64
	margin   float64
	time     bool
	timeD    time.Duration
	dur      bool
	durD     time.Duration
}

func floatWithin(fx, fy float64, t tol) bool {
	if fx == fy || (math.IsNaN(fx) && math.IsNaN(fy)) {
		return true // reflexive, also for infinities and NaN
	}
	if math.IsNaN(fx) || math.IsNaN(fy) || math.IsInf(fx, 0) || math.IsInf(fy, 0) {
		return false
	}
	return math.Abs(fx-fy) <= math.Max(t.margin, t.fraction*math.Min(math.Abs(fx), math.Abs(fy)))
}

func absDur(d time.Duration) time.Duration {
	if d < 0 {
		return -d
	}
	return d
}

func refValue(fd pref.FieldDescriptor, x, y pref.Value, t tol) bool {
	switch fd.Kind() {
	case pref.FloatKind, pref.DoubleKind:
		fx, fy := x.Float(), y.Float()
		if t.float {
			return floatWithin(fx, fy, t)
		}
		return fx == fy || (math.IsNaN(fx) && math.IsNaN(fy))
	case pref.MessageKind, pref.GroupKind:
		mx, my := x.Message(), y.Message()
		switch mx.Descriptor().FullName() {
		case "google.protobuf.Timestamp":
			if t.time {
				if !mx.IsValid() || !my.IsValid() {
					return mx.IsValid() == my.IsValid()
				}
				a := mx.Interface().(*timestamppb.Timestamp)
				b := my.Interface().(*timestamppb.Timestamp)
				// exact integer arithmetic on (seconds, nanos); big: year 1 to year 9999 does not fit 64 bits of ns
				total := new(big.Int).Mul(big.NewInt(a.Seconds-b.Seconds), big.NewInt(1e9))
				total.Add(total, big.NewInt(int64(a.Nanos)-int64(b.Nanos)))
				total.Abs(total)
				return total.Cmp(big.NewInt(int64(t.timeD))) <= 0
			}
		case "google.protobuf.Duration":
			if t.dur {
				if !mx.IsValid() || !my.IsValid() {
					return mx.IsValid() == my.IsValid()
				}
				a := mx.Interface().(*durationpb.Duration)
				b := my.Interface().(*durationpb.Duration)
				// exact: the gap of two 10000-year durations does not fit 64 bits of nanoseconds
				total := new(big.Int).Mul(big.NewInt(a.Seconds-b.Seconds), big.NewInt(1e9))
				total.Add(total, big.NewInt(int64(a.Nanos)-int64(b.Nanos)))
				total.Abs(total)
				return total.Cmp(big.NewInt(int64(t.durD))) <= 0
			}
		}
		return refMessage(mx, my, t)
	case pref.BytesKind:
		return string(x.Bytes()) == string(y.Bytes())
	default:
		return x.Interface() == y.Interface()
	}
}

func ignored(fd pref.FieldDescriptor) bool {
	return fd.Name() == "change_time" && fd.ContainingMessage().Name() == "Change"
}

func refMessage(mx, my pref.Message, t tol) bool {
	if mx.Descriptor() != my.Descriptor() {
		return false
	}
	fds := mx.Descriptor().Fields()
	for i := 0; i < fds.Len(); i++ {
		fd := fds.Get(i)
		if ignored(fd) {
			continue
		}
		// a field with explicit presence (message, optional, oneof member) is unset or set; a proto3 scalar
		// without presence has no "unset": its zero IS its value and takes part in a tolerance like any other
		// populated on one side only is a difference, as for protobuf equality (which tells -0 from an unset
		// +0 that way) - except under a tolerance for that kind of value: a proto3 float has no "unset", the
		// unpopulated side holds 0, and 0 takes part in the tolerance like any other value
		if mx.Has(fd) != my.Has(fd) {
			isFloat := fd.Kind() == pref.FloatKind || fd.Kind() == pref.DoubleKind
			if fd.HasPresence() || fd.IsList() || fd.IsMap() || !(t.float && isFloat) {
				return false
			}
			if !floatWithin(mx.Get(fd).Float(), my.Get(fd).Float(), t) {
				return false
			}
			continue
		}
		if !mx.Has(fd) {
			continue
		}
		x, y := mx.Get(fd), my.Get(fd)
		switch {
		case fd.IsList():
			lx, ly := x.List(), y.List()
			if lx.Len() != ly.Len() {
				return false
			}
			for k := 0; k < lx.Len(); k++ {
				if !refValue(fd, lx.Get(k), ly.Get(k), t) {
					return false
				}
			}
		case fd.IsMap():
			ax, ay := x.Map(), y.Map()
			if ax.Len() != ay.Len() {
				return false
			}
			ok := true
			ax.Range(func(k pref.MapKey, vx pref.Value) bool {
				if !ay.Has(k) || !refValue(fd.MapValue(), vx, ay.Get(k), t) {
					ok = false
				}
				return ok
			})
			if !ok {
				return false
			}
		default:
			if !refValue(fd, x, y, t) {
				return false
			}
		}
	}
	return refUnknown(mx.GetUnknown(), my.GetUnknown())
}

func refUnknown(x, y pref.RawFields) bool {
	split := func(b pref.RawFields) map[pref.FieldNumber]string {
		m := map[pref.FieldNumber]string{}
		for len(b) > 0 {
			num, _, n := protowire.ConsumeField(b)
			if n < 0 {
				return map[pref.FieldNumber]string{-1: string(b)}
			}
			m[num] += string(b[:n])
			b = b[n:]
		}
		return m
	}
	a, c := split(x), split(y)
	if len(a) != len(c) {
		return false
	}
	for k, v := range a {
		if c[k] != v {
			return false
		}
	}
	return true
}

func refEqual(x, y proto.Message, t tol) bool {
	if x == nil || y == nil {
		return x == nil && y == nil
	}
	mx, my := x.ProtoReflect(), y.ProtoReflect()
	if mx.IsValid() != my.IsValid() {
		return false
	}
	if !mx.IsValid() {
		return mx.Descriptor() == my.Descriptor()
	}
	return refMessage(mx, my, t)
}

// ---------------------------------------------------------------- catalogue

var t0 = int64(1_700_000_000)

func bases() []proto.Message {
	f32 := func(v float32) *float32 { return &v }
	full := &T{
		DefaultInt32: 3, DefaultString: "s", DefaultBool: true, DefaultBytes: []byte{1}, DefaultFloat: 1.5, DefaultDouble: 2.5,
		OptionalFloat: f32(1), DefaultNestedMessage: &N{A: 1}, DefaultNestedEnum: testproto.TestAllTypes_BAR,
		DefaultWellKnown:   &WK{DefaultTimestamp: &timestamppb.Timestamp{Seconds: t0}, DefaultDuration: &durationpb.Duration{Seconds: 10}},
		RepeatedInt32:      []int32{1, 2},
		RepeatedFloat:      []float32{1, 2},
		RepeatedWellKnown:  []*WK{{DefaultTimestamp: &timestamppb.Timestamp{Seconds: t0}}},
		MapStringString:    map[string]string{"k": "v"},
		MapInt32Float:      map[int32]float32{1: 1},
		MapStringWellKnown: map[string]*WK{"w": {DefaultDuration: &durationpb.Duration{Seconds: 5}}},
		OneofDefault:       &testproto.TestAllTypes_OneofDefaultInt32{OneofDefaultInt32: 4},
	}
	change := &traits.PullOnOffResponse_Change{Name: "n", ChangeTime: &timestamppb.Timestamp{Seconds: t0}, OnOff: &traits.OnOff{State: traits.OnOff_ON}}
	// a message whose NAME merely ends in "Change" (sc-api has AudioLevelChange, HealthStateChange): its change_time
	// is a field like any other - only the nested "Change" messages of the Pull responses are exempt
	alc := &types.AudioLevelChange{Name: "n", ChangeTime: &timestamppb.Timestamp{Seconds: t0}, Level: &types.AudioLevel{Gain: 4}}
	return []proto.Message{&T{}, full, change, alc}
}

func am(f func(c *types.AudioLevelChange)) func(proto.Message) {
	return func(m proto.Message) {
		if c, ok := m.(*types.AudioLevelChange); ok {
			f(c)
		}
	}
}

type mut struct {
	name string
	f    func(m proto.Message)
}

func tm(f func(t *T)) func(proto.Message) {
	return func(m proto.Message) {
		if t, ok := m.(*T); ok {
			f(t)
		}
	}
}
func cm(f func(c *traits.PullOnOffResponse_Change)) func(proto.Message) {
	return func(m proto.Message) {
		if c, ok := m.(*traits.PullOnOffResponse_Change); ok {
			f(c)
		}
	}
}

func wk(t *T) *WK {
	if t.DefaultWellKnown == nil {
		t.DefaultWellKnown = &WK{}
	}
	return t.DefaultWellKnown
}

func muts() []mut {
	f32 := func(v float32) *float32 { return &v }
	i32 := func(v int32) *int32 { return &v }
	unk := func(fields ...[2]uint64) []byte {
		var b []byte
		for _, f := range fields {
			b = protowire.AppendTag(b, protowire.Number(f[0]), protowire.VarintType)
			b = protowire.AppendVarint(b, f[1])
		}
		return b
	}
	ms := []mut{
		{"int32=0", tm(func(t *T) { t.DefaultInt32 = 0 })},
		{"int32=9", tm(func(t *T) { t.DefaultInt32 = 9 })},
		{"string=''", tm(func(t *T) { t.DefaultString = "" })},
		{"string=z", tm(func(t *T) { t.DefaultString = "z" })},
		{"bool!", tm(func(t *T) { t.DefaultBool = !t.DefaultBool })},
		{"bytes=nil", tm(func(t *T) { t.DefaultBytes = nil })},
		{"bytes=[]", tm(func(t *T) { t.DefaultBytes = []byte{} })},
		{"bytes=[2]", tm(func(t *T) { t.DefaultBytes = []byte{2} })},
		{"float=+0", tm(func(t *T) { t.DefaultFloat = 0 })},
		{"float=-0", tm(func(t *T) { t.DefaultFloat = float32(math.Copysign(0, -1)) })},
		{"float=0.0625", tm(func(t *T) { t.DefaultFloat = 0.0625 })}, // within tolerance of the zero value: unset vs set
		{"float=0.25", tm(func(t *T) { t.DefaultFloat = 0.25 })},
		{"float=1.5", tm(func(t *T) { t.DefaultFloat = 1.5 })},
		{"float=1.5625", tm(func(t *T) { t.DefaultFloat = 1.5625 })},
		{"float=1.75", tm(func(t *T) { t.DefaultFloat = 1.75 })},
		{"float=NaN", tm(func(t *T) { t.DefaultFloat = float32(math.NaN()) })},
		{"float=+Inf", tm(func(t *T) { t.DefaultFloat = float32(math.Inf(1)) })},
		{"float=-Inf", tm(func(t *T) { t.DefaultFloat = float32(math.Inf(-1)) })},
		{"double=2.5", tm(func(t *T) { t.DefaultDouble = 2.5 })},
		{"double=2.75", tm(func(t *T) { t.DefaultDouble = 2.75 })},
		{"double=-2.5", tm(func(t *T) { t.DefaultDouble = -2.5 })},
		// below zero the relative tolerance still goes by the SMALLER magnitude: -100 vs -110.5 differ by 10.5, more
		// than a tenth of 100 and less than a tenth of 110.5; -20 vs 1 lies across zero
		{"double=-100", tm(func(t *T) { t.DefaultDouble = -100 })},
		{"double=-110.5", tm(func(t *T) { t.DefaultDouble = -110.5 })},
		{"double=-109.5", tm(func(t *T) { t.DefaultDouble = -109.5 })},
		{"double=-20", tm(func(t *T) { t.DefaultDouble = -20 })},
		{"double=NaN", tm(func(t *T) { t.DefaultDouble = math.NaN() })},
		{"double=+Inf", tm(func(t *T) { t.DefaultDouble = math.Inf(1) })},
		{"optfloat=unset", tm(func(t *T) { t.OptionalFloat = nil })},
		{"optfloat=0", tm(func(t *T) { t.OptionalFloat = f32(0) })},
		{"optfloat=1.25", tm(func(t *T) { t.OptionalFloat = f32(1.25) })},
		{"optint=0", tm(func(t *T) { t.OptionalInt32 = i32(0) })},
		{"nested=nil", tm(func(t *T) { t.DefaultNestedMessage = nil })},
		{"nested={}", tm(func(t *T) { t.DefaultNestedMessage = &N{} })},
		{"nested.a=2", tm(func(t *T) { t.DefaultNestedMessage = &N{A: 2} })},
		{"enum=BAZ", tm(func(t *T) { t.DefaultNestedEnum = testproto.TestAllTypes_BAZ })},
		{"oneof=int5", tm(func(t *T) { t.OneofDefault = &testproto.TestAllTypes_OneofDefaultInt32{OneofDefaultInt32: 5} })},
		{"oneof=int0", tm(func(t *T) { t.OneofDefault = &testproto.TestAllTypes_OneofDefaultInt32{OneofDefaultInt32: 0} })},
		{"oneof=nested", tm(func(t *T) {
			t.OneofDefault = &testproto.TestAllTypes_OneofDefaultNestedMessage{OneofDefaultNestedMessage: &N{}}
		})},
		{"oneof=none", tm(func(t *T) { t.OneofDefault = nil })},
		{"ts=nil", tm(func(t *T) { wk(t).DefaultTimestamp = nil })},
		{"ts=t0", tm(func(t *T) { wk(t).DefaultTimestamp = &timestamppb.Timestamp{Seconds: t0} })},
		{"ts=t0+1ns", tm(func(t *T) { wk(t).DefaultTimestamp = &timestamppb.Timestamp{Seconds: t0, Nanos: 1} })},
		{"ts=t0+1s", tm(func(t *T) { wk(t).DefaultTimestamp = &timestamppb.Timestamp{Seconds: t0 + 1} })},
		{"ts=t0-1s", tm(func(t *T) { wk(t).DefaultTimestamp = &timestamppb.Timestamp{Seconds: t0 - 1} })},
		{"ts=t0+1s+1ns", tm(func(t *T) { wk(t).DefaultTimestamp = &timestamppb.Timestamp{Seconds: t0 + 1, Nanos: 1} })},
		// the ends of the Timestamp range: further apart than a time.Duration can say ("never" vs now)
		{"ts=year1", tm(func(t *T) { wk(t).DefaultTimestamp = &timestamppb.Timestamp{Seconds: -62135596800} })},
		{"ts=year9999", tm(func(t *T) { wk(t).DefaultTimestamp = &timestamppb.Timestamp{Seconds: 253402300799} })},
		{"dur=nil", tm(func(t *T) { wk(t).DefaultDuration = nil })},
		{"dur=10s", tm(func(t *T) { wk(t).DefaultDuration = &durationpb.Duration{Seconds: 10} })},
		{"dur=10s+1ns", tm(func(t *T) { wk(t).DefaultDuration = &durationpb.Duration{Seconds: 10, Nanos: 1} })},
		{"dur=11s", tm(func(t *T) { wk(t).DefaultDuration = &durationpb.Duration{Seconds: 11} })},
		{"dur=-10s", tm(func(t *T) { wk(t).DefaultDuration = &durationpb.Duration{Seconds: -10} })},
		{"dur=0", tm(func(t *T) { wk(t).DefaultDuration = &durationpb.Duration{} })},
		// fractions on both sides of zero: the gap's nanoseconds carry into its seconds
		{"dur=-0.6s", tm(func(t *T) { wk(t).DefaultDuration = &durationpb.Duration{Nanos: -600000000} })},
		{"dur=+0.7s", tm(func(t *T) { wk(t).DefaultDuration = &durationpb.Duration{Nanos: 700000000} })},
		{"dur=-1.9s", tm(func(t *T) { wk(t).DefaultDuration = &durationpb.Duration{Seconds: -1, Nanos: -900000000} })},
		// beyond what a time.Duration can hold (about 292 years): a durationpb.Duration reaches 10000 years
		{"dur=+200y", tm(func(t *T) { wk(t).DefaultDuration = &durationpb.Duration{Seconds: 200 * 31557600} })},
		{"dur=-200y", tm(func(t *T) { wk(t).DefaultDuration = &durationpb.Duration{Seconds: -200 * 31557600} })},
		{"dur=300y", tm(func(t *T) { wk(t).DefaultDuration = &durationpb.Duration{Seconds: 300 * 31557600} })},
		{"dur=400y", tm(func(t *T) { wk(t).DefaultDuration = &durationpb.Duration{Seconds: 400 * 31557600} })},
		{"wk=nil", tm(func(t *T) { t.DefaultWellKnown = nil })},
		{"rint+3", tm(func(t *T) { t.RepeatedInt32 = append(append([]int32{}, t.RepeatedInt32...), 3) })},
		{"rint[0]=7", tm(func(t *T) {
			t.RepeatedInt32 = append([]int32{}, t.RepeatedInt32...)
			if len(t.RepeatedInt32) > 0 {
				t.RepeatedInt32[0] = 7
			} else {
				t.RepeatedInt32 = []int32{7}
			}
		})},
		{"rint=nil", tm(func(t *T) { t.RepeatedInt32 = nil })},
		{"rfloat[0]=1.0625", tm(func(t *T) {
			t.RepeatedFloat = append([]float32{}, t.RepeatedFloat...)
			if len(t.RepeatedFloat) > 0 {
				t.RepeatedFloat[0] = 1.0625
			} else {
				t.RepeatedFloat = []float32{1.0625}
			}
		})},
		{"rfloat[last]=2.5", tm(func(t *T) {
			t.RepeatedFloat = append([]float32{}, t.RepeatedFloat...)
			if n := len(t.RepeatedFloat); n > 0 {
				t.RepeatedFloat[n-1] = 2.5
			} else {
				t.RepeatedFloat = []float32{2.5}
			}
		})},
		// zero with either sign and NaN with either bit pattern, where BOTH messages have the field populated
		// (protobuf equality: +0 == -0, every NaN equals every NaN)
		{"rfloat=[+0]", tm(func(t *T) { t.RepeatedFloat = []float32{0} })},
		{"rfloat=[-0]", tm(func(t *T) { t.RepeatedFloat = []float32{float32(math.Copysign(0, -1))} })},
		{"rfloat=[NaN]", tm(func(t *T) { t.RepeatedFloat = []float32{float32(math.NaN())} })},
		{"rfloat=[NaN']", tm(func(t *T) { t.RepeatedFloat = []float32{math.Float32frombits(0xffc00001)} })},
		{"mapf[1]=+0", tm(func(t *T) { t.MapInt32Float = map[int32]float32{1: 0} })},
		{"mapf[1]=-0", tm(func(t *T) { t.MapInt32Float = map[int32]float32{1: float32(math.Copysign(0, -1))} })},
		{"double=NaN'", tm(func(t *T) { t.DefaultDouble = math.Float64frombits(0xfff8000000000001) })},
		{"rwk[0].ts+1s", tm(func(t *T) { t.RepeatedWellKnown = []*WK{{DefaultTimestamp: &timestamppb.Timestamp{Seconds: t0 + 1}}} })},
		{"map+k2", tm(func(t *T) { t.MapStringString = map[string]string{"k": "v", "k2": "v"} })},
		{"map.k=w", tm(func(t *T) { t.MapStringString = map[string]string{"k": "w"} })},
		{"map=nil", tm(func(t *T) { t.MapStringString = nil })},
		{"mapf[1]=1.0625", tm(func(t *T) { t.MapInt32Float = map[int32]float32{1: 1.0625} })},
		{"mapf[1]=2", tm(func(t *T) { t.MapInt32Float = map[int32]float32{1: 2} })},
		{"mapwk.w.dur=6s", tm(func(t *T) {
			t.MapStringWellKnown = map[string]*WK{"w": {DefaultDuration: &durationpb.Duration{Seconds: 6}}}
		})},
		{"unknown=A", tm(func(t *T) { t.ProtoReflect().SetUnknown(unk([2]uint64{1000, 1})) })},
		{"unknown=AB", tm(func(t *T) { t.ProtoReflect().SetUnknown(unk([2]uint64{1000, 1}, [2]uint64{1001, 2})) })},
		{"unknown=BA", tm(func(t *T) { t.ProtoReflect().SetUnknown(unk([2]uint64{1001, 2}, [2]uint64{1000, 1})) })},
		{"unknown=AA'", tm(func(t *T) { t.ProtoReflect().SetUnknown(unk([2]uint64{1000, 1}, [2]uint64{1000, 2})) })},
		{"unknown=A'A", tm(func(t *T) { t.ProtoReflect().SetUnknown(unk([2]uint64{1000, 2}, [2]uint64{1000, 1})) })},
		// a field number that comes twice with another number in between (records of one number are compared as a
		// group, in their order; the order of the groups does not matter)
		{"unknown=ABA'", tm(func(t *T) {
			t.ProtoReflect().SetUnknown(unk([2]uint64{1000, 1}, [2]uint64{1001, 2}, [2]uint64{1000, 3}))
		})},
		{"unknown=BAA'", tm(func(t *T) {
			t.ProtoReflect().SetUnknown(unk([2]uint64{1001, 2}, [2]uint64{1000, 1}, [2]uint64{1000, 3}))
		})},
		{"unknown=AA'B", tm(func(t *T) {
			t.ProtoReflect().SetUnknown(unk([2]uint64{1000, 1}, [2]uint64{1000, 3}, [2]uint64{1001, 2}))
		})},
		{"unknown=AA'A'", tm(func(t *T) {
			t.ProtoReflect().SetUnknown(unk([2]uint64{1000, 1}, [2]uint64{1000, 3}, [2]uint64{1000, 3}))
		})},
		{"unknown=A'BA", tm(func(t *T) {
			t.ProtoReflect().SetUnknown(unk([2]uint64{1000, 3}, [2]uint64{1001, 2}, [2]uint64{1000, 1}))
		})},
		// the Change message
		{"change_time=nil", cm(func(c *traits.PullOnOffResponse_Change) { c.ChangeTime = nil })},
		{"change_time+1s", cm(func(c *traits.PullOnOffResponse_Change) { c.ChangeTime = &timestamppb.Timestamp{Seconds: t0 + 1} })},
		{"audio-level-change.change_time=nil", am(func(c *types.AudioLevelChange) { c.ChangeTime = nil })},
		{"audio-level-change.change_time+1s", am(func(c *types.AudioLevelChange) { c.ChangeTime = &timestamppb.Timestamp{Seconds: t0 + 1} })},
		{"audio-level-change.gain=5", am(func(c *types.AudioLevelChange) { c.Level = &types.AudioLevel{Gain: 5} })},
		{"change.name=m", cm(func(c *traits.PullOnOffResponse_Change) { c.Name = "m" })},
		{"change.onoff=OFF", cm(func(c *traits.PullOnOffResponse_Change) { c.OnOff = &traits.OnOff{State: traits.OnOff_OFF} })},
		{"change.onoff=nil", cm(func(c *traits.PullOnOffResponse_Change) { c.OnOff = nil })},
	}
	return ms
}

type comparer struct {
	name string
	msg  cmp.Message
	t    tol
}

func comparers() []comparer {
	cs := []comparer{{"Equal()", cmp.Equal(), tol{}}}
	for _, fm := range [][2]float64{{0, 0}, {0, 0.0625}, {0, 0.25}, {0, 0.5}, {0.1, 0}, {0.01, 0.125}} {
		t := tol{float: true, fraction: fm[0], margin: fm[1]}
		cs = append(cs, comparer{fmt.Sprintf("Equal(FloatValueApprox(%v,%v))", fm[0], fm[1]), cmp.Equal(cmp.FloatValueApprox(fm[0], fm[1])), t})
	}
	for _, d := range []time.Duration{0, 1, time.Second - 1, time.Second, time.Second + 1, 2 * time.Second} {
		cs = append(cs, comparer{fmt.Sprintf("Equal(TimeValueWithin(%v))", d), cmp.Equal(cmp.TimeValueWithin(d)), tol{time: true, timeD: d}})
		cs = append(cs, comparer{fmt.Sprintf("Equal(DurationValueWithin(%v))", d), cmp.Equal(cmp.DurationValueWithin(d)), tol{dur: true, durD: d}})
	}
	all := tol{float: true, margin: 0.25, time: true, timeD: time.Second, dur: true, durD: time.Second}
	cs = append(cs, comparer{"Equal(Float(0,0.25),Time(1s),Duration(1s))", cmp.Equal(cmp.FloatValueApprox(0, 0.25), cmp.TimeValueWithin(time.Second), cmp.DurationValueWithin(time.Second)), all})
	return cs
}

type pcase struct {
	Base int
	A, B []int // mutation indices applied to x and y
	Cmp  string
}

func build(base int, ms []int, all []mut) proto.Message {
	m := proto.Clone(bases()[base])
	for _, i := range ms {
		all[i].f(m)
	}
	return m
}

func describe(c pcase, all []mut) string {
	n := func(ix []int) string {
		var s []string
		for _, i := range ix {
			s = append(s, all[i].name)
		}
		return "[" + strings.Join(s, ",") + "]"
	}
	return fmt.Sprintf("base#%d x=%s y=%s", c.Base, n(c.A), n(c.B))
}

func checkPair(c pcase, cs []comparer, all []mut, fail func(k, m string)) {
	x, y := build(c.Base, c.A, all), build(c.Base, c.B, all)
	d := describe(c, all)
	for _, cp := range cs {
		if c.Cmp != "" && c.Cmp != cp.name {
			continue
		}
		var got, gotR, selfX bool
		p := func() (p any) {
			defer func() { p = recover() }()
			got, gotR, selfX = cp.msg(x, y), cp.msg(y, x), cp.msg(x, x)
			return nil
		}()
		cc := c
		cc.Cmp = cp.name
		_ = cc
		if p != nil {
			fail("panic "+cp.name+" "+d, fmt.Sprintf("comparer panicked: %v", p))
			continue
		}
		if !selfX {
			fail("not-reflexive "+cp.name+" "+describeOne(c.Base, c.A, all), "c(x,x) is false")
		}
		if got != gotR {
			fail("not-symmetric "+cp.name+" "+d, fmt.Sprintf("c(x,y)=%v but c(y,x)=%v", got, gotR))
			continue
		}
		want := refEqual(x, y, cp.t)
		if got != want {
			pe := proto.Equal(x, y)
			fail("verdict "+cp.name+" "+d, fmt.Sprintf("comparer says %v, the reference says %v (proto.Equal=%v)", got, want, pe))
		}
	}
	// the reference itself must agree with proto.Equal where no tolerance / exception applies
	if _, isChange := x.(*traits.PullOnOffResponse_Change); !isChange {
		if refEqual(x, y, tol{}) != proto.Equal(x, y) {
			fail("REFERENCE-BUG "+d, "the reference equality disagrees with proto.Equal")
		}
	}
}

// checkOneof: scalar members of a oneof HAVE presence ("this member is the one that is set"): unset versus set
// is a difference under every comparer, whatever the member's value and whatever the tolerance.
// TestAllTypes has no float member in a oneof; structpb.Value has (number_value).
func checkOneof(cs []comparer, fail func(k, m string)) int {
	vals := []*structpb.Value{
		{}, structpb.NewNumberValue(0), structpb.NewNumberValue(0.0625), structpb.NewNumberValue(0.25), structpb.NewNumberValue(1.5), structpb.NewNumberValue(1.5625),
		structpb.NewStringValue(""), structpb.NewStringValue("x"), structpb.NewBoolValue(false), structpb.NewNullValue(),
		structpb.NewListValue(&structpb.ListValue{Values: []*structpb.Value{structpb.NewNumberValue(0), {}}}),
		structpb.NewListValue(&structpb.ListValue{Values: []*structpb.Value{structpb.NewNumberValue(0.0625), structpb.NewNumberValue(0)}}),
	}
	n := 0
	for i, x := range vals {
		for j, y := range vals {
			for _, cp := range cs {
				n++
				var got bool
				if p := func() (p any) {
					defer func() { p = recover() }()
					got = cp.msg(x, y)
					return nil
				}(); p != nil {
					fail(fmt.Sprintf("panic %s oneof #%d #%d", cp.name, i, j), fmt.Sprint(p))
					continue
				}
				if want := refEqual(x, y, cp.t); got != want {
					fail(fmt.Sprintf("verdict %s oneof x=%v y=%v", cp.name, x, y), fmt.Sprintf("comparer says %v, the reference says %v (proto.Equal=%v)", got, want, proto.Equal(x, y)))
				}
			}
			if refEqual(x, y, tol{}) != proto.Equal(x, y) {
				fail(fmt.Sprintf("REFERENCE-BUG oneof x=%v y=%v", x, y), "the reference equality disagrees with proto.Equal")
			}
		}
	}
	return n
}

func describeOne(base int, ms []int, all []mut) string {
	var s []string
	for _, i := range ms {
		s = append(s, all[i].name)
	}
	return fmt.Sprintf("base#%d x=[%s]", base, strings.Join(s, ","))
}

// ---------------------------------------------------------------- value-level logic

func checkLogic(fail func(k, m string)) int {
	n := 0
	fdF := (&T{}).ProtoReflect().Descriptor().Fields().ByName("default_float")
	fdI := (&T{}).ProtoReflect().Descriptor().Fields().ByName("default_int32")
	fdTs := (&WK{}).ProtoReflect().Descriptor().Fields().ByName("default_timestamp")
	type in struct {
		fd   pref.FieldDescriptor
		x, y pref.Value
		name string
	}
	ts := func(s int64) pref.Value {
		return pref.ValueOfMessage((&timestamppb.Timestamp{Seconds: s}).ProtoReflect())
	}
	ins := []in{
		{fdF, pref.ValueOfFloat32(1), pref.ValueOfFloat32(1.1), "float 1 vs 1.1"},
		{fdF, pref.ValueOfFloat32(1), pref.ValueOfFloat32(3), "float 1 vs 3"},
		{fdF, pref.ValueOfFloat32(1), pref.ValueOfFloat32(1), "float 1 vs 1"},
		{fdI, pref.ValueOfInt32(1), pref.ValueOfInt32(2), "int 1 vs 2"},
		{fdTs, ts(1), ts(2), "ts 1 vs 2"},
		{fdTs, ts(1), ts(9), "ts 1 vs 9"},
	}
	vals := map[string]cmp.Value{
		"F(0.5)": cmp.FloatValueApprox(0, 0.5), "F(0.01)": cmp.FloatValueApprox(0, 0.01), "T(2s)": cmp.TimeValueWithin(2 * time.Second), "T(0)": cmp.TimeValueWithin(0),
		"D(1s)": cmp.DurationValueWithin(time.Second),
	}
	names := []string{"F(0.5)", "F(0.01)", "T(2s)", "T(0)", "D(1s)"}
	for _, i := range ins {
		for _, a := range names {
			for _, b := range names {
				n++
				ea, oka := vals[a](i.fd, i.x, i.y)
				eb, okb := vals[b](i.fd, i.x, i.y)
				ae, aok := cmp.ValueAnd(vals[a], vals[b])(i.fd, i.x, i.y)
				oe, ook := cmp.ValueOr(vals[a], vals[b])(i.fd, i.x, i.y)
				wantOk := oka || okb
				wantAnd, wantOr := true, false
				if oka {
					wantAnd = wantAnd && ea
					wantOr = wantOr || ea
				}
				if okb {
					wantAnd = wantAnd && eb
					wantOr = wantOr || eb
				}
				if aok != wantOk || (wantOk && ae != wantAnd) {
					fail(fmt.Sprintf("logic ValueAnd(%s,%s) %s", a, b, i.name), fmt.Sprintf("got (%v,%v), operands give (%v,%v) and (%v,%v)", ae, aok, ea, oka, eb, okb))
				}
				if ook != wantOk || (wantOk && oe != wantOr) {
					fail(fmt.Sprintf("logic ValueOr(%s,%s) %s", a, b, i.name), fmt.Sprintf("got (%v,%v), operands give (%v,%v) and (%v,%v)", oe, ook, ea, oka, eb, okb))
				}
				// own kind only
				if (i.fd == fdI) && (oka || okb) {
					fail(fmt.Sprintf("foreign-kind %s/%s %s", a, b, i.name), "a tolerance comparer claimed an int32 field")
				}
			}
		}
	}
	// message level And / Or
	m1, m2 := cmp.Equal(), cmp.Equal(cmp.FloatValueApprox(0, 0.5))
	x, y := &T{DefaultFloat: 1}, &T{DefaultFloat: 1.25}
	for _, p := range [][2]proto.Message{{x, y}, {x, x}, {x, &T{DefaultFloat: 9}}} {
		n++
		a, b := m1(p[0], p[1]), m2(p[0], p[1])
		if cmp.And(m1, m2)(p[0], p[1]) != (a && b) || cmp.Or(m1, m2)(p[0], p[1]) != (a || b) {
			fail("logic And/Or", fmt.Sprintf("operands %v %v", a, b))
		}
	}
	// DurationValueWithinP: reflexive, symmetric, and sane at the extremes of every reading of "p percent"
	fdD := (&WK{}).ProtoReflect().Descriptor().Fields().ByName("default_duration")
	du := func(d time.Duration) pref.Value { return pref.ValueOfMessage(durationpb.New(d).ProtoReflect()) }
	for _, p := range []float32{0.1, 1, 10, 50} {
		c := cmp.DurationValueWithinP(p)
		for _, a := range []time.Duration{time.Second, 10 * time.Second, -time.Second, 0} {
			for _, b := range []time.Duration{time.Second, 10 * time.Second, 1001 * time.Millisecond, 2 * time.Second, -time.Second, 0} {
				n++
				var e1, e2, s1 bool
				if pn := func() (pn any) {
					defer func() { pn = recover() }()
					e1, _ = c(fdD, du(a), du(b))
					e2, _ = c(fdD, du(b), du(a))
					s1, _ = c(fdD, du(a), du(a))
					return nil
				}(); pn != nil {
					fail(fmt.Sprintf("panic DurationValueWithinP(%v) %v %v", p, a, b), fmt.Sprint(pn))
					continue
				}
				if !s1 {
					fail(fmt.Sprintf("not-reflexive DurationValueWithinP(%v) %v", p, a), "c(x,x) is false")
				}
				if e1 != e2 {
					fail(fmt.Sprintf("not-symmetric DurationValueWithinP(%v) %v %v", p, a, b), fmt.Sprintf("%v vs %v", e1, e2))
				}
				diff := math.Abs(float64(a - b))
				lo := float64(p) / 100 * math.Min(math.Abs(float64(a)), math.Abs(float64(b))) // strictest reading
				hi := math.Max(float64(p), float64(p)/100) * math.Max(math.Abs(float64(a)), math.Abs(float64(b)))
				if diff <= lo && !e1 {
					fail(fmt.Sprintf("verdict DurationValueWithinP(%v) %v %v", p, a, b), "rejected a pair within p percent under every reading")
				}
				if diff > hi && e1 {
					fail(fmt.Sprintf("verdict DurationValueWithinP(%v) %v %v", p, a, b), "accepted a pair outside p percent under every reading")
				}
			}
		}
	}
	return n
}

// WithNoDuplicates is the default comparer as a resource option: a Change message written again with nothing but
// a new change_time is the value the subscriber already holds, a Change with another state is not. All sequences of
// 1-3 writes over {ON@1s, ON@2s, OFF@2s, ON@3s} on a Value and on a Collection item.
func checkNoDuplicates(s *hx.Seq) {
	mk := func(st traits.OnOff_State, sec int64) *traits.PullOnOffResponse_Change {
		return &traits.PullOnOffResponse_Change{Name: "n", ChangeTime: &timestamppb.Timestamp{Seconds: sec}, OnOff: &traits.OnOff{State: st}}
	}
	alphabet := []*traits.PullOnOffResponse_Change{mk(traits.OnOff_ON, 1), mk(traits.OnOff_ON, 2), mk(traits.OnOff_OFF, 2), mk(traits.OnOff_ON, 3)}
	var seqs [][]int
	var rec func(cur []int)
	rec = func(cur []int) {
		if len(cur) > 0 {
			seqs = append(seqs, append([]int{}, cur...))
		}
		if len(cur) == 3 {
			return
		}
		for i := range alphabet {
			rec(append(cur, i))
		}
	}
	rec(nil)
	for _, sq := range seqs {
		for _, variant := range []int{0, 1, 2, 3} {
			coll := variant%2 == 1
			// scribble: the subscriber writes on every message it was given (its own copy, to do with as it likes):
			// what it is owed next is still judged against what it was SENT
			scribble := variant >= 2
			s.Eval(1)
			s.Trans(len(sq))
			ctx, cancel := context.WithCancel(context.Background())
			initial := mk(traits.OnOff_OFF, 0)
			var got []string
			done := make(chan struct{})
			sentinel := &traits.PullOnOffResponse_Change{Name: "end"}
			write := func(m proto.Message) {}
			if coll {
				c := resource.NewCollection(resource.WithNoDuplicates(), resource.WithInitialRecord("a", initial))
				ch := c.Pull(ctx, resource.WithBackpressure(true), resource.WithUpdatesOnly(true))
				go func() {
					defer close(done)
					for e := range ch {
						v := e.NewValue.(*traits.PullOnOffResponse_Change)
						if v.Name == "end" {
							return
						}
						got = append(got, v.OnOff.GetState().String())
						if scribble {
							v.OnOff.State = traits.OnOff_STATE_UNSPECIFIED
							v.Name = "scribbled"
						}
					}
				}()
				write = func(m proto.Message) { c.Update("a", m) }
			} else {
				v := resource.NewValue(resource.WithNoDuplicates(), resource.WithInitialValue(initial))
				ch := v.Pull(ctx, resource.WithBackpressure(true), resource.WithUpdatesOnly(true))
				go func() {
					defer close(done)
					for e := range ch {
						v := e.Value.(*traits.PullOnOffResponse_Change)
						if v.Name == "end" {
							return
						}
						got = append(got, v.OnOff.GetState().String())
						if scribble {
							v.OnOff.State = traits.OnOff_STATE_UNSPECIFIED
							v.Name = "scribbled"
						}
					}
				}()
				write = func(m proto.Message) { v.Set(m) }
			}
			// reference: delivered exactly when the state differs from the last one delivered; an updates-only
			// subscriber holds nothing before its first event, so the first write is always news to it
			held := ""
			var want []string
			for _, i := range sq {
				write(proto.Clone(alphabet[i]))
				if st := alphabet[i].OnOff.State.String(); st != held {
					want = append(want, st)
					held = st
				}
			}
			write(sentinel)
			<-done
			cancel()
			if fmt.Sprint(got) != fmt.Sprint(want) {
				s.Fail(fmt.Sprintf("no-duplicates coll=%v scribbling-subscriber=%v %v", coll, scribble, sq), fmt.Sprintf("writes %v (0: ON@1s, 1: ON@2s, 2: OFF@2s, 3: ON@3s) on a resource WithNoDuplicates: delivered %v, a subscriber that holds what it was sent last is owed %v", sq, got, want), nil)
			}
		}
	}
}

// checkNoDuplicatesLifecycle: the same statement over the whole life of a Collection item - updates, removal,
// re-creation. What a subscriber holds for an id ends with the item's removal (which it is always told of: a
// removal is no "equivalent value"), and an item created again is news however much it looks like the one it held.
func checkNoDuplicatesLifecycle(s *hx.Seq) {
	mk := func(st traits.OnOff_State, sec int64) *traits.PullOnOffResponse_Change {
		return &traits.PullOnOffResponse_Change{Name: "n", ChangeTime: &timestamppb.Timestamp{Seconds: sec}, OnOff: &traits.OnOff{State: st}}
	}
	type wr struct {
		kind string // upd | del | add
		m    *traits.PullOnOffResponse_Change
	}
	alphabet := []wr{{"upd", mk(traits.OnOff_ON, 1)}, {"upd", mk(traits.OnOff_ON, 2)}, {"upd", mk(traits.OnOff_OFF, 2)}, {"del", nil}, {"add", mk(traits.OnOff_ON, 5)}, {"add", mk(traits.OnOff_OFF, 6)}}
	var seqs [][]int
	var rec func(cur []int)
	rec = func(cur []int) {
		if len(cur) > 0 {
			seqs = append(seqs, append([]int{}, cur...))
		}
		if len(cur) == 4 {
			return
		}
		for i := range alphabet {
			rec(append(cur, i))
		}
	}
	rec(nil)
	for _, sq := range seqs {
		for _, updatesOnly := range []bool{false, true} {
			s.Eval(1)
			s.Trans(len(sq))
			ctx, cancel := context.WithCancel(context.Background())
			c := resource.NewCollection(resource.WithNoDuplicates(), resource.WithInitialRecord("a", mk(traits.OnOff_OFF, 0)))
			ch := c.Pull(ctx, resource.WithBackpressure(true), resource.WithUpdatesOnly(updatesOnly))
			var got []string
			done := make(chan struct{})
			go func() {
				defer close(done)
				for e := range ch {
					if e.Id == "end" {
						return
					}
					st := "-"
					if e.NewValue != nil {
						st = e.NewValue.(*traits.PullOnOffResponse_Change).OnOff.GetState().String()
					}
					k := e.ChangeType.String()
					if e.SeedValue {
						k = "SEED"
					}
					got = append(got, k+":"+st)
				}
			}()
			// reference: the item (exists, state) and what the subscriber holds for it
			exists, state := true, "OFF"
			holds, held := !updatesOnly, "OFF"
			var want []string
			if !updatesOnly {
				want = append(want, "SEED:OFF")
			}
			for _, i := range sq {
				w := alphabet[i]
				switch w.kind {
				case "upd":
					if _, err := c.Update("a", proto.Clone(w.m)); (err == nil) != exists {
						s.Fail(fmt.Sprintf("no-duplicates-lifecycle write %v", sq), fmt.Sprintf("Update on an item that exists=%v: %v", exists, err), nil)
					}
					if exists {
						state = w.m.OnOff.State.String()
						if !holds || held != state {
							want = append(want, "UPDATE:"+state)
							holds, held = true, state
						}
					}
				case "del":
					c.Delete("a", resource.WithAllowMissing(true))
					if exists {
						exists = false
						want = append(want, "REMOVE:-")
						holds = false
					}
				case "add":
					c.Add("a", proto.Clone(w.m))
					if !exists {
						exists, state = true, w.m.OnOff.State.String()
						want = append(want, "ADD:"+state)
						holds, held = true, state
					}
				}
			}
			c.Add("end", mk(traits.OnOff_ON, 9))
			<-done
			cancel()
			if fmt.Sprint(got) != fmt.Sprint(want) {
				s.Fail(fmt.Sprintf("no-duplicates-lifecycle updatesOnly=%v %v", updatesOnly, sq), fmt.Sprintf("writes %v (0: upd ON@1s, 1: upd ON@2s, 2: upd OFF, 3: delete, 4: add ON, 5: add OFF) on item a (OFF) of a Collection WithNoDuplicates: delivered %v, owed %v", sq, got, want), nil)
			}
		}
	}
}

// ---------------------------------------------------------------- stream clause

func checkStreams(s *hx.Seq) {
	eq := cmp.Equal(cmp.FloatValueApprox(0, 0.1))
	vals := []float32{1, 1.0625, 1.25, 1.125} // steps of 0.0625 (inside) and 0.1875 / 0.25 (outside)
	var seqs [][]float32
	var rec func(cur []float32)
	rec = func(cur []float32) {
		if len(cur) > 0 {
			seqs = append(seqs, append([]float32{}, cur...))
		}
		if len(cur) == 3 {
			return
		}
		for _, v := range vals {
			rec(append(cur, v))
		}
	}
	rec(nil)
	for _, sq := range seqs {
		for _, kind := range []string{"value", "collection", "value/updates-only", "collection/updates-only"} {
			s.Eval(1)
			s.Trans(len(sq))
			ctx, cancel := context.WithCancel(context.Background())
			var got []float32
			done := make(chan struct{})
			const sentinel = 1000
			uo := strings.HasSuffix(kind, "/updates-only") // the subscriber holds nothing until its first event
			if strings.HasPrefix(kind, "value") {
				v := resource.NewValue(resource.WithInitialValue(&T{DefaultFloat: 1}), resource.WithMessageEquivalence(eq))
				ch := v.Pull(ctx, resource.WithBackpressure(true), resource.WithUpdatesOnly(uo))
				go func() {
					for e := range ch {
						f := e.Value.(*T).DefaultFloat
						if f == sentinel {
							break
						}
						got = append(got, f)
					}
					close(done)
				}()
				for _, f := range sq {
					v.Set(&T{DefaultFloat: f})
				}
				v.Set(&T{DefaultFloat: sentinel})
			} else {
				c := resource.NewCollection(resource.WithInitialRecord("a", &T{DefaultFloat: 1}), resource.WithMessageEquivalence(eq))
				ch := c.Pull(ctx, resource.WithBackpressure(true), resource.WithUpdatesOnly(uo))
				go func() {
					for e := range ch {
						f := e.NewValue.(*T).DefaultFloat
						if f == sentinel {
							break
						}
						got = append(got, f)
					}
					close(done)
				}()
				for _, f := range sq {
					c.Update("a", &T{DefaultFloat: f})
				}
				c.Update("a", &T{DefaultFloat: sentinel})
			}
			<-done
			cancel()
			// reference: the subscriber holds `held` (the seed first; nothing for an updates-only subscription); a write
			// is delivered iff it is not equivalent to what the subscriber holds
			held, holds := float32(1), !uo
			want := []float32{1}
			if uo {
				want = nil
			}
			for _, f := range sq {
				if !holds || math.Abs(float64(f-held)) > 0.1 {
					want = append(want, f)
					held, holds = f, true
				}
			}
			if fmt.Sprint(got) != fmt.Sprint(want) {
				k := fmt.Sprintf("stream-equivalence %s writes=%v", kind, sq)
				s.Fail(k, fmt.Sprintf("tolerance 0.1, seed 1: delivered %v, expected %v (a delivered value must differ from the held one, a non-equivalent one must not be suppressed)", got, want), map[string]any{"stream": true})
			}
			s.State(fmt.Sprintf("%s %v", kind, sq))
		}
	}
}

// checkLifecycleStreams: a collection item that is written, removed and written again under a tolerance:
// what the subscriber holds for an id ends with its removal, so the first write after a removal is always
// delivered (as ADD, without an old value), and the old value of every delivered change is the value the
// subscriber last received for that id.
func checkLifecycleStreams(s *hx.Seq) {
	eq := cmp.Equal(cmp.FloatValueApprox(0, 0.1))
	alpha := []float32{1, 1.0625, 1.25, -1} // -1 = delete
	var seqs [][]float32
	var rec func(cur []float32)
	rec = func(cur []float32) {
		hasDel := false
		for _, v := range cur {
			if v < 0 {
				hasDel = true
			}
		}
		if hasDel {
			seqs = append(seqs, append([]float32{}, cur...))
		}
		if len(cur) == 4 {
			return
		}
		for _, v := range alpha {
			rec(append(cur, v))
		}
	}
	rec(nil)
	for _, sq := range seqs {
		for _, seeded := range []bool{true, false} {
			s.Eval(1)
			s.Trans(len(sq))
			ctx, cancel := context.WithCancel(context.Background())
			opts := []resource.Option{resource.WithMessageEquivalence(eq)}
			if seeded {
				opts = append(opts, resource.WithInitialRecord("a", &T{DefaultFloat: 1}))
			}
			c := resource.NewCollection(opts...)
			ch := c.Pull(ctx, resource.WithBackpressure(true))
			var got []string
			done := make(chan struct{})
			fl := func(m proto.Message) string {
				if m == nil {
					return "-"
				}
				return fmt.Sprint(m.(*T).DefaultFloat)
			}
			go func() {
				for e := range ch {
					if e.Id == "end" {
						break
					}
					got = append(got, fmt.Sprintf("%v:%s>%s", e.ChangeType, fl(e.OldValue), fl(e.NewValue)))
				}
				close(done)
			}()
			for _, f := range sq {
				if f < 0 {
					c.Delete("a", resource.WithAllowMissing(true))
				} else {
					c.Update("a", &T{DefaultFloat: f}, resource.WithCreateIfAbsent())
				}
			}
			c.Update("end", &T{DefaultFloat: 5}, resource.WithCreateIfAbsent())
			<-done
			cancel()
			var want []string
			present, held := seeded, float32(1)
			if seeded {
				want = append(want, "ADD:->1")
			}
			for _, f := range sq {
				switch {
				case f < 0 && present:
					want = append(want, fmt.Sprintf("REMOVE:%v>-", held))
					present = false
				case f < 0:
				case !present:
					want = append(want, fmt.Sprintf("ADD:->%v", f))
					present, held = true, f
				case math.Abs(float64(f-held)) > 0.1:
					want = append(want, fmt.Sprintf("UPDATE:%v>%v", held, f))
					held = f
				}
			}
			if fmt.Sprint(got) != fmt.Sprint(want) {
				k := fmt.Sprintf("stream-equivalence-lifecycle seeded=%v writes=%v", seeded, sq)
				s.Fail(k, fmt.Sprintf("tolerance 0.1, -1 = delete: delivered %v, expected %v", got, want), map[string]any{"stream": true})
			}
			s.State(fmt.Sprintf("lifecycle %v %v", seeded, sq))
		}
	}
}

// checkMaskedStreams: equivalence together with a read mask - the subscriber holds the
// PROJECTED value, so a write that changes only fields outside the mask is equivalent to
// what it holds.
func checkMaskedStreams(s *hx.Seq) {
	type w struct {
		f float32
		b string
	}
	alpha := []w{{1, "x"}, {1, "y"}, {2, "x"}, {2, "y"}}
	var seqs [][]w
	var rec func(cur []w)
	rec = func(cur []w) {
		if len(cur) > 0 {
			seqs = append(seqs, append([]w{}, cur...))
		}
		if len(cur) == 3 {
			return
		}
		for _, a := range alpha {
			rec(append(cur, a))
		}
	}
	rec(nil)
	for _, sq := range seqs {
		for _, kind := range []string{"value", "collection"} {
			s.Eval(1)
			s.Trans(len(sq))
			ctx, cancel := context.WithCancel(context.Background())
			var got []float32
			done := make(chan struct{})
			const sentinel = 1000
			mask := resource.WithReadPaths(&T{}, "default_float")
			mk := func(x w) *T { return &T{DefaultFloat: x.f, DefaultString: x.b} }
			if kind == "value" {
				v := resource.NewValue(resource.WithInitialValue(mk(w{1, "x"})), resource.WithNoDuplicates())
				ch := v.Pull(ctx, resource.WithBackpressure(true), mask)
				go func() {
					for e := range ch {
						f := e.Value.(*T).DefaultFloat
						if f == sentinel {
							break
						}
						got = append(got, f)
					}
					close(done)
				}()
				for _, x := range sq {
					v.Set(mk(x))
				}
				v.Set(mk(w{sentinel, "s"}))
			} else {
				c := resource.NewCollection(resource.WithInitialRecord("a", mk(w{1, "x"})), resource.WithNoDuplicates())
				ch := c.Pull(ctx, resource.WithBackpressure(true), mask)
				go func() {
					for e := range ch {
						f := e.NewValue.(*T).DefaultFloat
						if f == sentinel {
							break
						}
						got = append(got, f)
					}
					close(done)
				}()
				for _, x := range sq {
					c.Update("a", mk(x))
				}
				c.Update("a", mk(w{sentinel, "s"}))
			}
			<-done
			cancel()
			held := float32(1)
			want := []float32{1}
			for _, x := range sq {
				if x.f != held {
					want = append(want, x.f)
					held = x.f
				}
			}
			if fmt.Sprint(got) != fmt.Sprint(want) {
				s.Fail(fmt.Sprintf("stream-equivalence-masked %s writes=%v", kind, sq), fmt.Sprintf("WithNoDuplicates, read mask default_float, seed 1/x: delivered %v, expected %v (the subscriber holds the projected value)", got, want), map[string]any{"stream": true})
			}
			s.State(fmt.Sprintf("masked %s %v", kind, sq))
		}
	}
}

func main() {
	h := hx.New("C16")
	h.Seq("pairs", func(s *hx.Seq) {
		all := muts()
		cs := comparers()
		var rc pcase
		if s.Replaying(&rc) {
			checkPair(rc, cs, all, func(k, m string) { s.Fail(k, m, rc) })
			return
		}
		var subsets [][]int
		subsets = append(subsets, nil)
		for i := range all {
			subsets = append(subsets, []int{i})
		}
		if s.Thorough {
			for i := range all {
				for j := i + 1; j < len(all); j++ {
					subsets = append(subsets, []int{i, j})
				}
			}
		}
		isChangeMut := func(ix []int) (anyT, anyC bool) {
			for _, i := range ix {
				if strings.HasPrefix(all[i].name, "change") {
					anyC = true
				} else {
					anyT = true
				}
			}
			return
		}
		applicable := func(base int, ix []int) bool {
			anyT, anyC := isChangeMut(ix)
			if base == 2 {
				return !anyT
			}
			return !anyC
		}
		for base := range bases() {
			for _, A := range subsets {
				if !applicable(base, A) {
					continue
				}
				if !s.Own() {
					continue
				}
				for _, B := range subsets {
					if len(A)+len(B) > 3 || !applicable(base, B) {
						continue // thorough: up to three mutations in total
					}
					c := pcase{Base: base, A: A, B: B}
					s.Eval(len(cs))
					s.Trans(1)
					checkPair(c, cs, all, func(k, m string) {
						cc := c
						s.Fail(k, m, cc)
					})
					if len(A)+len(B) > 0 {
						s.Distinct(describe(c, all))
					}
					s.State(describe(c, all))
				}
				if s.Stop() {
					return
				}
			}
		}
		s.Sample(map[string]any{"pair": describe(pcase{Base: 1, A: []int{11}, B: []int{12}}, all), "meaning": "x and y are the fully populated TestAllTypes with the named mutations; every comparer (Equal(), 6 float tolerances, 6 timestamp and 6 duration tolerances, a combination) is applied to (x,y), (y,x), (x,x) and compared with an independent reference equality"})
	})
	// nil, typed nil, empty and populated messages of TWO message types, every ordered pair, every comparer: with
	// nothing a tolerance could bridge, a comparer says what proto.Equal says (different types are different, also
	// when both are nil; a typed nil equals the empty message of its type; nil equals only nil)
	h.Seq("nil-and-foreign", func(s *hx.Seq) {
		if !s.Own() {
			return
		}
		ops := []struct {
			name string
			m    proto.Message
		}{
			{"nil", nil},
			{"(*TestAllTypes)(nil)", (*T)(nil)},
			{"(*OnOff)(nil)", (*traits.OnOff)(nil)},
			{"(*Brightness)(nil)", (*traits.Brightness)(nil)},
			{"&TestAllTypes{}", &T{}},
			{"&OnOff{}", &traits.OnOff{}},
			{"&Brightness{}", &traits.Brightness{}},
			{"&OnOff{ON}", &traits.OnOff{State: traits.OnOff_ON}},
			{"&Brightness{50}", &traits.Brightness{LevelPercent: 50}},
		}
		for _, cp := range comparers() {
			for _, x := range ops {
				for _, y := range ops {
					s.Eval(1)
					s.Trans(1)
					s.State(cp.name + " " + x.name + " " + y.name)
					var got bool
					if p := func() (p any) {
						defer func() { p = recover() }()
						got = cp.msg(x.m, y.m)
						return nil
					}(); p != nil {
						s.Fail(fmt.Sprintf("panic %s %s vs %s", cp.name, x.name, y.name), fmt.Sprint(p), nil)
						continue
					}
					if want := proto.Equal(x.m, y.m); got != want {
						s.Fail(fmt.Sprintf("verdict %s %s vs %s", cp.name, x.name, y.name), fmt.Sprintf("comparer says %v, proto.Equal says %v", got, want), nil)
					}
				}
			}
		}
		s.Sample("every comparer on every ordered pair of {nil, typed nils of three types, their empty messages, two populated ones}: the verdict is proto.Equal's")
	})
	h.Seq("logic", func(s *hx.Seq) {
		if !s.Own() {
			return
		}
		n := checkLogic(func(k, m string) { s.Fail(k, m, map[string]any{"logic": true}) })
		n += checkOneof(comparers(), func(k, m string) { s.Fail(k, m, map[string]any{"logic": true}) })
		s.Eval(n)
		s.Trans(n)
		s.State("logic")
		s.Distinct("logic-and")
		s.Distinct("logic-or")
		s.Sample("ValueAnd/ValueOr/And/Or over 6 value pairs x 5 x 5 comparers; DurationValueWithinP reflexivity / symmetry / extremes")
	})
	h.Seq("streams", func(s *hx.Seq) {
		if !s.Own() {
			return
		}
		checkStreams(s)
		checkMaskedStreams(s)
		checkLifecycleStreams(s)
		checkNoDuplicates(s)
		checkNoDuplicatesLifecycle(s)
		s.Distinct("value")
		s.Distinct("collection")
		s.Sample("Value and Collection with WithMessageEquivalence(Equal(FloatValueApprox(0,0.1))): all write sequences of length <=3 over {1, 1.0625, 1.125, 1.25}, delivered values compared with the reference")
	})
	h.Run()
}
