package main

// Functions that only compute - reads with a mask, the comparers, the timeline algebra - called by two threads at
// once WITH THE SAME ARGUMENTS (the same stored resource, the same mask object, the same mode): a pure function
// neither writes what it is given nor keeps anything between calls, so the two calls have nothing to race on.
// (A scratch value moved to package scope, an argument normalised or sorted in place, a result cached on first
// use: each is invisible to one caller at a time.)

import (
	"context"
	"fmt"
	"time"

	"google.golang.org/protobuf/encoding/protowire"
	"google.golang.org/protobuf/proto"
	"google.golang.org/protobuf/types/known/durationpb"
	"google.golang.org/protobuf/types/known/fieldmaskpb"
	"google.golang.org/protobuf/types/known/timestamppb"

	"github.com/smart-core-os/sc-api/go/traits"
	sctime "github.com/smart-core-os/sc-api/go/types/time"
	"github.com/smart-core-os/sc-golang/pkg/cmp"
	"github.com/smart-core-os/sc-golang/pkg/masks"
	"github.com/smart-core-os/sc-golang/pkg/resource"
	pkgtime "github.com/smart-core-os/sc-golang/pkg/time"
	"github.com/smart-core-os/sc-golang/pkg/trait/electricpb/modepb"
	"github.com/smart-core-os/sc-golang/pkg/trait/electricpb/segmentpb"
	"github.com/smart-core-os/sc-golang/pkg/trait/openclosepb"
)

func purePrograms() []program {
	var ps []program
	add := func(n string, b func()) { ps = append(ps, program{"same-arguments/" + n, b}) }
	twice := func(f func()) { par(f, f) }

	mask := func() *fieldmaskpb.FieldMask {
		return &fieldmaskpb.FieldMask{Paths: []string{"default_nested_message", "default_nested_message.a", "default_string"}}
	}
	add("value/Get(mask)||Get(mask), one mask object", func() {
		v := resource.NewValue(resource.WithInitialValue(tm(12)))
		m := mask()
		twice(func() { touch(v.Get(resource.WithReadMask(m))) })
	})
	add("collection/List(mask,include)||List(mask,include)", func() {
		c := resource.NewCollection(resource.WithInitialRecord("a", tm(12)), resource.WithInitialRecord("b", tm(5)))
		m := mask()
		twice(func() {
			for _, x := range c.List(resource.WithReadMask(m), resource.WithInclude(func(id string, item proto.Message) bool { return item != nil })) {
				touch(x)
			}
			x, _ := c.Get("a", resource.WithReadMask(m))
			touch(x)
		})
	})
	add("value/Set(update mask)||Set(update mask) on two Values, one mask object and one written message", func() {
		a, b := resource.NewValue(resource.WithInitialValue(tm(12))), resource.NewValue(resource.WithInitialValue(tm(12)))
		m := &fieldmaskpb.FieldMask{Paths: []string{"default_nested_message", "default_string"}}
		w := tm(5)
		par(func() { r, _ := a.Set(w, resource.WithUpdateMask(m)); touch(r) }, func() { r, _ := b.Set(w, resource.WithUpdateMask(m)); touch(r) })
	})
	add("masks/ResponseFilter: two filters over one mask object and one message", func() {
		m, msg := mask(), tm(12)
		twice(func() {
			f := masks.NewResponseFilter(masks.WithFieldMask(m))
			_ = f.Validate(msg)
			touch(f.FilterClone(msg))
		})
	})
	add("masks/FieldUpdater: two updaters over the same masks, each merging into its own message", func() {
		um, wm := &fieldmaskpb.FieldMask{Paths: []string{"default_nested_message", "default_string"}}, &fieldmaskpb.FieldMask{Paths: []string{"default_nested_message.a", "default_string"}}
		src := tm(5)
		twice(func() {
			f := masks.NewFieldUpdater(masks.WithUpdateMask(um), masks.WithWritableFields(wm), masks.WithResetPaths("default_int32"))
			if f.Validate(src) == nil {
				dst := tm(12)
				f.Merge(dst, src)
				touch(dst)
			}
		})
	})
	add("masks/RemovePrefix on one mask object (path slice with room behind its paths)", func() {
		paths := make([]string, 0, 8)
		m := &fieldmaskpb.FieldMask{Paths: append(paths, "states.open_percent", "states.direction", "preset")}
		twice(func() { touch(masks.RemovePrefix("states", m)) })
	})
	add("openclose/UpdatePositions||UpdatePositions, one update mask object (path slice with room behind its paths)", func() {
		oc := openclosepb.NewModel()
		paths := make([]string, 0, 8)
		m := &fieldmaskpb.FieldMask{Paths: append(paths, "states.open_percent")}
		twice(func() {
			r, _ := oc.UpdatePositions(&traits.OpenClosePositions{States: []*traits.OpenClosePosition{{OpenPercent: 40}}}, resource.WithUpdateMask(m))
			touch(r)
		})
	})
	add("cmp/one comparer used by two threads on the same pair", func() {
		eq := cmp.Equal(cmp.FloatValueApprox(0.1, 0.5), cmp.TimeValueWithin(time.Second), cmp.DurationValueWithin(time.Second))
		x, y := tm(12), tm(10)
		twice(func() { _ = eq(x, y); _ = eq(x, x) })
	})
	add("cmp/one comparer used by two threads on messages that differ in their unknown fields only", func() {
		// (known fields equal, unknown fields of one length and different bytes: the comparison goes all the way
		// into the unknown fields, field number by field number)
		eq := cmp.Equal(cmp.FloatValueApprox(0.1, 0.5))
		x, y := tm(12), tm(12)
		x.ProtoReflect().SetUnknown(protowire.AppendVarint(protowire.AppendTag(protowire.AppendVarint(protowire.AppendTag(nil, 9001, protowire.VarintType), 1), 9002, protowire.VarintType), 2))
		y.ProtoReflect().SetUnknown(protowire.AppendVarint(protowire.AppendTag(protowire.AppendVarint(protowire.AppendTag(nil, 9002, protowire.VarintType), 2), 9001, protowire.VarintType), 3))
		twice(func() { _ = eq(x, y); _ = eq(y, x) })
	})
	add("value/two subscribers of one no-duplicates Value written with messages that differ in their unknown fields only", func() {
		v := resource.NewValue(resource.WithInitialValue(tm(12)), resource.WithNoDuplicates())
		ctx, cancel := context.WithCancel(context.Background())
		defer cancel()
		for i := 0; i < 2; i++ {
			ch := v.Pull(ctx)
			go func() {
				for e := range ch {
					touch(e.Value)
				}
			}()
		}
		w := tm(12)
		w.ProtoReflect().SetUnknown(protowire.AppendVarint(protowire.AppendTag(nil, 9001, protowire.VarintType), 1))
		v.Set(w)
		w2 := tm(12)
		w2.ProtoReflect().SetUnknown(protowire.AppendVarint(protowire.AppendTag(nil, 9001, protowire.VarintType), 2))
		v.Set(w2)
		cancel()
	})
	mode := func() *traits.ElectricMode {
		return &traits.ElectricMode{Id: "m", Title: "t", StartTime: timestamppb.New(time.Unix(100, 500)), Segments: []*traits.ElectricMode_Segment{
			{Magnitude: 3, Length: durationpb.New(10 * time.Second)}, {Magnitude: 1, Length: durationpb.New(5 * time.Second)}, {Magnitude: 2},
		}}
	}
	add("modepb/Cut||Cut, Shift||Shift on one mode", func() {
		m := mode()
		twice(func() {
			b, a, _ := modepb.Cut(time.Unix(104, 0), m)
			touch(b)
			touch(a)
			touch(modepb.Shift(1500*time.Millisecond, m))
		})
	})
	add("modepb/Sum||Sum, MinAt, MagnitudeAt, ActiveAt, MaxSegmentAfter on the same modes", func() {
		m1, m2 := mode(), mode()
		m2.StartTime = timestamppb.New(time.Unix(103, 0))
		twice(func() {
			touch(modepb.Sum(m1, m2))
			md, _ := modepb.MinAt(time.Unix(104, 0), map[string]*traits.ElectricMode{"a": m1, "b": m2})
			touch(md)
			modepb.MagnitudeAt(time.Unix(104, 0), m1)
			modepb.ActiveAt(time.Unix(112, 0), m1)
			modepb.MaxSegmentAfter(time.Unix(101, 0), m1)
		})
	})
	add("segmentpb/Cut, Shift, Sum, Max*, Duration on the same segments", func() {
		segs := mode().Segments
		twice(func() {
			b, a, _ := segmentpb.Cut(4*time.Second, segs[0])
			touch(b)
			touch(a)
			for _, s := range segmentpb.Shift(12*time.Second, segs...) {
				touch(s)
			}
			for _, s := range segmentpb.Sum(segs, segs[1:]) {
				touch(s)
			}
			segmentpb.Max(segs...)
			segmentpb.MaxAfter(11*time.Second, segs...)
			segmentpb.MaxMagnitude(segs...)
			segmentpb.SumMagnitude(segs...)
			segmentpb.MagnitudeAt(11*time.Second, segs...)
			segmentpb.ActiveAt(11*time.Second, segs...)
			segmentpb.Duration(segs...)
		})
	})
	add("time/PeriodsIntersect, PeriodsConnected on the same periods", func() {
		p1 := &sctime.Period{StartTime: timestamppb.New(time.Unix(1, 0)), EndTime: timestamppb.New(time.Unix(5, 0))}
		p2 := &sctime.Period{StartTime: timestamppb.New(time.Unix(3, 0))}
		twice(func() { pkgtime.PeriodsIntersect(p1, p2); pkgtime.PeriodsConnected(p1, p2) })
	})
	// the same write, with one and with two options of its own, by two threads on two DIFFERENT resources: they have
	// nothing in common, so whatever the two calls race on is something the package keeps between calls
	opt1 := func() []resource.WriteOption {
		return []resource.WriteOption{resource.WithUpdatePaths("default_string")}
	}
	opt2 := func() []resource.WriteOption {
		return []resource.WriteOption{resource.WithUpdatePaths("default_string"), resource.InterceptBefore(func(o, n proto.Message) {})}
	}
	for oi, mkOpts := range []func() []resource.WriteOption{opt1, opt2} {
		mkOpts := mkOpts
		add(fmt.Sprintf("two resources/Value.Set||Value.Set with %d option(s) each", oi+1), func() {
			par(func() {
				v := resource.NewValue(resource.WithInitialValue(tm(12)))
				r, _ := v.Set(tm(5), mkOpts()...)
				touch(r)
			},
				func() {
					v := resource.NewValue(resource.WithInitialValue(tm(12)))
					r, _ := v.Set(tm(10), mkOpts()...)
					touch(r)
				})
		})
		add(fmt.Sprintf("two resources/Collection.Add;Update;Delete||the same with %d option(s) each", oi+1), func() {
			run := func() {
				c := resource.NewCollection()
				r, _ := c.Add("a", tm(5), mkOpts()...)
				touch(r)
				r, _ = c.Update("a", tm(10), mkOpts()...)
				touch(r)
				r, _ = c.Delete("a", resource.WithAllowMissing(true), resource.WithExpectedCheck(func(proto.Message) error { return nil }))
				touch(r)
				for _, m := range c.List() {
					touch(m)
				}
			}
			par(run, run)
		})
	}
	add("two resources/Pull seed + consume||the same", func() {
		run := func() {
			c := resource.NewCollection(resource.WithInitialRecord("a", tm(12)), resource.WithInitialRecord("b", tm(5)))
			ctx, cancel := context.WithCancel(context.Background())
			n := 0
			for e := range c.Pull(ctx, resource.WithReadPaths(&T{}, "default_string")) {
				touch(e.NewValue)
				if n++; n == 2 {
					cancel()
				}
			}
			cancel()
		}
		par(run, run)
	})
	return ps
}
