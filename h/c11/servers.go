package main

// Every unary RPC of every model server / memory device found in the tree, called by two clients at the same time
// (each with its own request, both naming the same device): whatever a handler uses while it builds its answer - a
// scratch buffer, a cached page, a lazily filled table - is either its own or properly shared. The list of servers
// and methods is read from the tree (tools/mkregistry.py + the service descriptors), so a server or an RPC added to
// the tree is covered without touching this file.

import (
	"context"
	"fmt"
	"reflect"
	"strings"

	"google.golang.org/grpc"
	"google.golang.org/protobuf/proto"
	"google.golang.org/protobuf/reflect/protoreflect"
	"google.golang.org/protobuf/reflect/protoregistry"

	"github.com/smart-core-os/sc-golang/verif_h/reg"
)

const srvDev = "dev"

func srvFill(m protoreflect.Message, seed, depth int) {
	fds := m.Descriptor().Fields()
	for i := 0; i < fds.Len(); i++ {
		fd := fds.Get(i)
		if fd.IsList() || fd.IsMap() || fd.ContainingOneof() != nil {
			continue
		}
		k := seed + i
		switch fd.Kind() {
		case protoreflect.StringKind:
			m.Set(fd, protoreflect.ValueOfString(fmt.Sprintf("s%d", k)))
		case protoreflect.Int32Kind, protoreflect.Sint32Kind, protoreflect.Sfixed32Kind:
			m.Set(fd, protoreflect.ValueOfInt32(int32(k%3+1)))
		case protoreflect.Int64Kind, protoreflect.Sint64Kind, protoreflect.Sfixed64Kind:
			m.Set(fd, protoreflect.ValueOfInt64(int64(k%3+1)))
		case protoreflect.Uint32Kind, protoreflect.Fixed32Kind:
			m.Set(fd, protoreflect.ValueOfUint32(uint32(k%3+1)))
		case protoreflect.Uint64Kind, protoreflect.Fixed64Kind:
			m.Set(fd, protoreflect.ValueOfUint64(uint64(k%3+1)))
		case protoreflect.BoolKind:
			m.Set(fd, protoreflect.ValueOfBool(k%2 == 0))
		case protoreflect.FloatKind:
			m.Set(fd, protoreflect.ValueOfFloat32(float32(k%5)*10+5))
		case protoreflect.DoubleKind:
			m.Set(fd, protoreflect.ValueOfFloat64(float64(k%5)*10+5))
		case protoreflect.EnumKind:
			vs := fd.Enum().Values()
			if vs.Len() > 1 {
				m.Set(fd, protoreflect.ValueOfEnum(vs.Get(1+k%(vs.Len()-1)).Number()))
			}
		case protoreflect.MessageKind:
			if depth > 0 && !strings.HasPrefix(string(fd.Message().FullName()), "google.protobuf") {
				srvFill(m.Mutable(fd).Message(), seed+3, depth-1)
			}
		}
	}
}

func serverPrograms() []program {
	var ps []program
	for si := range reg.Servers {
		se := reg.Servers[si]
		probe := se.New()
		for ri := range reg.Routers {
			e := &reg.Routers[ri]
			ht := reflect.TypeOf(e.Desc.HandlerType).Elem()
			if !reflect.TypeOf(probe).Implements(ht) {
				continue
			}
			sd, err := protoregistry.GlobalFiles.FindDescriptorByName(protoreflect.FullName(e.Desc.ServiceName))
			if err != nil {
				continue
			}
			ms := sd.(protoreflect.ServiceDescriptor).Methods()
			for mi := range e.Desc.Methods {
				gm := e.Desc.Methods[mi]
				md := ms.ByName(protoreflect.Name(gm.MethodName))
				if md == nil {
					continue
				}
				name := fmt.Sprintf("servers/%s/%s||%s", se.Name, gm.MethodName, gm.MethodName)
				ps = append(ps, program{name, serverBody(se, gm, md, false)})
				// the same two calls with requests that name the device and nothing else (the resource message left
				// out, legal on the wire): whatever a handler puts in its place is the call's own, too
				if hasResourceField(md.Input()) {
					ps = append(ps, program{name + " (requests without their resource message)", serverBody(se, gm, md, true)})
				}
			}
		}
	}
	return ps
}

// hasResourceField: the request has a message-typed field of the API's own (not a mask, not a well-known type)
func hasResourceField(in protoreflect.MessageDescriptor) bool {
	fds := in.Fields()
	for i := 0; i < fds.Len(); i++ {
		fd := fds.Get(i)
		if fd.Kind() == protoreflect.MessageKind && !fd.IsList() && !fd.IsMap() && !strings.HasPrefix(string(fd.Message().FullName()), "google.protobuf") {
			return true
		}
	}
	return false
}

func serverBody(se reg.ServerEntry, gm grpc.MethodDesc, md protoreflect.MethodDescriptor, bare bool) func() {
	return func() {
		server := se.New()
		call := func(seed int) func() {
			return func() {
				mt, err := protoregistry.GlobalTypes.FindMessageByName(md.Input().FullName())
				if err != nil {
					return
				}
				req := mt.New()
				if !bare {
					srvFill(req, seed, 2)
				}
				if fd := req.Descriptor().Fields().ByName("name"); fd != nil && fd.Kind() == protoreflect.StringKind {
					req.Set(fd, protoreflect.ValueOfString(srvDev))
				}
				// requests that page or mask: the plain form (a generated token / mask would only be refused)
				for _, f := range []string{"page_token", "read_mask", "update_mask"} {
					if fd := req.Descriptor().Fields().ByName(protoreflect.Name(f)); fd != nil {
						req.Clear(fd)
					}
				}
				res, err := gm.Handler(server, context.Background(), func(dst any) error {
					proto.Merge(dst.(proto.Message), req.Interface())
					return nil
				}, nil)
				if m, ok := res.(proto.Message); ok && err == nil {
					touch(m)
				}
			}
		}
		par(call(1), call(2))
	}
}
