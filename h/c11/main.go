// C11 — concurrent use of the public API is free of data races. Every schedule (up
// to the preemption bound) of a catalogue of 2-3 thread programs over every
// concurrently usable type is executed in a -race build whose scheduler hand-off is
// invisible to the race detector; the detector's happens-before analysis is the
// per-execution oracle.
package main

import (
	"context"
	"fmt"
	"google.golang.org/protobuf/types/known/fieldmaskpb"
	"io"
	"math/rand"
	"os"
	"regexp"
	"sort"
	"strings"
	"sync"

	"google.golang.org/grpc"
	"google.golang.org/grpc/metadata"
	"google.golang.org/protobuf/proto"

	"github.com/smart-core-os/sc-api/go/traits"
	"github.com/smart-core-os/sc-golang/internal/minibus"
	tp "github.com/smart-core-os/sc-golang/internal/testproto"
	"github.com/smart-core-os/sc-golang/pkg/group"
	"github.com/smart-core-os/sc-golang/pkg/resource"
	"github.com/smart-core-os/sc-golang/pkg/router"
	"github.com/smart-core-os/sc-golang/pkg/trait"
	"github.com/smart-core-os/sc-golang/pkg/trait/electricpb"
	"github.com/smart-core-os/sc-golang/pkg/trait/enterleavesensorpb"
	"github.com/smart-core-os/sc-golang/pkg/trait/lightpb"
	"github.com/smart-core-os/sc-golang/pkg/trait/metadatapb"
	"github.com/smart-core-os/sc-golang/pkg/trait/parentpb"
	"github.com/smart-core-os/sc-golang/pkg/trait/vendingpb"
	"github.com/smart-core-os/sc-golang/pkg/wrap"
	lib "github.com/smart-core-os/sc-golang/verif_h/lib"
	"verifrt"
	"verifrt/hx"
)

// ---------------------------------------------------------------- race log

var logPath string
var logOff int64

func init() {
	for _, f := range strings.Fields(os.Getenv("GORACE")) {
		if strings.HasPrefix(f, "log_path=") {
			logPath = fmt.Sprintf("%s.%d", strings.TrimPrefix(f, "log_path="), os.Getpid())
		}
	}
}

func newReports() []string {
	if logPath == "" {
		return nil
	}
	b, err := os.ReadFile(logPath)
	if err != nil || int64(len(b)) <= logOff {
		return nil
	}
	txt := string(b[logOff:])
	logOff = int64(len(b))
	var out []string
	for _, blk := range strings.Split(txt, "==================") {
		if strings.Contains(blk, "WARNING: DATA RACE") {
			out = append(out, blk)
		}
	}
	return out
}

var frameRe = regexp.MustCompile(`^  (\S+)\(\)$`)

// accessFrames: the first non-runtime frame of each of the two conflicting accesses
func accessFrames(report string) (frames []string, internal bool) {
	lines := strings.Split(report, "\n")
	for i, l := range lines {
		if strings.Contains(l, " at 0x") && strings.Contains(l, "by goroutine") || strings.Contains(l, " at 0x") && strings.Contains(l, "by main goroutine") {
			for j := i + 1; j < len(lines) && strings.TrimSpace(lines[j]) != ""; j++ {
				m := frameRe.FindStringSubmatch(lines[j])
				if m == nil {
					continue
				}
				fn := m[1]
				if strings.HasPrefix(fn, "runtime.") || strings.HasPrefix(fn, "sync.") || strings.HasPrefix(fn, "sync/atomic.") {
					continue
				}
				if strings.HasPrefix(fn, "verifrt.") || strings.HasPrefix(fn, "verifrt/") {
					internal = true
				}
				// the access is made by the scheduler itself while it evaluates which transitions are
				// enabled (it polls ctx.Err()): look further down the stack
				for k := j; k < len(lines) && strings.TrimSpace(lines[k]) != ""; k++ {
					if strings.Contains(lines[k], "verifrt.(*sched).enabled") || strings.Contains(lines[k], "verifrt.(*sched).decide") || strings.Contains(lines[k], "verifrt.ctxDone") {
						internal = true
					}
				}
				if k := strings.LastIndex(fn, "/"); k >= 0 {
					fn = fn[k+1:]
				}
				frames = append(frames, fn)
				break
			}
		}
	}
	sort.Strings(frames)
	return
}

func raceOracle(name string) hx.Oracle {
	return func(x *verifrt.ExecResult) verifrt.Verdict {
		v := hx.StdOracle(x)
		// only races are this property's business: a panic / deadlock of a program is recorded in the
		// outcome, not as a violation
		v.Fail, v.Key = "", ""
		for _, r := range newReports() {
			fr, internal := accessFrames(r)
			if internal || len(fr) == 0 {
				continue
			}
			if v.Fail == "" {
				v.Key = "race " + strings.Join(fr, " <-> ")
				short := r
				if len(short) > 2500 {
					short = short[:2500]
				}
				v.Fail = v.Key + " ## in program " + name + ": " + strings.Join(strings.Fields(strings.ReplaceAll(short, "\n", " | ")), " ")
				v.NoReplayCheck = true
			}
		}
		return v
	}
}

// ---------------------------------------------------------------- helpers

type T = lib.T

func touch(m proto.Message) {
	if m != nil {
		_ = proto.Size(m) // reads every populated field, as a consumer would
	}
}

func par(fs ...func()) {
	var wg sync.WaitGroup
	for _, f := range fs {
		f := f
		wg.Add(1)
		go func() {
			defer wg.Done()
			defer func() { recover() }() // e.g. parentpb panics when its update loses a race (Aborted): not this property
			f()
		}()
	}
	wg.Wait()
}

var cat = lib.Catalogue()

func tm(i int) *T { return proto.Clone(cat[i]).(*T) }

// ---------------------------------------------------------------- programs

type program struct {
	name string
	body func()
}

func programs() []program {
	var ps []program
	add := func(n string, b func()) { ps = append(ps, program{n, b}) }
	bg := context.Background()

	// ---- Value
	add("value/Set||Set", func() {
		v := resource.NewValue(resource.WithInitialValue(tm(12)))
		par(func() { r, _ := v.Set(tm(10)); touch(r) }, func() { r, _ := v.Set(tm(5)); touch(r) })
	})
	add("value/Set||Get", func() {
		v := resource.NewValue(resource.WithInitialValue(tm(12)))
		par(func() { v.Set(tm(10)) }, func() { touch(v.Get()); touch(v.Get(resource.WithReadPaths(&T{}, "default_nested_message"))) })
	})
	// the degenerate read masks (empty: nothing is wanted; unknown path: nothing can be read) are reads like any other
	add("value/Set||Get(empty mask)||Get(invalid mask)", func() {
		v := resource.NewValue(resource.WithInitialValue(tm(12)))
		par(func() { v.Set(tm(10)) },
			func() { touch(v.Get(resource.WithReadMask(&fieldmaskpb.FieldMask{}))) },
			func() { touch(v.Get(resource.WithReadMask(&fieldmaskpb.FieldMask{Paths: []string{"no_such_field"}}))) })
	})
	add("collection/Update||Get(empty mask)||List(empty mask)", func() {
		c := resource.NewCollection(resource.WithInitialRecord("a", tm(12)))
		par(func() { c.Update("a", tm(10)) },
			func() { m, _ := c.Get("a", resource.WithReadMask(&fieldmaskpb.FieldMask{})); touch(m) },
			func() {
				for _, m := range c.List(resource.WithReadMask(&fieldmaskpb.FieldMask{})) {
					touch(m)
				}
			})
	})
	add("value/Set(interceptors)||Set(mask)", func() {
		v := resource.NewValue(resource.WithInitialValue(tm(12)))
		par(func() {
			v.Set(tm(10), resource.InterceptBefore(func(o, n proto.Message) { touch(o); touch(n) }), resource.InterceptAfter(func(o, n proto.Message) { touch(o); touch(n) }))
		}, func() { v.Set(tm(5), resource.WithUpdatePaths("default_nested_message")) })
	})
	add("value/Pull+consume||Set||cancel", func() {
		v := resource.NewValue(resource.WithInitialValue(tm(12)))
		ctx, cancel := context.WithCancel(bg)
		par(func() {
			for e := range v.Pull(ctx) {
				touch(e.Value)
			}
		}, func() { v.Set(tm(10)); v.Set(tm(5)) }, func() { cancel() })
		cancel()
	})
	add("value/Pull(backpressure,mask)||Set", func() {
		v := resource.NewValue(resource.WithInitialValue(tm(12)))
		ctx, cancel := context.WithCancel(bg)
		ch := v.Pull(ctx, resource.WithBackpressure(true), resource.WithReadPaths(&T{}, "repeated_nested_message"))
		par(func() {
			n := 0
			for e := range ch {
				touch(e.Value)
				if n++; n == 2 {
					cancel()
				}
			}
		}, func() { v.Set(tm(10)) })
		cancel()
	})

	// ---- Collection
	add("collection/Add(genID)||Add(genID)", func() {
		c := resource.NewCollection(resource.WithRNG(rand.New(rand.NewSource(1))))
		ids := make([]string, 2)
		par(func() {
			c.Add("", tm(1), resource.WithGenIDIfAbsent(), resource.WithIDCallback(func(id string) { ids[0] = id }))
		},
			func() {
				c.Add("", tm(2), resource.WithGenIDIfAbsent(), resource.WithIDCallback(func(id string) { ids[1] = id }))
			})
	})
	add("collection/Update||Delete||List", func() {
		c := resource.NewCollection(resource.WithInitialRecord("a", tm(12)))
		par(func() { r, _ := c.Update("a", tm(10)); touch(r) }, func() { r, _ := c.Delete("a", resource.WithAllowMissing(true)); touch(r) }, func() {
			for _, m := range c.List() {
				touch(m)
			}
		})
	})
	// write preconditions read the stored message (partly outside the lock) while other writers replace it
	add("collection/Delete(expected check)||Update||Update", func() {
		c := resource.NewCollection(resource.WithInitialRecord("a", tm(12)))
		par(func() {
			c.Delete("a", resource.WithExpectedCheck(func(m proto.Message) error {
				touch(m)
				return fmt.Errorf("refused")
			}))
		}, func() { c.Update("a", tm(10)) }, func() { c.Update("a", tm(4), resource.WithUpdatePaths("default_string")) })
	})
	add("collection/Delete(expected value)||Update; Update(expected value)||Update", func() {
		c := resource.NewCollection(resource.WithInitialRecord("a", tm(12)))
		par(func() { c.Delete("a", resource.WithExpectedValue(tm(3))) }, func() { c.Update("a", tm(10)) },
			func() { c.Update("a", tm(4), resource.WithExpectedValue(tm(12))) })
	})
	add("value/Set(expected check, interceptors)||Set||Get", func() {
		v := resource.NewValue(resource.WithInitialValue(tm(12)))
		par(func() {
			v.Set(tm(4), resource.WithExpectedCheck(func(m proto.Message) error { touch(m); return nil }),
				resource.InterceptBefore(func(old, change proto.Message) { touch(old); touch(change) }),
				resource.InterceptAfter(func(old, new proto.Message) { touch(old); touch(new) }))
		}, func() { v.Set(tm(10)) }, func() { touch(v.Get()) })
	})
	// option values supplied by the caller (a read mask object) shared between concurrent calls
	add("value/one read mask object shared by Get||Pull+Set", func() {
		mask := &fieldmaskpb.FieldMask{Paths: []string{"default_string", "default_int32", "default_nested_message.a", "default_nested_message"}}
		v := resource.NewValue(resource.WithInitialValue(tm(12)))
		ctx, cancel := context.WithCancel(bg)
		par(func() { touch(v.Get(resource.WithReadMask(mask))); _ = len(mask.Paths) },
			func() {
				for e := range v.Pull(ctx, resource.WithReadMask(mask)) {
					touch(e.Value)
				}
			},
			func() { v.Set(tm(10)); cancel() })
		cancel()
	})
	add("collection/one read mask object shared by List||Get", func() {
		mask := &fieldmaskpb.FieldMask{Paths: []string{"default_string", "default_int32", "default_nested_message.a", "default_nested_message"}}
		c := resource.NewCollection(resource.WithInitialRecord("a", tm(12)))
		par(func() {
			for _, m := range c.List(resource.WithReadMask(mask)) {
				touch(m)
			}
		}, func() {
			if m, ok := c.Get("a", resource.WithReadMask(mask)); ok {
				touch(m)
			}
		})
	})
	// with an equivalence every subscriber keeps its own record of what it last sent and rewrites old values:
	// the change object it was handed is shared with the other subscribers
	add("collection(no duplicates)/Pull+consume||Pull+consume||equivalent write, then another", func() {
		c := resource.NewCollection(resource.WithInitialRecord("a", tm(12)), resource.WithNoDuplicates())
		ctx, cancel := context.WithCancel(bg)
		consume := func(opts ...resource.ReadOption) func() {
			return func() {
				for e := range c.Pull(ctx, opts...) {
					touch(e.NewValue)
					touch(e.OldValue)
				}
			}
		}
		par(consume(resource.WithBackpressure(true)), consume(resource.WithBackpressure(true)), func() {
			c.Update("a", tm(12)) // equivalent to what is stored: suppressed
			c.Update("a", tm(10))
			cancel()
		})
		cancel()
	})
	// a subscriber without backpressure that has fallen behind merges what it has not delivered yet: what it
	// merges INTO is its own - the change it was handed is the one the other subscribers are reading
	add("collection(lagging lossy subscriber)/Pull(backpressure)+consume||Update x2 of one item", func() {
		c := resource.NewCollection(resource.WithInitialRecord("a", tm(12)))
		ctx, cancel := context.WithCancel(bg)
		c.Pull(ctx, resource.WithUpdatesOnly(true)) // opened first, nobody receives: its second change meets the first
		par(func() {
			for e := range c.Pull(ctx, resource.WithBackpressure(true), resource.WithUpdatesOnly(true)) {
				_ = e.ChangeType
				touch(e.NewValue)
				touch(e.OldValue)
			}
		}, func() {
			c.Update("a", tm(10))
			c.Update("a", tm(11))
			cancel()
		})
		cancel()
	})
	add("collection/Pull+consume||Update||Upsert", func() {
		c := resource.NewCollection(resource.WithInitialRecord("a", tm(12)))
		ctx, cancel := context.WithCancel(bg)
		par(func() {
			for e := range c.Pull(ctx) {
				touch(e.NewValue)
				touch(e.OldValue)
			}
		}, func() { c.Update("a", tm(10)); cancel() }, func() { c.Update("b", tm(5), resource.WithCreateIfAbsent()) })
		cancel()
	})
	add("collection/PullID||Delete||Get", func() {
		c := resource.NewCollection(resource.WithInitialRecord("a", tm(12)))
		ctx, cancel := context.WithCancel(bg)
		par(func() {
			for e := range c.PullID(ctx, "a", resource.WithBackpressure(true)) {
				touch(e.Value)
			}
			cancel()
		}, func() { c.Delete("a"); cancel() }, func() {
			if m, ok := c.Get("a"); ok {
				touch(m)
			}
		})
		cancel()
	})

	// ---- bus
	// a Send whose context ends on a listener that is not receiving still offers the event to the listeners after
	// it, one of which is going away at that moment
	add("bus/Send(its context ends)||later listener cancelled", func() {
		b := &minibus.Bus{}
		c1, cancel1 := context.WithCancel(bg)
		_ = b.Listen(c1) // never receives
		c2, cancel2 := context.WithCancel(bg)
		ch2 := b.Listen(c2)
		sctx, scancel := context.WithCancel(bg)
		par(func() { b.Send(sctx, "e") }, func() { scancel() }, func() {
			cancel2()
			for range ch2 {
			}
		})
		cancel1()
	})
	add("bus/Send||Send||Listen+cancel", func() {
		b := &minibus.Bus{}
		ctx, cancel := context.WithCancel(bg)
		ch := b.Listen(ctx)
		par(func() {
			for range ch {
			}
		}, func() { b.Send(bg, "a") }, func() { b.Send(bg, "b"); cancel() })
		cancel()
	})
	// two senders and a listener that has gone away: the sender that meets it tidies the list up while the other is
	// on its way through its own view of it
	add("bus/Send||Send, a cancelled listener first in line and two live ones", func() {
		b := &minibus.Bus{}
		c1, cancel1 := context.WithCancel(bg)
		_ = b.Listen(c1)
		c2, cancel2 := context.WithCancel(bg)
		ch2 := b.Listen(c2)
		c3, cancel3 := context.WithCancel(bg)
		ch3 := b.Listen(c3)
		cancel1()
		par(func() {
			for i := 0; i < 2; i++ {
				<-ch2
			}
		}, func() {
			for i := 0; i < 2; i++ {
				<-ch3
			}
		}, func() { b.Send(bg, "a") }, func() { b.Send(bg, "b") })
		cancel2()
		cancel3()
	})
	add("bus/Listen||Send||cancel", func() {
		b := &minibus.Bus{}
		ctx, cancel := context.WithCancel(bg)
		par(func() {
			for range b.Listen(ctx) {
			}
		}, func() { b.Send(bg, "a"); b.Send(bg, "b") }, func() { cancel() })
		cancel()
	})

	// ---- router
	add("router/Get||Get||Add+Remove", func() {
		r := router.NewRouter(router.WithFactory(func(n string) (any, error) { return "made-" + n, nil }), router.WithOnChange(func(c router.Change) { _ = c.Name }))
		par(func() { r.Get("n") }, func() { r.Get("n"); r.Has("n") }, func() { r.Add("n", "x"); r.Remove("n") })
	})

	// ---- wrap
	add("wrap/unary(header,trailer)", func() {
		conn := wrap.ServerToClient(tp.TestApi_ServiceDesc, &apiServer{})
		c := tp.NewTestApiClient(conn)
		var h, t metadata.MD
		req := &tp.UnaryRequest{Msg: "m"}
		resp, _ := c.Unary(bg, req, grpc.Header(&h), grpc.Trailer(&t))
		req.Msg = "changed after the call"
		touch(resp)
		_ = h.Len() + t.Len()
	})
	// one wrapped connection used by several callers at once, every call shape - including a unary method opened
	// as a stream (a proxy does that) and a method that does not exist: a connection's tables are read-only
	add("wrap/one connection: unary-as-stream||unary-as-stream", func() {
		conn := wrap.ServerToClient(tp.TestApi_ServiceDesc, &apiServer{})
		asStream := func() {
			cs, err := conn.NewStream(bg, &grpc.StreamDesc{}, "/sc.go.test.TestApi/Unary")
			if err != nil {
				return
			}
			if cs.SendMsg(&tp.UnaryRequest{Msg: "m"}) != nil {
				return
			}
			cs.CloseSend()
			resp := &tp.UnaryResponse{}
			if cs.RecvMsg(resp) == nil {
				touch(resp)
			}
		}
		par(asStream, asStream)
	})
	add("wrap/one connection: unary-as-stream||unknown method||unknown stream", func() {
		conn := wrap.ServerToClient(tp.TestApi_ServiceDesc, &apiServer{})
		par(func() {
			if cs, err := conn.NewStream(bg, &grpc.StreamDesc{}, "/sc.go.test.TestApi/Unary"); err == nil {
				cs.CloseSend()
			}
		},
			func() { _ = conn.Invoke(bg, "/sc.go.test.TestApi/Nope", &tp.UnaryRequest{}, &tp.UnaryResponse{}) },
			func() { _, _ = conn.NewStream(bg, &grpc.StreamDesc{ServerStreams: true}, "/sc.go.test.TestApi/Nope") })
	})
	add("wrap/server-stream(header,trailer)", func() {
		conn := wrap.ServerToClient(tp.TestApi_ServiceDesc, &apiServer{})
		c := tp.NewTestApiClient(conn)
		s, err := c.ServerStream(bg, &tp.ServerStreamRequest{NumRes: 2})
		if err != nil {
			return
		}
		for {
			m, err := s.Recv()
			if err != nil {
				break
			}
			touch(m)
		}
		h, _ := s.Header()
		_ = h.Len() + s.Trailer().Len()
	})
	add("wrap/server-stream client-cancel||server-send", func() {
		conn := wrap.ServerToClient(tp.TestApi_ServiceDesc, &apiServer{})
		c := tp.NewTestApiClient(conn)
		ctx, cancel := context.WithCancel(bg)
		s, err := c.ServerStream(ctx, &tp.ServerStreamRequest{NumRes: 2})
		if err != nil {
			cancel()
			return
		}
		par(func() {
			for {
				m, err := s.Recv()
				if err != nil {
					break
				}
				touch(m)
			}
			_ = s.Trailer().Len()
		}, func() { cancel() })
		cancel()
	})
	add("wrap/bidi", func() {
		conn := wrap.ServerToClient(tp.TestApi_ServiceDesc, &apiServer{})
		c := tp.NewTestApiClient(conn)
		s, err := c.BidiStream(bg)
		if err != nil {
			return
		}
		for i := 0; i < 2; i++ {
			m := &tp.BidiStreamRequest{Msg: "x"}
			if s.Send(m) != nil {
				break
			}
			m.Msg = "changed after send"
			r, err := s.Recv()
			if err != nil {
				break
			}
			touch(r)
		}
		s.CloseSend()
		s.Recv()
	})

	// the caller cancels while it keeps sending: Send races with the handler returning (Close) and with
	// the cancel; every later Send / Recv / Trailer reads what Close wrote
	add("wrap/bidi client-cancel||client-send", func() {
		conn := wrap.ServerToClient(tp.TestApi_ServiceDesc, &apiServer{})
		c := tp.NewTestApiClient(conn)
		ctx, cancel := context.WithCancel(bg)
		s, err := c.BidiStream(ctx)
		if err != nil {
			cancel()
			return
		}
		s.Send(&tp.BidiStreamRequest{Msg: "x"})
		par(func() { cancel() }, func() {
			for i := 0; i < 2; i++ {
				_ = s.Send(&tp.BidiStreamRequest{Msg: "y"}) // keeps sending whatever the answer
			}
			s.Recv()
			_ = s.Trailer().Len()
		})
		cancel()
	})
	add("wrap/bidi cancel,send,send (handler returns in between)", func() {
		conn := wrap.ServerToClient(tp.TestApi_ServiceDesc, &apiServer{})
		c := tp.NewTestApiClient(conn)
		ctx, cancel := context.WithCancel(bg)
		s, err := c.BidiStream(ctx)
		if err != nil {
			cancel()
			return
		}
		cancel()
		for i := 0; i < 2; i++ {
			_ = s.Send(&tp.BidiStreamRequest{Msg: "y"}) // keeps sending whatever the answer
		}
		_, _ = s.Recv()
	})
	add("wrap/bidi handler-fails||client-send", func() {
		conn := wrap.ServerToClient(tp.TestApi_ServiceDesc, &apiServer{failAfter: 1})
		c := tp.NewTestApiClient(conn)
		s, err := c.BidiStream(bg)
		if err != nil {
			return
		}
		for i := 0; i < 3; i++ {
			_ = s.Send(&tp.BidiStreamRequest{Msg: "y"}) // keeps sending whatever the answer
		}
		_, _ = s.Recv()
		_ = s.Trailer().Len()
	})
	add("wrap/client-stream client-cancel||client-send", func() {
		conn := wrap.ServerToClient(tp.TestApi_ServiceDesc, &apiServer{})
		c := tp.NewTestApiClient(conn)
		ctx, cancel := context.WithCancel(bg)
		s, err := c.ClientStream(ctx)
		if err != nil {
			cancel()
			return
		}
		par(func() { cancel() }, func() {
			for i := 0; i < 2; i++ {
				_ = s.Send(&tp.ClientStreamRequest{Msg: "y"})
			}
			r, _ := s.CloseAndRecv()
			touch(r)
		})
		cancel()
	})

	// ---- group
	for _, st := range []group.ExecutionStrategy{group.ExecutionStrategyAll, group.ExecutionStrategyAny, group.ExecutionStrategyFast, group.ExecutionStrategyRace} {
		st := st
		add(fmt.Sprintf("group/strategy=%d", st), func() {
			mk := func(i int, fail bool) group.Member {
				return func(ctx context.Context) (proto.Message, error) {
					_ = ctx.Err()
					if fail {
						return nil, fmt.Errorf("m%d", i)
					}
					return tm(i), nil
				}
			}
			res, _ := group.Execute(bg, st, []group.Member{mk(1, false), mk(2, true), mk(4, false)})
			for _, r := range res {
				touch(r)
			}
		})
	}

	// the caller gives up (its context ends) while members are still at work: when Execute has returned, the members
	// have - the caller may look at what they wrote and reuse what it handed them
	for _, st := range []group.ExecutionStrategy{group.ExecutionStrategyAll, group.ExecutionStrategyMost, group.ExecutionStrategyAny} {
		st := st
		add(fmt.Sprintf("group/strategy=%d, the caller's context ends meanwhile, member state read after the return", st), func() {
			ctx, cancel := context.WithCancel(bg)
			state := make([]int, 3)
			mk := func(i int) group.Member {
				return func(ctx context.Context) (proto.Message, error) {
					if i == 0 {
						cancel() // the first member to run takes the caller's patience with it
					}
					state[i] = i + 1
					return tm(i + 1), nil
				}
			}
			res, _ := group.Execute(ctx, st, []group.Member{mk(0), mk(1), mk(2)})
			for i, r := range res {
				touch(r)
				_ = state[i]
			}
			cancel()
		})
	}

	// ---- trait models
	add("parent/AddChildTrait||RemoveChildTrait||ListChildren", func() {
		p := parentpb.NewModel()
		p.AddChildTrait("c", trait.Name("B"), trait.Name("D"))
		par(func() { c, _ := p.AddChildTrait("c", trait.Name("A")); touch(c) }, func() { touch(p.RemoveChildTrait("c", trait.Name("B"))) }, func() {
			for _, c := range p.ListChildren() {
				touch(c)
			}
		})
	})
	add("parent/held-result||AddChildTrait", func() {
		p := parentpb.NewModel()
		held, _ := p.AddChildTrait("c", trait.Name("B"), trait.Name("D"))
		par(func() { touch(held) }, func() { p.AddChildTrait("c", trait.Name("A")) }, func() { p.RemoveChildTrait("c", trait.Name("D")) })
	})
	// three traits: the stored list then has room behind it (slices grow 1, 2, 4), which an append in place would use
	add("parent/held-result(3 traits)||AddChildTrait(front)||AddChildTrait(back)", func() {
		p := parentpb.NewModel()
		held, _ := p.AddChildTrait("c", trait.Name("B"), trait.Name("D"), trait.Name("F"))
		par(func() { touch(held) }, func() { p.AddChildTrait("c", trait.Name("A")) }, func() { p.AddChildTrait("c", trait.Name("Z")) })
	})
	// one message given to two models at once: what a caller hands in is read, not written
	add("metadata/two models: MergeMetadata(m)||MergeMetadata(m), the same message m", func() {
		a, b := metadatapb.NewModel(), metadatapb.NewModel()
		a.UpdateMetadata(&traits.Metadata{Name: "a", Traits: []*traits.TraitMetadata{{Name: "B", More: map[string]string{"k": "v"}}}})
		b.UpdateMetadata(&traits.Metadata{Name: "b", Traits: []*traits.TraitMetadata{{Name: "B", More: map[string]string{"k": "w"}}}})
		shared := &traits.Metadata{Traits: []*traits.TraitMetadata{{Name: "B", More: map[string]string{"z": "1"}}, {Name: "A"}}}
		par(func() { a.MergeMetadata(shared) }, func() { b.MergeMetadata(shared) })
	})
	add("metadata/two devices of one Collection: MergeMetadata(a,m)||MergeMetadata(b,m), the same message m", func() {
		c := metadatapb.NewCollection()
		c.UpdateMetadata("a", &traits.Metadata{Name: "a", Traits: []*traits.TraitMetadata{{Name: "B", More: map[string]string{"k": "v"}}}}, resource.WithCreateIfAbsent())
		c.UpdateMetadata("b", &traits.Metadata{Name: "b", Traits: []*traits.TraitMetadata{{Name: "B", More: map[string]string{"k": "w"}}}}, resource.WithCreateIfAbsent())
		shared := &traits.Metadata{Traits: []*traits.TraitMetadata{{Name: "B", More: map[string]string{"z": "1"}}, {Name: "A"}}}
		par(func() { c.MergeMetadata("a", shared) }, func() { c.MergeMetadata("b", shared) })
	})
	add("metadata/Merge||Get||UpdateTrait", func() {
		md := metadatapb.NewModel()
		md.UpdateMetadata(&traits.Metadata{Name: "n", Traits: []*traits.TraitMetadata{{Name: "B", More: map[string]string{"k": "v"}}}})
		held, _ := md.GetMetadata()
		par(func() {
			md.MergeMetadata(&traits.Metadata{Traits: []*traits.TraitMetadata{{Name: "B", More: map[string]string{"z": "1"}}, {Name: "A"}}})
		},
			func() { touch(held); m, _ := md.GetMetadata(); touch(m) },
			func() { md.UpdateTraitMetadata(&traits.TraitMetadata{Name: "C"}) })
	})
	add("enterleave/Create||Pull||Get", func() {
		el := enterleavesensorpb.NewModel()
		el.CreateEnterLeaveEvent(&traits.EnterLeaveEvent{Direction: traits.EnterLeaveEvent_ENTER, Occupant: &traits.EnterLeaveEvent_Occupant{Name: "o"}})
		ctx, cancel := context.WithCancel(bg)
		par(func() {
			for e := range el.PullEnterLeaveEvents(ctx) {
				touch(e.Value)
			}
		}, func() {
			el.CreateEnterLeaveEvent(&traits.EnterLeaveEvent{Direction: traits.EnterLeaveEvent_LEAVE})
			cancel()
		}, func() { m, _ := el.GetEnterLeaveEvent(); touch(m) })
		cancel()
	})
	add("electric/Create||Update||ChangeActive||Modes", func() {
		e := electricpb.NewModel(electricpb.WithRNG(rand.New(rand.NewSource(3))))
		e.AddMode(&traits.ElectricMode{Id: "x", Title: "x"})
		par(func() { m, _ := e.CreateMode(&traits.ElectricMode{Title: "c", Normal: true}); touch(m) },
			func() {
				m, _ := e.UpdateMode(&traits.ElectricMode{Id: "x", Title: "u"})
				touch(m)
				e.ChangeActiveMode("x")
			},
			func() {
				for _, m := range e.Modes() {
					touch(m)
				}
				touch(e.ActiveMode())
			})
	})
	add("electric/CreateMode||CreateMode (shared rng)", func() {
		e := electricpb.NewModel(electricpb.WithRNG(rand.New(rand.NewSource(3))))
		par(func() { e.CreateMode(&traits.ElectricMode{Title: "a"}) }, func() { e.CreateMode(&traits.ElectricMode{Title: "b"}) })
	})
	// two independent models constructed with default options, used by two goroutines: nothing configured by
	// default may be shared between them
	add("electric/two default models: CreateMode||CreateMode", func() {
		a, b := electricpb.NewModel(), electricpb.NewModel()
		par(func() { a.CreateMode(&traits.ElectricMode{Title: "a"}) }, func() { b.CreateMode(&traits.ElectricMode{Title: "b"}) })
	})
	// the same for plain collections with generated ids, and for the two collections inside ONE default model
	add("collection/two default collections: Add(generated id)||Add(generated id)", func() {
		a, b := resource.NewCollection(), resource.NewCollection()
		par(func() { a.Add("", tm(1), resource.WithGenIDIfAbsent()) }, func() { b.Add("", tm(2), resource.WithGenIDIfAbsent()) })
	})
	add("vending/one default model: CreateConsumable||CreateStock", func() {
		v := vendingpb.NewModel()
		par(func() { v.CreateConsumable(&traits.Consumable{}) }, func() { v.CreateStock(&traits.Consumable_Stock{}) })
	})
	add("vending/a model given one source of randomness: CreateConsumable||CreateStock", func() {
		// (the option reaches both of the model's collections: they share the source)
		v := vendingpb.NewModel(resource.WithRNG(rand.New(rand.NewSource(7))))
		par(func() { v.CreateConsumable(&traits.Consumable{}) }, func() { v.CreateStock(&traits.Consumable_Stock{}) })
	})
	// two callers that build their write options from one pool (a slice with room behind what each passes):
	// the options a model adds for itself must not land in the callers' array
	add("light/UpdateBrightness(preset)||UpdateBrightness(preset), options from one pool", func() {
		l := lightpb.NewModel(lightpb.WithPreset(40, &traits.LightPreset{Name: "dim"}), lightpb.WithPreset(80, &traits.LightPreset{Name: "bright"}))
		pool := make([]resource.WriteOption, 1, 4)
		pool[0] = resource.WithUpdatePaths("preset")
		par(func() { l.UpdateBrightness(&traits.Brightness{Preset: &traits.LightPreset{Name: "dim"}}, pool[:1]...) },
			func() {
				l.UpdateBrightness(&traits.Brightness{Preset: &traits.LightPreset{Name: "bright"}}, pool[:1]...)
			})
	})
	// two clients page through one (unchanging) listing at the same time: whatever a List call uses to build its
	// page and its token is its own
	add("electric/ListModes(pages of 1)||ListModes(pages of 1)", func() {
		e := electricpb.NewModel()
		for _, id := range []string{"a", "b", "c"} {
			e.AddMode(&traits.ElectricMode{Id: id, Title: id})
		}
		srv := electricpb.NewModelServer(e)
		walk := func() {
			tok := ""
			for i := 0; i < 4; i++ {
				r, err := srv.ListModes(bg, &traits.ListModesRequest{Name: "n", PageSize: 1, PageToken: tok})
				if err != nil {
					return
				}
				touch(r)
				if tok = r.NextPageToken; tok == "" {
					return
				}
			}
		}
		par(walk, walk)
	})
	add("vending/ListConsumables(pages of 1)||ListInventory(pages of 1)", func() {
		v := vendingpb.NewModel()
		for _, id := range []string{"a", "b", "c"} {
			v.CreateConsumable(&traits.Consumable{Name: id})
			v.CreateStock(&traits.Consumable_Stock{Consumable: id})
		}
		srv := vendingpb.NewModelServer(v)
		par(func() {
			tok := ""
			for i := 0; i < 4; i++ {
				r, err := srv.ListConsumables(bg, &traits.ListConsumablesRequest{Name: "n", PageSize: 1, PageToken: tok})
				if err != nil {
					return
				}
				touch(r)
				if tok = r.NextPageToken; tok == "" {
					return
				}
			}
		}, func() {
			tok := ""
			for i := 0; i < 4; i++ {
				r, err := srv.ListInventory(bg, &traits.ListInventoryRequest{Name: "n", PageSize: 1, PageToken: tok})
				if err != nil {
					return
				}
				touch(r)
				if tok = r.NextPageToken; tok == "" {
					return
				}
			}
		})
	})
	add("parent/ListChildren(pages of 1)||ListChildren(pages of 1)", func() {
		m := parentpb.NewModel()
		for _, id := range []string{"a", "b", "c"} {
			m.AddChild(&traits.Child{Name: id})
		}
		srv := parentpb.NewModelServer(m)
		walk := func() {
			tok := ""
			for i := 0; i < 4; i++ {
				r, err := srv.ListChildren(bg, &traits.ListChildrenRequest{Name: "n", PageSize: 1, PageToken: tok})
				if err != nil {
					return
				}
				touch(r)
				if tok = r.NextPageToken; tok == "" {
					return
				}
			}
		}
		par(walk, walk)
	})
	// metadata: two callers that pass their write options from one pool (room behind what each passes)
	add("metadata/MergeMetadata||UpdateTraitMetadata, options from one pool", func() {
		md := metadatapb.NewModel()
		pool := make([]resource.WriteOption, 1, 4)
		pool[0] = resource.WithUpdatePaths("membership")
		par(func() {
			m, _ := md.MergeMetadata(&traits.Metadata{Membership: &traits.Metadata_Membership{Subsystem: "a"}}, pool[:1]...)
			touch(m)
		},
			func() { m, _ := md.UpdateTraitMetadata(&traits.TraitMetadata{Name: "T"}, pool[:1]...); touch(m) })
	})
	add("vending/Dispense||GetStock||List", func() {
		v := vendingpb.NewModel(vendingpb.WithInitialStock(&traits.Consumable_Stock{Consumable: "milk", Used: &traits.Consumable_Quantity{Unit: traits.Consumable_LITER, Amount: 1}, Remaining: &traits.Consumable_Quantity{Unit: traits.Consumable_LITER, Amount: 9}}))
		par(func() {
			s, _ := v.DispenseInstantly("milk", &traits.Consumable_Quantity{Unit: traits.Consumable_LITER, Amount: 1})
			touch(s)
		},
			func() { s, _ := v.GetStock("milk"); touch(s) },
			func() {
				for _, s := range v.ListInventory() {
					touch(s)
				}
			})
	})
	return ps
}

// apiServer: a plain TestApi implementation for the wrap programs
type apiServer struct {
	tp.UnimplementedTestApiServer
	failAfter int // BidiStream: fail after this many messages (0 = never)
}

func (s *apiServer) ClientStream(st grpc.ClientStreamingServer[tp.ClientStreamRequest, tp.ClientStreamResponse]) error {
	n := 0
	for {
		_, err := st.Recv()
		if err == io.EOF {
			return st.SendAndClose(&tp.ClientStreamResponse{Msg: fmt.Sprint(n)})
		}
		if err != nil {
			return err
		}
		n++
	}
}

func (s *apiServer) Unary(ctx context.Context, req *tp.UnaryRequest) (*tp.UnaryResponse, error) {
	grpc.SetHeader(ctx, metadata.Pairs("x-h", "1"))
	grpc.SetTrailer(ctx, metadata.Pairs("x-t", "1"))
	r := &tp.UnaryResponse{Msg: "re:" + req.Msg}
	return r, nil
}
func (s *apiServer) ServerStream(req *tp.ServerStreamRequest, st grpc.ServerStreamingServer[tp.ServerStreamResponse]) error {
	st.SetHeader(metadata.Pairs("x-h", "1"))
	for i := 0; i < int(req.NumRes); i++ {
		m := &tp.ServerStreamResponse{Counter: int32(i)}
		if err := st.Send(m); err != nil {
			return err
		}
		m.Counter = -1
	}
	st.SetTrailer(metadata.Pairs("x-t", "1"))
	return nil
}
func (s *apiServer) BidiStream(st grpc.BidiStreamingServer[tp.BidiStreamRequest, tp.BidiStreamResponse]) error {
	for n := 1; ; n++ {
		m, err := st.Recv()
		if err == io.EOF {
			return nil
		}
		if err != nil {
			return err
		}
		if s.failAfter > 0 && n >= s.failAfter {
			return fmt.Errorf("handler gives up after %d message(s)", n)
		}
		if err := st.Send(&tp.BidiStreamResponse{Msg: "re:" + m.Msg}); err != nil {
			return err
		}
	}
}

func main() {
	h := hx.New("C11")
	if !verifrt.RaceBuild {
		fmt.Fprintln(os.Stderr, "TOOL-ERROR: the C11 harness must be built with -race")
		os.Exit(2)
	}
	// canary: a deliberately racy harness-only program. If the detector does not report it under
	// the controlled scheduler, the whole check is blind: that is a tool error, not a pass.
	h.Seq("canary (self-test: an unsynchronised counter must be reported)", func(s *hx.Seq) {
		if !s.Own() {
			return
		}
		seen := false
		st := verifrt.Explore(verifrt.Config{Name: "canary", Bound: 1}, func() {
			x := 0
			par(func() { x++ }, func() { x++ })
			_ = x
		}, func(x *verifrt.ExecResult) verifrt.Verdict {
			for _, r := range newReports() {
				if fr, internal := accessFrames(r); !internal && len(fr) > 0 && strings.Contains(fr[0], "main.") {
					seen = true
				}
			}
			return verifrt.Verdict{Outcome: x.Status}
		})
		s.Eval(int(st.Executions))
		s.Trans(int(st.Transitions))
		s.State("canary")
		s.Distinct("canary-a")
		s.Distinct("canary-b")
		s.Sample("two threads increment an int without synchronisation: the race detector must report it in one of the enumerated schedules")
		if !seen {
			fmt.Fprintln(os.Stderr, "TOOL-ERROR: the race detector did not report the canary race under the controlled scheduler: the C11 check would be blind")
			os.Exit(2)
		}
	})
	for _, p := range programs() {
		q, t := 1, 2
		if strings.HasPrefix(p.name, "collection(no duplicates)/") {
			q, t = 0, 1 // three callers on two full subscription pipelines: 70 000 executions at one preemption
		}
		if strings.HasPrefix(p.name, "collection(lagging lossy subscriber)/") {
			q, t = 0, 1 // two subscription pipelines, one with its merge stage: 200 000 executions at one preemption
		}
		h.Sched(p.name, q, t, p.body, raceOracle(p.name))
	}
	for _, p := range serverPrograms() {
		h.Sched(p.name, 1, 2, p.body, raceOracle(p.name))
	}
	for _, p := range purePrograms() {
		h.Sched(p.name, 1, 2, p.body, raceOracle(p.name))
	}
	h.Run()
}
