// C09 — lossy delivery preserves the folded view; slow readers never block
// writers; with backpressure nothing is dropped and an undeliverable Value
// write errors out after its (virtual) five-second send timeout.
package main

import (
	"context"
	"fmt"
	"sort"
	"strings"
	"sync"
	"time"

	"google.golang.org/grpc/codes"
	"google.golang.org/grpc/status"
	"google.golang.org/protobuf/proto"

	"github.com/smart-core-os/sc-api/go/types"
	"github.com/smart-core-os/sc-golang/internal/minibus"
	"github.com/smart-core-os/sc-golang/internal/testproto"
	"github.com/smart-core-os/sc-golang/pkg/resource"
	"verifrt"
	"verifrt/hx"
)

type T = testproto.TestAllTypes

func msg(v int) *T { return &T{DefaultInt32: int32(v)} }
func show(m proto.Message) string {
	if m == nil {
		return "-"
	}
	return fmt.Sprint(m.(*T).DefaultInt32)
}

type ev struct {
	kind     types.ChangeType
	id       string
	old, new string
}

func (e ev) String() string { return fmt.Sprintf("%v:%s:%s>%s", e.kind, e.id, e.old, e.new) }

func fold(view map[string]string, e ev) {
	if e.kind == types.ChangeType_REMOVE {
		delete(view, e.id)
	} else {
		view[e.id] = e.new
	}
}

func viewStr(v map[string]string) string {
	var ks []string
	for k, x := range v {
		ks = append(ks, k+"="+x)
	}
	sort.Strings(ks)
	return strings.Join(ks, ",")
}

// checkStream: the received events, folded onto the seed state, must give the final
// state; old values must chain per id.
func checkStream(name string, seed map[string]string, received []ev, final map[string]string) {
	view := map[string]string{}
	for k, v := range seed {
		view[k] = v
	}
	for _, e := range received {
		prev, had := view[e.id]
		if !had {
			prev = "-"
		}
		if e.old != prev {
			verifrt.Logf("FAIL old-chain %s ## event %v carries old value %s but the previous value delivered for %s was %s; received %v", name, e, e.old, e.id, prev, received)
		}
		switch e.kind {
		case types.ChangeType_ADD:
			if had {
				verifrt.Logf("FAIL kind %s ## %v for an id the subscriber already holds; received %v", name, e, received)
			}
		case types.ChangeType_UPDATE, types.ChangeType_REPLACE, types.ChangeType_REMOVE:
			if !had {
				verifrt.Logf("FAIL kind %s ## %v for an id the subscriber does not hold; received %v", name, e, received)
			}
		}
		fold(view, e)
	}
	if viewStr(view) != viewStr(final) {
		verifrt.Logf("FAIL fold %s ## folding the received events gives {%s}, the store holds {%s}; received %v", name, viewStr(view), viewStr(final), received)
	}
}

// ---- harness A/C: Collection, one writer, one subscriber
// ops: "+a" add, "~a" update, "-a" delete (always legal for the state they are applied in)
// (Every Pull of these harnesses gives the backpressure option twice, the opposite setting first: options are applied in
// order and the later one is the one that counts - a wrapper's default overridden by its caller.)
func collBody(name string, ops []string, backpressure, lateConsumer bool) func() {
	return func() {
		col := resource.NewCollection(resource.WithInitialRecord("a", msg(0)))
		ctx, cancel := context.WithCancel(context.Background())
		defer cancel()
		ch := col.Pull(ctx, resource.WithBackpressure(!backpressure), resource.WithBackpressure(backpressure), resource.WithUpdatesOnly(true))
		var received []ev
		consume := func() {
			for c := range ch {
				received = append(received, ev{c.ChangeType, c.Id, show(c.OldValue), show(c.NewValue)})
			}
		}
		if !lateConsumer {
			go consume()
		}
		var wg sync.WaitGroup
		wg.Add(1)
		var committed []ev
		model := map[string]string{"a": "0"}
		go func() {
			defer wg.Done()
			for k, o := range ops {
				id := o[1:]
				var err error
				v := k + 1
				switch o[0] {
				case '+':
					_, err = col.Add(id, msg(v))
					committed = append(committed, ev{types.ChangeType_ADD, id, "-", fmt.Sprint(v)})
				case '~':
					_, err = col.Update(id, msg(v))
					committed = append(committed, ev{types.ChangeType_UPDATE, id, model[id], fmt.Sprint(v)})
				case '-':
					_, err = col.Delete(id)
					committed = append(committed, ev{types.ChangeType_REMOVE, id, model[id], "-"})
				}
				if err != nil {
					verifrt.Logf("FAIL write-error %s ## %s: %v", name, o, err)
				}
				fold(model, committed[len(committed)-1])
			}
		}()
		// without backpressure the writer must finish no matter what the subscriber does;
		// a writer that needs the subscriber shows up here as a deadlock
		wg.Wait()
		if lateConsumer {
			go consume()
		}
		verifrt.WaitIdle()
		final := map[string]string{}
		for _, id := range []string{"a", "b"} {
			if m, ok := col.Get(id); ok {
				final[id] = show(m)
			}
		}
		if viewStr(final) != viewStr(model) {
			verifrt.Logf("FAIL store %s ## store {%s} differs from the reference {%s}", name, viewStr(final), viewStr(model))
		}
		checkStream(name, map[string]string{"a": "0"}, received, final)
		if backpressure {
			if fmt.Sprint(received) != fmt.Sprint(committed) {
				verifrt.Logf("FAIL dropped %s ## with backpressure the subscriber must receive exactly the committed changes %v, got %v", name, committed, received)
			}
		}
		verifrt.Logf("OUT received=%v", received)
	}
}

// twoWritersBody: an Update and a Delete of the same item by two writers, a subscriber that keeps up: whichever
// order the two commit in (and however often the loser has to look again), the events chain - each carries as its
// old value what the previous one delivered - and fold to the store.
func twoWritersBody(name string, backpressure bool) func() {
	return func() {
		col := resource.NewCollection(resource.WithInitialRecord("a", msg(0)))
		ctx, cancel := context.WithCancel(context.Background())
		defer cancel()
		ch := col.Pull(ctx, resource.WithBackpressure(backpressure), resource.WithUpdatesOnly(true))
		var received []ev
		go func() {
			for c := range ch {
				received = append(received, ev{c.ChangeType, c.Id, show(c.OldValue), show(c.NewValue)})
			}
		}()
		var wg sync.WaitGroup
		wg.Add(2)
		var deleted string
		go func() {
			defer wg.Done()
			col.Update("a", msg(1)) // NotFound when the delete came first
		}()
		go func() {
			defer wg.Done()
			m, err := col.Delete("a")
			if err != nil {
				verifrt.Logf("FAIL write-error %s ## Delete: %v", name, err)
			}
			deleted = show(m)
		}()
		wg.Wait()
		verifrt.WaitIdle()
		final := map[string]string{}
		if m, ok := col.Get("a"); ok {
			final["a"] = show(m)
		}
		checkStream(name, map[string]string{"a": "0"}, received, final)
		// what Delete hands back is the item as it was removed: the old value of the REMOVE event
		for _, e := range received {
			if e.kind == types.ChangeType_REMOVE && backpressure && e.old != deleted {
				verifrt.Logf("FAIL delete-result %s ## Delete returned %s, its event says %s was removed; received %v", name, deleted, e.old, received)
			}
		}
		verifrt.Logf("OUT received=%v", received)
	}
}

// replaceBackBody: a collection with no-duplicates, a lossy subscriber that holds item a, and a writer that removes a,
// creates it again with another value and then writes the ORIGINAL value back. However the removal and the creation
// reach the subscriber (one after the other, or folded into one replacement), what it holds afterwards is the new
// value - so the write back to the original one is news, and the folded view ends on the store's state.
func replaceBackBody(name string, updatesOnly bool) func() {
	return func() {
		col := resource.NewCollection(resource.WithNoDuplicates(), resource.WithInitialRecord("a", msg(0)))
		ctx, cancel := context.WithCancel(context.Background())
		defer cancel()
		ch := col.Pull(ctx, resource.WithUpdatesOnly(updatesOnly))
		view := map[string]string{}
		if updatesOnly {
			view["a"] = "0" // what it knows from elsewhere
		}
		var received []ev
		go func() {
			for c := range ch {
				e := ev{c.ChangeType, c.Id, show(c.OldValue), show(c.NewValue)}
				received = append(received, e)
				fold(view, e)
			}
		}()
		var wg sync.WaitGroup
		wg.Add(1)
		go func() {
			defer wg.Done()
			col.Delete("a")
			col.Add("a", msg(1))
			col.Update("a", msg(0))
		}()
		wg.Wait()
		verifrt.WaitIdle()
		final := map[string]string{}
		if m, ok := col.Get("a"); ok {
			final["a"] = show(m)
		}
		if viewStr(view) != viewStr(final) {
			verifrt.Logf("FAIL fold %s ## folding the received events gives {%s}, the store holds {%s}; received %v", name, viewStr(view), viewStr(final), received)
		}
		verifrt.Logf("OUT received=%v", received)
	}
}

// ---- harness B: Value
// backdated: every write carries a write time EARLIER than the one before it (WithWriteTime: a device's own record
// of when it changed, replayed late; or a clock set back). What a subscriber is owed goes by the order of the writes.
func valueBody(name string, n int, backpressure, lateConsumer, backdated bool) func() {
	return func() {
		val := resource.NewValue(resource.WithInitialValue(msg(0)))
		ctx, cancel := context.WithCancel(context.Background())
		defer cancel()
		ch := val.Pull(ctx, resource.WithBackpressure(!backpressure), resource.WithBackpressure(backpressure), resource.WithUpdatesOnly(true))
		var received []string
		consume := func() {
			for c := range ch {
				received = append(received, show(c.Value))
			}
		}
		if !lateConsumer {
			go consume()
		}
		var wg sync.WaitGroup
		wg.Add(1)
		var werr []string
		go func() {
			defer wg.Done()
			for k := 1; k <= n; k++ {
				var wo []resource.WriteOption
				if backdated {
					wo = append(wo, resource.WithWriteTime(time.Unix(int64(1000-k), 0)))
				}
				if _, err := val.Set(msg(k), wo...); err != nil {
					werr = append(werr, fmt.Sprintf("Set(%d): %v", k, err))
				}
			}
		}()
		wg.Wait()
		fired := verifrt.FiredTimers()
		if lateConsumer {
			go consume()
		}
		verifrt.WaitIdle()
		final := show(val.Get())
		switch {
		case backpressure && lateConsumer:
			// nobody receives while the writer runs. The forwarding goroutine can absorb one
			// event; every later Set cannot be delivered and must come back with an error when
			// its send timeout (virtual: fires only when nothing else can move) expires -
			// a Set that hangs instead is reported as a deadlock by the scheduler.
			if len(werr) != fired || (n >= 2 && fired < n-1) {
				verifrt.Logf("FAIL timeout %s ## %d writes with an absent reader: %d timers fired, errors %v", name, n, fired, werr)
			}
		default:
			if len(werr) > 0 || fired > 0 {
				verifrt.Logf("FAIL write-error %s ## writes failed / timers fired (%d) although the writer never depended on the reader: %v", name, fired, werr)
			}
			if len(received) == 0 || received[len(received)-1] != final {
				verifrt.Logf("FAIL last-value %s ## received %v, store holds %s", name, received, final)
			}
			for i := 1; i < len(received); i++ {
				if received[i] <= received[i-1] {
					verifrt.Logf("FAIL order %s ## received %v", name, received)
				}
			}
			if backpressure && len(received) != n {
				verifrt.Logf("FAIL dropped %s ## with backpressure all %d changes must arrive, got %v", name, n, received)
			}
		}
		verifrt.Logf("OUT received=%v errs=%d", received, len(werr))
	}
}

// ---- harness B2: a stalled backpressure subscriber next to a lossy one that keeps receiving.
// The writes fail with the send timeout (that is the backpressure subscriber's doing); the lossy subscriber,
// which never made anybody wait, must still end up with the most recent value.
func mixedBody(name string, n int, stalledFirst bool) func() {
	return func() {
		val := resource.NewValue(resource.WithInitialValue(msg(0)))
		ctx, cancel := context.WithCancel(context.Background())
		defer cancel()
		var stalled <-chan *resource.ValueChange
		open := func() { stalled = val.Pull(ctx, resource.WithBackpressure(true), resource.WithUpdatesOnly(true)) }
		if stalledFirst {
			open()
		}
		ch := val.Pull(ctx, resource.WithBackpressure(false), resource.WithUpdatesOnly(true))
		if !stalledFirst {
			open()
		}
		_ = stalled
		var received []string
		go func() {
			for c := range ch {
				received = append(received, show(c.Value))
			}
		}()
		var wg sync.WaitGroup
		wg.Add(1)
		go func() {
			defer wg.Done()
			for k := 1; k <= n; k++ {
				val.Set(msg(k)) // errors are the stalled subscriber's business (harness B)
			}
		}()
		wg.Wait()
		verifrt.WaitIdle()
		final := show(val.Get())
		if len(received) == 0 || received[len(received)-1] != final {
			verifrt.Logf("FAIL last-value %s ## the lossy subscriber received %v, the store holds %s", name, received, final)
		}
		verifrt.Logf("OUT received=%v", received)
	}
}

// ---- harness B3: a backpressure subscriber that is slow but well within the send timeout (one receive every
// three seconds of virtual time; virtual timers fire in deadline order and only when nothing else can move, so
// computation takes no time), and writers that overlap: one write first, two more at once. Each send on its own
// waits three seconds at most, however long its writer queued behind the others, so no write may fail with the
// send timeout and every committed value reaches the subscriber, in commit order. (A writer that loses the
// optimistic race comes back Aborted; that is not a delivery failure.)
func sleepVirtual(d time.Duration) {
	c, cancel := context.WithTimeout(context.Background(), d)
	<-c.Done()
	cancel()
}

func pacedBody(name string, writers int) func() {
	return func() {
		val := resource.NewValue(resource.WithInitialValue(msg(0)))
		ctx, cancel := context.WithCancel(context.Background())
		defer cancel()
		ch := val.Pull(ctx, resource.WithBackpressure(true), resource.WithUpdatesOnly(true))
		var received []string
		go func() {
			for {
				sleepVirtual(3 * time.Second)
				c, ok := <-ch
				if !ok {
					return
				}
				received = append(received, show(c.Value))
			}
		}()
		var okVals, werr []string
		set := func(k int) {
			_, err := val.Set(msg(k))
			switch {
			case err == nil:
				okVals = append(okVals, show(msg(k)))
			case status.Code(err) == codes.Aborted:
			default:
				werr = append(werr, fmt.Sprintf("Set(%d): %v", k, err))
			}
		}
		set(1)
		var wg sync.WaitGroup
		for k := 2; k <= writers; k++ {
			k := k
			wg.Add(1)
			go func() { defer wg.Done(); set(k) }()
		}
		wg.Wait()
		sleepVirtual(time.Hour)
		final := show(val.Get())
		cancel()
		verifrt.WaitIdle()
		if len(werr) > 0 {
			verifrt.Logf("FAIL paced-write-error %s ## the subscriber receives every 3s, each send alone waits at most 3s of its 5s: %v; received %v", name, werr, received)
		}
		if len(received) == 0 || received[len(received)-1] != final {
			verifrt.Logf("FAIL paced-last-value %s ## received %v, store holds %s (write errors %v)", name, received, final, werr)
		}
		got := append([]string(nil), received...)
		sort.Strings(got)
		sort.Strings(okVals)
		if strings.Join(got, ",") != strings.Join(okVals, ",") {
			verifrt.Logf("FAIL paced-dropped %s ## writes that succeeded: %v, received (sorted): %v", name, okVals, got)
		}
		verifrt.Logf("OUT received=%v errs=%d", received, len(werr))
	}
}

// ---- harness B4: a backpressure subscriber that looks the value up (Get) between two receives - it keeps
// receiving, it is never the one that stops - while a writer writes twice in a row. Nothing may be dropped and no
// write may run into the send timeout: a subscriber reading the resource it subscribes to is ordinary use.
func readingSubscriberBody(name string, coll bool, writes int) func() {
	return func() {
		ctx, cancel := context.WithCancel(context.Background())
		defer cancel()
		var received []string
		var werr []string
		var final string
		if coll {
			col := resource.NewCollection(resource.WithInitialRecord("a", msg(0)))
			ch := col.Pull(ctx, resource.WithBackpressure(true), resource.WithUpdatesOnly(true))
			go func() {
				for c := range ch {
					col.Get("a")
					received = append(received, show(c.NewValue))
				}
			}()
			for k := 1; k <= writes; k++ {
				if _, err := col.Update("a", msg(k)); err != nil {
					werr = append(werr, fmt.Sprintf("Update(%d): %v", k, err))
				}
			}
			verifrt.WaitIdle()
			m, _ := col.Get("a")
			final = show(m)
		} else {
			val := resource.NewValue(resource.WithInitialValue(msg(0)))
			ch := val.Pull(ctx, resource.WithBackpressure(true), resource.WithUpdatesOnly(true))
			go func() {
				for c := range ch {
					val.Get()
					received = append(received, show(c.Value))
				}
			}()
			for k := 1; k <= writes; k++ {
				if _, err := val.Set(msg(k)); err != nil {
					werr = append(werr, fmt.Sprintf("Set(%d): %v", k, err))
				}
			}
			verifrt.WaitIdle()
			final = show(val.Get())
		}
		if len(werr) > 0 || verifrt.FiredTimers() > 0 {
			verifrt.Logf("FAIL reading-subscriber-write-error %s ## the subscriber never stopped receiving, yet: %v (timers fired: %d); received %v", name, werr, verifrt.FiredTimers(), received)
		}
		if len(received) != writes || received[len(received)-1] != final {
			verifrt.Logf("FAIL reading-subscriber-dropped %s ## %d writes, received %v, store holds %s", name, writes, received, final)
		}
		verifrt.Logf("OUT received=%v errs=%d", received, len(werr))
	}
}

// the same subscriber while the item is updated, DELETED and added again: every kind of write delivers its event
// without holding anything the subscriber's own reads need.
func readingSubscriberDeleteBody(name string) func() {
	return func() {
		ctx, cancel := context.WithCancel(context.Background())
		defer cancel()
		var received []string
		var werr []string
		col := resource.NewCollection(resource.WithInitialRecord("a", msg(0)), resource.WithInitialRecord("b", msg(0)))
		ch := col.Pull(ctx, resource.WithBackpressure(true), resource.WithUpdatesOnly(true))
		go func() {
			for c := range ch {
				col.Get("a")
				col.List()
				received = append(received, c.ChangeType.String()+":"+c.Id+":"+show(c.NewValue))
			}
		}()
		note := func(what string, err error) {
			if err != nil {
				werr = append(werr, what+": "+err.Error())
			}
		}
		_, err := col.Update("a", msg(1))
		note("Update(a,1)", err)
		_, err = col.Delete("b")
		note("Delete(b)", err)
		_, err = col.Delete("a")
		note("Delete(a)", err)
		_, err = col.Add("a", msg(3))
		note("Add(a,3)", err)
		verifrt.WaitIdle()
		if len(werr) > 0 || verifrt.FiredTimers() > 0 {
			verifrt.Logf("FAIL reading-subscriber-write-error %s ## the subscriber never stopped receiving, yet: %v (timers fired: %d); received %v", name, werr, verifrt.FiredTimers(), received)
		}
		if want := "[UPDATE:a:1 REMOVE:b:- REMOVE:a:- ADD:a:3]"; fmt.Sprint(received) != want {
			verifrt.Logf("FAIL reading-subscriber-dropped %s ## received %v, written %s", name, received, want)
		}
		verifrt.Logf("OUT received=%v errs=%d", received, len(werr))
	}
}

// ---- harness D: the excess components alone
func componentBody(name string, seq []ev, merge bool, closeAfter bool) func() {
	return func() {
		in := make(chan any)
		var out <-chan any
		if merge {
			out = resource.VerifMergeCollectionExcess(in)
		} else {
			out = minibus.DropExcess(in)
		}
		var received []ev
		closed := false
		go func() {
			for m := range out {
				if merge {
					c := m.(*resource.CollectionChange)
					received = append(received, ev{c.ChangeType, c.Id, show(c.OldValue), show(c.NewValue)})
				} else {
					received = append(received, m.(ev))
				}
			}
			closed = true
		}()
		var wg sync.WaitGroup
		wg.Add(1)
		go func() {
			defer wg.Done()
			for _, e := range seq {
				if merge {
					c := &resource.CollectionChange{Id: e.id, ChangeType: e.kind}
					if e.old != "-" {
						var n int
						fmt.Sscan(e.old, &n)
						c.OldValue = msg(n)
					}
					if e.new != "-" {
						var n int
						fmt.Sscan(e.new, &n)
						c.NewValue = msg(n)
					}
					in <- c
				} else {
					in <- e
				}
			}
		}()
		wg.Wait() // the producer never waits for the consumer
		verifrt.WaitIdle()
		full := map[string]string{}
		for _, e := range seq {
			fold(full, e)
		}
		got := map[string]string{}
		for _, e := range received {
			fold(got, e)
		}
		if merge {
			if viewStr(full) != viewStr(got) {
				verifrt.Logf("FAIL fold %s ## input %v folds to {%s}; delivered %v folds to {%s}", name, seq, viewStr(full), received, viewStr(got))
			}
		} else if len(seq) > 0 {
			if len(received) == 0 || received[len(received)-1] != seq[len(seq)-1] {
				verifrt.Logf("FAIL last-value %s ## input %v, delivered %v", name, seq, received)
			}
		}
		if closeAfter {
			close(in)
			verifrt.WaitIdle()
			if !closed {
				verifrt.Logf("FAIL not-closed %s ## input closed but the output is still open", name)
			}
			if a := verifrt.Alive(); len(a) > 0 {
				verifrt.Logf("FAIL goroutine-left %s ## input closed, output drained, still alive: %v", name, a)
			}
		}
		verifrt.Logf("OUT delivered=%v", received)
	}
}

// legal op sequences for a collection that starts as {a}
func legalSeqs(n int) [][]string {
	var out [][]string
	var rec func(cur []string, has map[string]bool)
	rec = func(cur []string, has map[string]bool) {
		if len(cur) == n {
			out = append(out, append([]string(nil), cur...))
			return
		}
		for _, id := range []string{"a", "b"} {
			var ops []string
			if has[id] {
				ops = []string{"~" + id, "-" + id}
			} else {
				ops = []string{"+" + id}
			}
			for _, o := range ops {
				h2 := map[string]bool{"a": has["a"], "b": has["b"]}
				h2[id] = o[0] != '-'
				rec(append(cur, o), h2)
			}
		}
	}
	rec(nil, map[string]bool{"a": true})
	return out
}

// legal event sequences (as the bus would carry them) for one id over the 4 kinds, plus
// the kind pairs a real collection cannot emit
func eventSeqs(n int, legalOnly bool) [][]ev {
	kinds := []types.ChangeType{types.ChangeType_ADD, types.ChangeType_UPDATE, types.ChangeType_REPLACE, types.ChangeType_REMOVE}
	var out [][]ev
	var rec func(cur []ev, state map[string]string, v int)
	rec = func(cur []ev, state map[string]string, v int) {
		if len(cur) == n {
			out = append(out, append([]ev(nil), cur...))
			return
		}
		for _, id := range []string{"a", "b"} {
			for _, k := range kinds {
				old, has := state[id]
				if !has {
					old = "-"
				}
				if legalOnly {
					if (k == types.ChangeType_ADD) == has {
						continue
					}
				}
				e := ev{k, id, old, fmt.Sprint(v)}
				if k == types.ChangeType_REMOVE {
					e.new = "-"
				}
				if k == types.ChangeType_ADD {
					e.old = "-"
				}
				s2 := map[string]string{}
				for a, b := range state {
					s2[a] = b
				}
				fold(s2, e)
				rec(append(cur, e), s2, v+1)
			}
		}
	}
	rec(nil, map[string]string{}, 1)
	return out
}

func main() {
	h := hx.New("C09")
	for _, uo := range []bool{false, true} {
		name := fmt.Sprintf("coll(no-duplicates)/delete a; add a=1; update a=0 (the value it had)/lossy, updates_only=%v", uo)
		h.Sched(name, -1, -1, replaceBackBody(name, uo), hx.StdOracle)
	}
	for _, bp := range []bool{false, true} {
		name := fmt.Sprintf("coll/update a || delete a/backpressure=%v", bp)
		h.Sched(name, -1, -1, twoWritersBody(name, bp), hx.StdOracle)
	}
	for n := 1; n <= 5; n++ {
		q := -1
		if n > 3 {
			q = -2
		}
		for _, ops := range legalSeqs(n) {
			for _, late := range []bool{false, true} {
				name := fmt.Sprintf("coll-lossy/%s/late=%v", strings.Join(ops, ""), late)
				h.Sched(name, q, -1, collBody(name, ops, false, late), hx.StdOracle)
			}
			if n <= 3 {
				name := fmt.Sprintf("coll-backpressure/%s", strings.Join(ops, ""))
				h.Sched(name, q, -1, collBody(name, ops, true, false), hx.StdOracle)
			}
		}
	}
	for n := 1; n <= 4; n++ {
		q := -1
		if n > 3 {
			q = -2
		}
		for _, late := range []bool{false, true} {
			name := fmt.Sprintf("value-lossy/n=%d/late=%v", n, late)
			h.Sched(name, q, -1, valueBody(name, n, false, late, false), hx.StdOracle)
			name = fmt.Sprintf("value-backpressure/n=%d/late=%v", n, late)
			if late && n > 2 {
				continue
			}
			h.Sched(name, q, -1, valueBody(name, n, true, late, false), hx.StdOracle)
		}
	}
	for _, bp := range []bool{false, true} {
		name := fmt.Sprintf("value/backpressure=%v/n=2/write times going backwards", bp)
		h.Sched(name, -1, -1, valueBody(name, 2, bp, false, true), hx.StdOracle)
	}
	for _, coll := range []bool{false, true} {
		for n := 2; n <= 3; n++ {
			name := fmt.Sprintf("%s-backpressure/subscriber-reads-between-receives/n=%d", map[bool]string{false: "value", true: "coll"}[coll], n)
			h.Sched(name, -1, -1, readingSubscriberBody(name, coll, n), hx.StdOracle)
			if coll && n == 2 {
				name = "reading-subscriber/collection/update, delete, delete, add"
				h.Sched(name, -1, -1, readingSubscriberDeleteBody(name), hx.StdOracle)
			}
		}
	}
	for w := 2; w <= 3; w++ {
		name := fmt.Sprintf("value-backpressure/paced-subscriber(3s)/1+%d-overlapping-writers", w-1)
		h.Sched(name, -1, -1, pacedBody(name, w), hx.StdOracle)
	}
	for _, first := range []bool{true, false} {
		for n := 1; n <= 2; n++ {
			name := fmt.Sprintf("value-mixed/stalled-backpressure+lossy/n=%d/stalled-first=%v", n, first)
			h.Sched(name, -1, -1, mixedBody(name, n, first), hx.StdOracle)
		}
	}
	for n := 0; n <= 4; n++ {
		for _, seq := range eventSeqs(n, n > 2) {
			q := -1
			if n > 3 {
				q = -2
			}
			var parts []string
			for _, e := range seq {
				parts = append(parts, e.String())
			}
			name := fmt.Sprintf("merge/%s", strings.Join(parts, ","))
			h.Sched(name, q, -1, componentBody(name, seq, true, true), hx.StdOracle)
			if n <= 3 && allA(seq) {
				name = fmt.Sprintf("dropexcess/%s", strings.Join(parts, ","))
				h.Sched(name, q, -1, componentBody(name, seq, false, true), hx.StdOracle)
			}
		}
	}
	h.Run()
}

func allA(seq []ev) bool {
	for _, e := range seq {
		if e.id != "a" || e.kind != types.ChangeType_UPDATE {
			return false
		}
	}
	return true
}
