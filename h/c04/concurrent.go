package main

// The statement fixes ONE writer, not the moment the subscriber arrives: a backpressured Pull opened while
// that writer is at work must still be an exact edit script - the seed is the state after some prefix of the
// writes and the events are exactly the remaining writes, each once, in order. (Convergence alone - C03 -
// cannot tell a duplicated event from a single one.) Every schedule of {writer, subscriber} is explored.

import (
	"context"
	"fmt"
	"strings"

	"github.com/smart-core-os/sc-api/go/types"
	"google.golang.org/protobuf/proto"

	"github.com/smart-core-os/sc-golang/pkg/resource"
	"verifrt"
	"verifrt/hx"
)

func concValueBody(name string, updatesOnly bool, writes int) func() {
	return func() {
		v := resource.NewValue(resource.WithInitialValue(val{0, "i"}.msg()))
		ctx, cancel := context.WithCancel(context.Background())
		defer cancel()
		var got []int
		var seeds int
		go func() {
			for c := range v.Pull(ctx, resource.WithBackpressure(true), resource.WithUpdatesOnly(updatesOnly)) {
				got = append(got, int(c.Value.(*T).DefaultInt32))
				if c.SeedValue {
					seeds++
					if len(got) != 1 {
						verifrt.Logf("FAIL concurrent-seed-flag %s ## event %d is flagged as seed: %v", name, len(got), got)
					}
				}
			}
		}()
		go func() {
			for k := 1; k <= writes; k++ {
				if _, err := v.Set(val{k, "w"}.msg()); err != nil {
					verifrt.Logf("FAIL concurrent-write %s ## Set(%d): %v", name, k, err)
				}
			}
		}()
		verifrt.WaitIdle()
		// expected: seed s (unless updates-only) followed by s+1 .. writes
		ok := true
		start := writes + 1
		if len(got) > 0 {
			start = got[0]
		}
		if !updatesOnly {
			ok = len(got) > 0 && seeds == 1
			start++
		} else {
			ok = seeds == 0
			if len(got) > 0 && got[0] < 1 {
				ok = false
			}
		}
		rest := got
		if !updatesOnly && len(got) > 0 {
			rest = got[1:]
		}
		for i, g := range rest {
			if g != start+i {
				ok = false
			}
		}
		if len(rest) != writes-start+1 {
			ok = false
		}
		if !ok {
			verifrt.Logf("FAIL concurrent-edit-script %s ## received %v (seed events %d) for writes 1..%d: not a seed followed by exactly the remaining writes", name, got, seeds, writes)
		}
		verifrt.Logf("OUT %v", got)
	}
}

func concCollectionBody(name string, updatesOnly, lossyNeighbour bool) func() {
	return func() {
		col := resource.NewCollection(resource.WithInitialRecord("a", val{0, "i"}.msg()))
		ctx, cancel := context.WithCancel(context.Background())
		defer cancel()
		if lossyNeighbour {
			// an ordinary subscriber (no backpressure) that was there first and does not keep up: what is folded
			// together for IT is its own business - the backpressured subscriber's events are exact all the same
			col.Pull(ctx, resource.WithUpdatesOnly(true))
		}
		show := func(c *resource.CollectionChange) string {
			s := func(m interface{ GetDefaultInt32() int32 }) string { return fmt.Sprint(m.GetDefaultInt32()) }
			o, n := "-", "-"
			if c.OldValue != nil {
				o = s(c.OldValue.(*T))
			}
			if c.NewValue != nil {
				n = s(c.NewValue.(*T))
			}
			return fmt.Sprintf("%s:%s:%s>%s", c.ChangeType, c.Id, o, n)
		}
		var seed, events []string
		go func() {
			for c := range col.Pull(ctx, resource.WithBackpressure(true), resource.WithUpdatesOnly(updatesOnly)) {
				if c.SeedValue {
					if len(events) > 0 {
						verifrt.Logf("FAIL concurrent-seed-flag %s ## a seed event after %v", name, events)
					}
					seed = append(seed, fmt.Sprintf("%s=%d", c.Id, c.NewValue.(*T).DefaultInt32))
					continue
				}
				events = append(events, show(c))
			}
		}()
		script := []string{
			fmt.Sprintf("%s:b:->5", types.ChangeType_ADD),
			fmt.Sprintf("%s:a:0>1", types.ChangeType_UPDATE),
			fmt.Sprintf("%s:b:5>-", types.ChangeType_REMOVE),
		}
		states := []string{"a=0", "a=0,b=5", "a=1,b=5", "a=1"}
		if lossyNeighbour {
			// three writes to ONE item: the second waits in the neighbour's queue when the third arrives
			script = []string{
				fmt.Sprintf("%s:a:0>1", types.ChangeType_UPDATE),
				fmt.Sprintf("%s:a:1>2", types.ChangeType_UPDATE),
				fmt.Sprintf("%s:a:2>3", types.ChangeType_UPDATE),
			}
			states = []string{"a=0", "a=1", "a=2", "a=3"}
		}
		go func() {
			if lossyNeighbour {
				for k := 1; k <= 3; k++ {
					if _, err := col.Update("a", val{k, "w"}.msg()); err != nil {
						verifrt.Logf("FAIL concurrent-write %s ## Update: %v", name, err)
					}
				}
				return
			}
			if _, err := col.Add("b", val{5, "w"}.msg()); err != nil {
				verifrt.Logf("FAIL concurrent-write %s ## Add: %v", name, err)
			}
			if _, err := col.Update("a", val{1, "w"}.msg()); err != nil {
				verifrt.Logf("FAIL concurrent-write %s ## Update: %v", name, err)
			}
			if _, err := col.Delete("b"); err != nil {
				verifrt.Logf("FAIL concurrent-write %s ## Delete: %v", name, err)
			}
		}()
		verifrt.WaitIdle()
		ok := false
		if updatesOnly {
			// some suffix of the script, nothing flagged as seed
			for k := 0; k <= len(script) && len(seed) == 0; k++ {
				if strings.Join(events, " ") == strings.Join(script[k:], " ") {
					ok = true
				}
			}
		} else {
			for k, st := range states {
				if strings.Join(seed, ",") == st && strings.Join(events, " ") == strings.Join(script[k:], " ") {
					ok = true
				}
			}
		}
		if !ok {
			verifrt.Logf("FAIL concurrent-edit-script %s ## seed [%s] then events %v: not the state after a prefix of %v followed by exactly the rest", name, strings.Join(seed, ","), events, script)
		}
		verifrt.Logf("OUT seed=%v events=%d", seed, len(events))
	}
}

// twoSeedsBody: a caller opens a subscription on a collection of three items, writes one of them, and opens a
// second subscription (on everything, on one item only, or updates-only) - all before the first consumer has read
// a thing. Each seed is that subscriber's own snapshot: the first one's is the collection BEFORE the write (sorted,
// complete, one last-seed flag) followed by the write's event; the second one's is the collection after it.
func twoSeedsBody(name string, second string) func() {
	return func() {
		col := resource.NewCollection(resource.WithInitialRecord("a", val{1, "i"}.msg()), resource.WithInitialRecord("b", val{2, "i"}.msg()), resource.WithInitialRecord("c", val{3, "i"}.msg()))
		ctx, cancel := context.WithCancel(context.Background())
		defer cancel()
		got := make([][]string, 2)
		consume := func(i int, ch <-chan *resource.CollectionChange) {
			go func() {
				for c := range ch {
					k := c.ChangeType.String()
					if c.SeedValue {
						k = "seed"
						if c.LastSeedValue {
							k = "last-seed"
						}
					}
					got[i] = append(got[i], fmt.Sprintf("%s:%s=%d", k, c.Id, c.NewValue.(*T).DefaultInt32))
				}
			}()
		}
		// the first subscriber takes its events without backpressure (the write does not wait for it), the second
		// one is the backpressured subscriber of the statement; nobody reads until both are open
		ch0 := col.Pull(ctx)
		if _, err := col.Update("b", val{20, "w"}.msg()); err != nil {
			verifrt.Logf("FAIL two-seeds-write %s ## %v", name, err)
		}
		var opts []resource.ReadOption
		switch second {
		case "only-c":
			opts = append(opts, resource.WithInclude(func(id string, _ proto.Message) bool { return id == "c" }))
		case "updates-only":
			opts = append(opts, resource.WithUpdatesOnly(true))
		}
		ch1 := col.Pull(ctx, append(opts, resource.WithBackpressure(true))...)
		consume(0, ch0)
		consume(1, ch1)
		verifrt.WaitIdle()
		want := []string{"seed:a=1 seed:b=2 last-seed:c=3 UPDATE:b=20", map[string]string{"all": "seed:a=1 seed:b=20 last-seed:c=3", "only-c": "last-seed:c=3", "updates-only": ""}[second]}
		for i := range got {
			if g := strings.Join(got[i], " "); g != want[i] {
				verifrt.Logf("FAIL two-seeds %s ## subscriber %d received [%s], expected [%s]", name, i, g, want[i])
			}
		}
		verifrt.Logf("OUT %v", got)
	}
}

func registerConcurrent(h *hx.H) {
	for _, second := range []string{"all", "only-c", "updates-only"} {
		name := fmt.Sprintf("concurrent/collection/subscribe; update b; subscribe again (%s) before the first consumer reads", second)
		// (bounded, not "all schedules with sleep sets": the reduction only knows the locks and channels two threads
		// share - what one subscription's goroutine and the other's Pull have in common here, if anything, is memory)
		h.Sched(name, 2, 3, twoSeedsBody(name, second), hx.StdOracle)
	}
	for _, uo := range []bool{false, true} {
		for _, n := range []int{1, 2, 3} {
			name := fmt.Sprintf("concurrent/value/updatesOnly=%v/writes=%d", uo, n)
			q := -1
			if n == 3 {
				q = -2
			}
			h.Sched(name, q, -1, concValueBody(name, uo, n), hx.StdOracle)
		}
		name := fmt.Sprintf("concurrent/collection/updatesOnly=%v/add-b;update-a;delete-b", uo)
		h.Sched(name, -1, -1, concCollectionBody(name, uo, false), hx.StdOracle)
		name = fmt.Sprintf("concurrent/collection/updatesOnly=%v/update-a x3/+lagging-subscriber-without-backpressure", uo)
		h.Sched(name, 2, -1, concCollectionBody(name, uo, true), hx.StdOracle)
	}
}
