package main

// The statement fixes ONE writer, not the moment the subscriber arrives: a backpressured Pull opened while
// that writer is at work must still be an exact edit script - the seed is the state after some prefix of the
// writes and the events are exactly the remaining writes, each once, in order. (Convergence alone - C03 -
// cannot tell a duplicated event from a single one.) Every schedule of {writer, subscriber} is explored.

import (
	"context"
	"fmt"
	"strings"

	"github.com/smart-core-os/sc-api/go/types"

	"github.com/smart-core-os/sc-golang/pkg/resource"
	"verifrt"
	"verifrt/hx"
)

func concValueBody(name string, updatesOnly bool, writes int) func() {
	return func() {
		v := resource.NewValue(resource.WithInitialValue(val{0, "i"}.msg()))
		ctx, cancel := context.WithCancel(context.Background())
		defer cancel()
		var got []int
		var seeds int
		go func() {
			for c := range v.Pull(ctx, resource.WithBackpressure(true), resource.WithUpdatesOnly(updatesOnly)) {
				got = append(got, int(c.Value.(*T).DefaultInt32))
				if c.SeedValue {
					seeds++
					if len(got) != 1 {
						verifrt.Logf("FAIL concurrent-seed-flag %s ## event %d is flagged as seed: %v", name, len(got), got)
					}
				}
			}
		}()
		go func() {
			for k := 1; k <= writes; k++ {
				if _, err := v.Set(val{k, "w"}.msg()); err != nil {
					verifrt.Logf("FAIL concurrent-write %s ## Set(%d): %v", name, k, err)
				}
			}
		}()
		verifrt.WaitIdle()
		// expected: seed s (unless updates-only) followed by s+1 .. writes
		ok := true
		start := writes + 1
		if len(got) > 0 {
			start = got[0]
		}
		if !updatesOnly {
			ok = len(got) > 0 && seeds == 1
			start++
		} else {
			ok = seeds == 0
			if len(got) > 0 && got[0] < 1 {
				ok = false
			}
		}
		rest := got
		if !updatesOnly && len(got) > 0 {
			rest = got[1:]
		}
		for i, g := range rest {
			if g != start+i {
				ok = false
			}
		}
		if len(rest) != writes-start+1 {
			ok = false
		}
		if !ok {
			verifrt.Logf("FAIL concurrent-edit-script %s ## received %v (seed events %d) for writes 1..%d: not a seed followed by exactly the remaining writes", name, got, seeds, writes)
		}
		verifrt.Logf("OUT %v", got)
	}
}

func concCollectionBody(name string, updatesOnly, lossyNeighbour bool) func() {
	return func() {
		col := resource.NewCollection(resource.WithInitialRecord("a", val{0, "i"}.msg()))
		ctx, cancel := context.WithCancel(context.Background())
		defer cancel()
		if lossyNeighbour {
			// an ordinary subscriber (no backpressure) that was there first and does not keep up: what is folded
			// together for IT is its own business - the backpressured subscriber's events are exact all the same
			col.Pull(ctx, resource.WithUpdatesOnly(true))
		}
		show := func(c *resource.CollectionChange) string {
			s := func(m interface{ GetDefaultInt32() int32 }) string { return fmt.Sprint(m.GetDefaultInt32()) }
			o, n := "-", "-"
			if c.OldValue != nil {
				o = s(c.OldValue.(*T))
			}
			if c.NewValue != nil {
				n = s(c.NewValue.(*T))
			}
			return fmt.Sprintf("%s:%s:%s>%s", c.ChangeType, c.Id, o, n)
		}
		var seed, events []string
		go func() {
			for c := range col.Pull(ctx, resource.WithBackpressure(true), resource.WithUpdatesOnly(updatesOnly)) {
				if c.SeedValue {
					if len(events) > 0 {
						verifrt.Logf("FAIL concurrent-seed-flag %s ## a seed event after %v", name, events)
					}
					seed = append(seed, fmt.Sprintf("%s=%d", c.Id, c.NewValue.(*T).DefaultInt32))
					continue
				}
				events = append(events, show(c))
			}
		}()
		script := []string{
			fmt.Sprintf("%s:b:->5", types.ChangeType_ADD),
			fmt.Sprintf("%s:a:0>1", types.ChangeType_UPDATE),
			fmt.Sprintf("%s:b:5>-", types.ChangeType_REMOVE),
		}
		states := []string{"a=0", "a=0,b=5", "a=1,b=5", "a=1"}
		if lossyNeighbour {
			// three writes to ONE item: the second waits in the neighbour's queue when the third arrives
			script = []string{
				fmt.Sprintf("%s:a:0>1", types.ChangeType_UPDATE),
				fmt.Sprintf("%s:a:1>2", types.ChangeType_UPDATE),
				fmt.Sprintf("%s:a:2>3", types.ChangeType_UPDATE),
			}
			states = []string{"a=0", "a=1", "a=2", "a=3"}
		}
		go func() {
			if lossyNeighbour {
				for k := 1; k <= 3; k++ {
					if _, err := col.Update("a", val{k, "w"}.msg()); err != nil {
						verifrt.Logf("FAIL concurrent-write %s ## Update: %v", name, err)
					}
				}
				return
			}
			if _, err := col.Add("b", val{5, "w"}.msg()); err != nil {
				verifrt.Logf("FAIL concurrent-write %s ## Add: %v", name, err)
			}
			if _, err := col.Update("a", val{1, "w"}.msg()); err != nil {
				verifrt.Logf("FAIL concurrent-write %s ## Update: %v", name, err)
			}
			if _, err := col.Delete("b"); err != nil {
				verifrt.Logf("FAIL concurrent-write %s ## Delete: %v", name, err)
			}
		}()
		verifrt.WaitIdle()
		ok := false
		if updatesOnly {
			// some suffix of the script, nothing flagged as seed
			for k := 0; k <= len(script) && len(seed) == 0; k++ {
				if strings.Join(events, " ") == strings.Join(script[k:], " ") {
					ok = true
				}
			}
		} else {
			for k, st := range states {
				if strings.Join(seed, ",") == st && strings.Join(events, " ") == strings.Join(script[k:], " ") {
					ok = true
				}
			}
		}
		if !ok {
			verifrt.Logf("FAIL concurrent-edit-script %s ## seed [%s] then events %v: not the state after a prefix of %v followed by exactly the rest", name, strings.Join(seed, ","), events, script)
		}
		verifrt.Logf("OUT seed=%v events=%d", seed, len(events))
	}
}

func registerConcurrent(h *hx.H) {
	for _, uo := range []bool{false, true} {
		for _, n := range []int{1, 2, 3} {
			name := fmt.Sprintf("concurrent/value/updatesOnly=%v/writes=%d", uo, n)
			q := -1
			if n == 3 {
				q = -2
			}
			h.Sched(name, q, -1, concValueBody(name, uo, n), hx.StdOracle)
		}
		name := fmt.Sprintf("concurrent/collection/updatesOnly=%v/add-b;update-a;delete-b", uo)
		h.Sched(name, -1, -1, concCollectionBody(name, uo, false), hx.StdOracle)
		name = fmt.Sprintf("concurrent/collection/updatesOnly=%v/update-a x3/+lagging-subscriber-without-backpressure", uo)
		h.Sched(name, 2, -1, concCollectionBody(name, uo, true), hx.StdOracle)
	}
}
