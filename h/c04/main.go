// C04 — with backpressure the stream is an exact, ordered edit script: all write
// histories (successful and failing writes, with and without WithWriteTime) x
// subscription options x initial contents x subscribe position, compared field by
// field with the event list a reference model produces. Runs inside the controlled
// scheduler (no preemption) so that "nothing more will arrive" is exact.
package main

import (
	"context"
	"fmt"
	"sort"
	"time"

	"google.golang.org/protobuf/proto"
	"google.golang.org/protobuf/types/known/fieldmaskpb"

	"github.com/smart-core-os/sc-golang/internal/testproto"
	"github.com/smart-core-os/sc-golang/pkg/resource"
	"verifrt"
	"verifrt/hx"
)

type T = testproto.TestAllTypes

type val struct {
	a int
	b string
}

func (v val) msg() *T { return &T{DefaultInt32: int32(v.a), DefaultString: v.b} }
func show(m proto.Message, mask bool) string {
	if m == nil {
		return "-"
	}
	t := m.(*T)
	return fmt.Sprintf("%d/%s", t.DefaultInt32, t.DefaultString)
}
func (v val) str(mask bool) string {
	if mask {
		return fmt.Sprintf("%d/", v.a)
	}
	return fmt.Sprintf("%d/%s", v.a, v.b)
}

var t0 = time.Unix(1_700_000_000, 0).UTC()
var wt = t0.Add(-time.Hour) // the explicit write time

// wtOf: the write time a write with WriteTime set is given: an hour before the clock's epoch, a day after it (the
// writes of text y), or - for the writes
// of value 2 - the zero time.Time, which is a time like any other ("use t as the change time")
func wtOf(w wop) time.Time {
	if w.V.a == 2 {
		return time.Time{}
	}
	if w.V.b == "y" {
		return t0.Add(24 * time.Hour) // later than anything the resource's own clock says: a time like any other, too
	}
	return wt
}

// clk steps by one second per write (set by the harness) and ticks one nanosecond per reading: a write that
// reads the clock more than once gets different times, which shows when the event and the stored item disagree
type clk struct{ t time.Time }

func (c *clk) Now() time.Time {
	t := c.t
	c.t = c.t.Add(time.Nanosecond)
	return t
}

type wop struct {
	Kind      string // set add update delete badmask expectfail
	ID        string
	V         val
	WriteTime bool
}

func (w wop) String() string {
	s := fmt.Sprintf("%s(%s,%d/%s)", w.Kind, w.ID, w.V.a, w.V.b)
	if w.WriteTime {
		s += "@wt"
	}
	return s
}

type item struct {
	v  val
	ct time.Time
}

type event struct {
	id, kind, newV, oldV string
	ct                   time.Time
	seed, last           bool
}

func (e event) String() string {
	f := ""
	if e.seed {
		f += " seed"
	}
	if e.last {
		f += " last"
	}
	return fmt.Sprintf("%s:%s:%s>%s@%d%s", e.kind, e.id, e.oldV, e.newV, e.ct.Unix()-t0.Unix(), f)
}

type cfg struct {
	IsValue     bool
	Initial     int // collection: 0, 1 or 3 initial items (inserted in non-sorted order)
	UpdatesOnly bool
	Mask        bool
	NoDup       bool
	SubAfter    int // subscribe after this many operations of the history
}

func (c cfg) String() string {
	k := "collection"
	if c.IsValue {
		k = "value"
	}
	return fmt.Sprintf("%s/init=%d,updatesOnly=%v,mask=%v,noDuplicates=%v,subscribeAfter=%d", k, c.Initial, c.UpdatesOnly, c.Mask, c.NoDup, c.SubAfter)
}

func run(c cfg, hist []wop) (key, msg string) {
	var fk, fm string
	res := verifrt.RunOnce(nil, false, func() {
		ck := &clk{t0}
		opts := []resource.Option{resource.WithClock(ck)}
		if c.NoDup {
			opts = append(opts, resource.WithNoDuplicates())
		}
		ref := map[string]item{}
		var value *resource.Value
		var col *resource.Collection
		if c.IsValue {
			value = resource.NewValue(append(opts, resource.WithInitialValue(val{0, "i"}.msg()))...)
			ref[""] = item{val{0, "i"}, t0}
		} else {
			for _, id := range []string{"m", "c", "x"}[:c.Initial] {
				opts = append(opts, resource.WithInitialRecord(id, val{len(id) + 4, "i" + id}.msg()))
				ref[id] = item{val{len(id) + 4, "i" + id}, t0}
			}
			if c.Initial == 3 {
				// options describe the resource, their order is not part of the description: here the clock comes
				// after the initial records it has to stamp
				opts = append(opts[1:len(opts):len(opts)], opts[0])
			}
			col = resource.NewCollection(opts...)
		}
		var ropts []resource.ReadOption
		ropts = append(ropts, resource.WithBackpressure(true), resource.WithUpdatesOnly(c.UpdatesOnly))
		if c.Mask {
			ropts = append(ropts, resource.WithReadMask(&fieldmaskpb.FieldMask{Paths: []string{"default_int32"}}))
		}
		ctx, cancel := context.WithCancel(context.Background())
		defer cancel()
		var got []event
		var want []event
		held := map[string]string{} // what the subscriber holds per id (projected), for the equivalence clause
		maybe := map[int]bool{}     // positions in want that may legitimately be suppressed
		subscribe := func() {
			if !c.UpdatesOnly {
				var ids []string
				for id := range ref {
					ids = append(ids, id)
				}
				sort.Strings(ids)
				for i, id := range ids {
					e := event{id: id, kind: "ADD", newV: ref[id].v.str(c.Mask), oldV: "-", ct: ref[id].ct, seed: true, last: i == len(ids)-1}
					if c.IsValue {
						e.kind, e.oldV = "", ""
					}
					want = append(want, e)
					held[id] = e.newV
				}
			}
			if c.IsValue {
				ch := value.Pull(ctx, ropts...)
				go func() {
					for e := range ch {
						got = append(got, event{newV: show(e.Value, c.Mask), ct: e.ChangeTime, seed: e.SeedValue, last: e.LastSeedValue})
					}
				}()
			} else {
				ch := col.Pull(ctx, ropts...)
				go func() {
					for e := range ch {
						got = append(got, event{id: e.Id, kind: e.ChangeType.String(), newV: show(e.NewValue, c.Mask), oldV: show(e.OldValue, c.Mask), ct: e.ChangeTime, seed: e.SeedValue, last: e.LastSeedValue})
					}
				}()
			}
		}
		subscribed := false
		if c.SubAfter == 0 {
			subscribe()
			subscribed = true
		}
		for k, w := range hist {
			now := t0.Add(time.Duration(k+1) * time.Second)
			ck.t = now
			var wo []resource.WriteOption
			ct := now
			if w.WriteTime {
				wo = append(wo, resource.WithWriteTime(wtOf(w)))
				ct = wtOf(w)
			}
			var err error
			old, existed := ref[w.ID]
			ok := false
			var kind string
			nv := w.V
			switch w.Kind {
			case "set":
				_, err = value.Set(w.V.msg(), wo...)
				ok, kind = true, ""
			case "badmask":
				if c.IsValue {
					_, err = value.Set(w.V.msg(), append(wo, resource.WithUpdatePaths("no_such_field"))...)
				} else {
					_, err = col.Update(w.ID, w.V.msg(), append(wo, resource.WithUpdatePaths("no_such_field"))...)
				}
			case "expectfail":
				if c.IsValue {
					_, err = value.Set(w.V.msg(), append(wo, resource.WithExpectedValue(val{99, "no"}.msg()))...)
				} else {
					_, err = col.Update(w.ID, w.V.msg(), append(wo, resource.WithExpectedValue(val{99, "no"}.msg()))...)
				}
			case "add":
				_, err = col.Add(w.ID, w.V.msg(), wo...)
				ok, kind = !existed, "ADD"
			case "update":
				_, err = col.Update(w.ID, w.V.msg(), wo...)
				ok, kind = existed, "UPDATE"
			case "delete":
				_, err = col.Delete(w.ID, wo...)
				ok, kind = existed, "REMOVE"
			}
			if ok != (err == nil) {
				fk, fm = "write-result", fmt.Sprintf("%v returned %v, the reference expects success=%v", w, err, ok)
				return
			}
			if ok {
				e := event{id: w.ID, kind: kind, ct: ct}
				switch kind {
				case "REMOVE":
					// WithWriteTime: "any change events that may be emitted with this write use t as their ChangeTime"
					e.oldV, e.newV = old.v.str(c.Mask), "-"
					delete(ref, w.ID)
				case "ADD":
					e.oldV, e.newV = "-", nv.str(c.Mask)
					ref[w.ID] = item{nv, ct}
				default:
					e.oldV, e.newV = old.v.str(c.Mask), nv.str(c.Mask)
					ref[w.ID] = item{nv, ct}
				}
				if c.IsValue {
					e.oldV, e.id = "", ""
				}
				if subscribed {
					if c.NoDup {
						// equivalent to what the subscriber holds: may be suppressed (the statement only says
						// suppression happens only with an equivalence configured)
						if h, has := held[w.ID]; has && kind != "REMOVE" && h == e.newV {
							maybe[len(want)] = true
						}
					}
					want = append(want, e)
					if kind == "REMOVE" {
						delete(held, w.ID)
					} else {
						held[w.ID] = e.newV
					}
				}
			}
			if k+1 == c.SubAfter {
				subscribe()
				subscribed = true
			}
		}
		verifrt.WaitIdle()
		// one write, one time: what a later subscriber is seeded with carries exactly the change time the
		// live subscriber was given for the item's last write
		if !c.NoDup && !c.UpdatesOnly && c.SubAfter == 0 {
			lastCT := map[string]time.Time{}
			for _, e := range got {
				if e.kind == "REMOVE" {
					delete(lastCT, e.id)
				} else {
					lastCT[e.id] = e.ct
				}
			}
			lctx, lcancel := context.WithCancel(context.Background())
			var late []event
			if c.IsValue {
				ch := value.Pull(lctx, resource.WithBackpressure(true))
				go func() {
					for e := range ch {
						late = append(late, event{ct: e.ChangeTime})
					}
				}()
			} else {
				ch := col.Pull(lctx, resource.WithBackpressure(true))
				go func() {
					for e := range ch {
						late = append(late, event{id: e.Id, ct: e.ChangeTime})
					}
				}()
			}
			verifrt.WaitIdle()
			lcancel()
			for _, e := range late {
				if t, ok := lastCT[e.id]; ok && !t.Equal(e.ct) {
					fk, fm = "seed-time-differs-from-event-time", fmt.Sprintf("item %q: the live subscriber's last event carries change time %s, a subscriber opened afterwards is seeded with %s", e.id, t.Format(time.RFC3339Nano), e.ct.Format(time.RFC3339Nano))
					return
				}
			}
		}
		// compare got with want, allowing the "maybe" positions to be absent
		gi := 0
		for wi, e := range want {
			if gi < len(got) && got[gi].String() == e.String() {
				gi++
				continue
			}
			if maybe[wi] {
				continue
			}
			g := "<nothing>"
			if gi < len(got) {
				g = got[gi].String()
			}
			fk, fm = "event", fmt.Sprintf("event #%d: received %s, the edit script has %s; received %v, expected %v", wi, g, e, got, want)
			return
		}
		if gi != len(got) {
			fk, fm = "extra-event", fmt.Sprintf("received %v, expected only %v", got, want)
		}
	})
	if fk == "" && res.Status != "ok" {
		return res.Status, res.Msg
	}
	return fk, fm
}

// runID: the same edit-script reading for a PullID subscription on id "c": the item's value as the only seed
// event (flagged seed AND last-seed: it is the final one of this stream), one event per successful write to "c"
// with the write's change time, nothing for other ids, and the channel closes when "c" is removed.
func runID(c cfg, hist []wop) (key, msg string) {
	var fk, fm string
	res := verifrt.RunOnce(nil, false, func() {
		ck := &clk{t0}
		opts := []resource.Option{resource.WithClock(ck)}
		ref := map[string]item{}
		for _, id := range []string{"m", "c", "x"}[:c.Initial] {
			opts = append(opts, resource.WithInitialRecord(id, val{len(id) + 4, "i" + id}.msg()))
			ref[id] = item{val{len(id) + 4, "i" + id}, t0}
		}
		if c.Initial == 3 {
			opts = append(opts[1:len(opts):len(opts)], opts[0]) // the clock option last
		}
		col := resource.NewCollection(opts...)
		ropts := []resource.ReadOption{resource.WithBackpressure(true), resource.WithUpdatesOnly(c.UpdatesOnly)}
		if c.Mask {
			ropts = append(ropts, resource.WithReadMask(&fieldmaskpb.FieldMask{Paths: []string{"default_int32"}}))
		}
		ctx, cancel := context.WithCancel(context.Background())
		defer cancel()
		var got, want []string
		closed, wantClosed := false, false
		subscribed := false
		subscribe := func() {
			subscribed = true
			if it, ok := ref["c"]; ok && !c.UpdatesOnly {
				want = append(want, fmt.Sprintf("%s@%d seed last", it.v.str(c.Mask), it.ct.Unix()-t0.Unix()))
			}
			ch := col.PullID(ctx, "c", ropts...)
			go func() {
				for e := range ch {
					f := ""
					if e.SeedValue {
						f += " seed"
					}
					if e.LastSeedValue {
						f += " last"
					}
					got = append(got, fmt.Sprintf("%s@%d%s", show(e.Value, c.Mask), e.ChangeTime.Unix()-t0.Unix(), f))
				}
				closed = true
			}()
		}
		if c.SubAfter == 0 {
			subscribe()
		}
		for k, w := range hist {
			now := t0.Add(time.Duration(k+1) * time.Second)
			ck.t = now
			ct := now
			var wo []resource.WriteOption
			if w.WriteTime {
				wo = append(wo, resource.WithWriteTime(wtOf(w)))
				ct = wtOf(w)
			}
			_, existed := ref[w.ID]
			var err error
			ok := false
			switch w.Kind {
			case "add":
				_, err = col.Add(w.ID, w.V.msg(), wo...)
				ok = !existed
			case "update":
				_, err = col.Update(w.ID, w.V.msg(), wo...)
				ok = existed
			case "delete":
				_, err = col.Delete(w.ID, wo...)
				ok = existed
			case "badmask":
				_, err = col.Update(w.ID, w.V.msg(), append(wo, resource.WithUpdatePaths("no_such_field"))...)
			case "expectfail":
				_, err = col.Update(w.ID, w.V.msg(), append(wo, resource.WithExpectedValue(val{99, "no"}.msg()))...)
			}
			if ok != (err == nil) {
				fk, fm = "write-result", fmt.Sprintf("%v returned %v, the reference expects success=%v", w, err, ok)
				return
			}
			if ok {
				if w.Kind == "delete" {
					delete(ref, w.ID)
				} else {
					ref[w.ID] = item{w.V, ct}
				}
				if subscribed && w.ID == "c" && !wantClosed {
					if w.Kind == "delete" {
						wantClosed = true
					} else {
						want = append(want, fmt.Sprintf("%s@%d", w.V.str(c.Mask), ct.Unix()-t0.Unix()))
					}
				}
			}
			if k+1 == c.SubAfter {
				subscribe()
			}
		}
		verifrt.WaitIdle()
		if fmt.Sprint(got) != fmt.Sprint(want) {
			fk, fm = "id-event", fmt.Sprintf("PullID(c) received %v, the edit script for that item is %v", got, want)
			return
		}
		if closed != wantClosed {
			fk, fm = "id-closed", fmt.Sprintf("PullID(c) channel closed=%v, expected %v (it ends when the item is removed); received %v", closed, wantClosed, got)
		}
	})
	if fk == "" && res.Status != "ok" {
		return res.Status, res.Msg
	}
	return fk, fm
}

func histories(isValue bool, n int) [][]wop {
	var alpha []wop
	if isValue {
		for _, wtm := range []bool{false, true} {
			alpha = append(alpha, wop{Kind: "set", V: val{1, "x"}, WriteTime: wtm}, wop{Kind: "set", V: val{1, "y"}, WriteTime: wtm}, wop{Kind: "set", V: val{2, "x"}, WriteTime: wtm})
		}
		alpha = append(alpha, wop{Kind: "badmask", V: val{3, "z"}}, wop{Kind: "expectfail", V: val{3, "z"}})
	} else {
		for _, id := range []string{"c", "k"} {
			alpha = append(alpha,
				wop{Kind: "add", ID: id, V: val{1, "x"}}, wop{Kind: "add", ID: id, V: val{2, "y"}, WriteTime: true},
				wop{Kind: "update", ID: id, V: val{1, "x"}}, wop{Kind: "update", ID: id, V: val{1, "y"}, WriteTime: true}, wop{Kind: "update", ID: id, V: val{2, "x"}},
				wop{Kind: "delete", ID: id}, wop{Kind: "delete", ID: id, WriteTime: true})
		}
		alpha = append(alpha, wop{Kind: "badmask", ID: "c", V: val{3, "z"}}, wop{Kind: "expectfail", ID: "c", V: val{3, "z"}})
	}
	var out [][]wop
	var rec func(cur []wop)
	rec = func(cur []wop) {
		if len(cur) > 0 {
			out = append(out, append([]wop{}, cur...))
		}
		if len(cur) == n {
			return
		}
		for _, a := range alpha {
			rec(append(cur, a))
		}
	}
	rec(nil)
	return out
}

func main() {
	h := hx.New("C04")
	registerConcurrent(h)
	for _, isValue := range []bool{true, false} {
		isValue := isValue
		name := "collection"
		if isValue {
			name = "value"
		}
		h.Seq(name, func(s *hx.Seq) {
			var rp struct {
				C cfg
				H []wop
			}
			if s.Replaying(&rp) {
				if k, m := run(rp.C, rp.H); k != "" {
					s.Fail(k, m, rp)
				}
				return
			}
			n := 3
			if s.Thorough {
				n = 4
			}
			hs := histories(isValue, n)
			inits := []int{0, 1, 3}
			if isValue {
				inits = []int{0}
			}
			for hi, hist := range hs {
				if !s.Own() {
					continue
				}
				for _, init := range inits {
					for _, uo := range []bool{false, true} {
						for _, mask := range []bool{false, true} {
							for _, nd := range []bool{false, true} {
								for sub := 0; sub <= len(hist)-1; sub++ {
									if sub > 0 && (uo || (hi%3 != 0 && !s.Thorough)) {
										continue
									}
									c := cfg{IsValue: isValue, Initial: init, UpdatesOnly: uo, Mask: mask, NoDup: nd, SubAfter: sub}
									s.Eval(1)
									s.Trans(len(hist))
									if k, m := run(c, hist); k != "" {
										s.Fail(fmt.Sprintf("%s %v %v", k, c, hist), m, map[string]any{"C": c, "H": hist})
									}
									s.State(fmt.Sprint(c, hist))
									if len(hist) > 1 {
										s.Distinct(fmt.Sprint(c, hist))
									}
								}
							}
						}
					}
				}
				if s.Stop() {
					return
				}
			}
			s.Sample(map[string]any{"config": cfg{Initial: 3, Mask: true, SubAfter: 1}.String(), "history": fmt.Sprint(hs[len(hs)/2]), "meaning": "the history is applied to a fresh resource with a stepping fake clock; the subscriber is opened before it or after a prefix; at quiescence the received events are compared field by field (id, kind, old, new, change time, seed flags) with the reference edit script"})
		})
	}
	h.Seq("collection-id", func(s *hx.Seq) {
		var rp struct {
			C cfg
			H []wop
		}
		if s.Replaying(&rp) {
			if k, m := runID(rp.C, rp.H); k != "" {
				s.Fail(k, m, rp)
			}
			return
		}
		n := 3
		if s.Thorough {
			n = 4
		}
		for hi, hist := range histories(false, n) {
			if !s.Own() {
				continue
			}
			for _, init := range []int{0, 1, 2, 3} { // 2: {m, c} - c sorts first; 3: {c, m, x} - c sorts first of three
				for _, uo := range []bool{false, true} {
					for _, mask := range []bool{false, true} {
						for sub := 0; sub <= len(hist)-1; sub++ {
							if sub > 0 && hi%3 != 0 && !s.Thorough {
								continue
							}
							c := cfg{Initial: init, UpdatesOnly: uo, Mask: mask, SubAfter: sub}
							s.Eval(1)
							s.Trans(len(hist))
							if k, m := runID(c, hist); k != "" {
								s.Fail(fmt.Sprintf("%s id %v %v", k, c, hist), m, map[string]any{"C": c, "H": hist})
							}
							s.State(fmt.Sprint("id", c, hist))
						}
					}
				}
			}
			if s.Stop() {
				return
			}
		}
	})
	h.Run()
}
