package main

// lightpb.Model configured with presets, and electricpb.Model with a write-restricted active mode: both hand
// messages they hold (a configured preset, a stored mode) to a write of another resource, so a write that
// filters its input in place changes stored state nobody wrote to.

import (
	"context"
	"fmt"

	"github.com/smart-core-os/sc-api/go/traits"
	"google.golang.org/protobuf/proto"

	"github.com/smart-core-os/sc-golang/pkg/resource"
	"github.com/smart-core-os/sc-golang/pkg/trait/electricpb"
	"github.com/smart-core-os/sc-golang/pkg/trait/lightpb"
	"github.com/smart-core-os/sc-golang/pkg/trait/wastepb"
)

func lightSys() *sys {
	model := lightpb.NewModel(
		lightpb.WithPreset(40, &traits.LightPreset{Name: "dim", Title: "Dimmed"}),
		lightpb.WithPreset(90, &traits.LightPreset{Name: "bright", Title: "Bright"}),
		lightpb.WithPreset(5, &traits.LightPreset{Name: "night"}), // configured without a title
	)
	server := lightpb.NewModelServer(model)
	s := &sys{name: "lightpb.Model(presets)"}
	s.state = func() []proto.Message {
		b, _ := model.GetBrightness()
		out := []proto.Message{proto.Clone(b)}
		for _, p := range model.ListPresets() {
			out = append(out, proto.Clone(p))
		}
		return out
	}
	upd := func(name string, build func() *traits.Brightness, opts ...resource.WriteOption) sop {
		return sop{name: name, run: func(m *mon, _ context.Context) {
			arg := build()
			write(m, s, name, arg, func() {
				if r, err := model.UpdateBrightness(arg, opts...); err == nil {
					m.reg(name+" result", r)
				}
			})
		}}
	}
	s.ops = []sop{
		upd("UpdateBrightness(preset dim)", func() *traits.Brightness { return &traits.Brightness{Preset: &traits.LightPreset{Name: "dim"}} }),
		upd("UpdateBrightness(preset dim, mask preset.name)", func() *traits.Brightness { return &traits.Brightness{Preset: &traits.LightPreset{Name: "dim"}} },
			resource.WithUpdatePaths("preset.name")),
		upd("UpdateBrightness(preset bright, mask preset)", func() *traits.Brightness { return &traits.Brightness{Preset: &traits.LightPreset{Name: "bright"}} },
			resource.WithUpdatePaths("preset")),
		upd("UpdateBrightness(20%)", func() *traits.Brightness { return &traits.Brightness{LevelPercent: 20} }),
		{name: "ListPresets()", readonly: true, run: func(m *mon, _ context.Context) {
			for i, p := range model.ListPresets() {
				m.reg(fmt.Sprintf("ListPresets()[%d]", i), p)
			}
		}},
		{name: "DescribeBrightness()", readonly: true, run: func(m *mon, ctx context.Context) {
			if d, err := server.DescribeBrightness(ctx, &traits.DescribeBrightnessRequest{}); err == nil {
				m.reg("DescribeBrightness()", d)
			}
		}},
		upd("UpdateBrightness(preset night)", func() *traits.Brightness { return &traits.Brightness{Preset: &traits.LightPreset{Name: "night"}} }),
		{name: "GetBrightness()", readonly: true, run: func(m *mon, _ context.Context) {
			b, _ := model.GetBrightness()
			m.reg("GetBrightness()", b)
		}},
		{name: "PullBrightness()", readonly: true, run: func(m *mon, ctx context.Context) {
			ch := model.PullBrightness(ctx, resource.WithBackpressure(true))
			go func() {
				for e := range ch {
					m.reg("PullBrightness event", e.Value)
				}
			}()
		}},
	}
	return s
}

// electricRestrictedSys: the active mode accepts only some fields; changing the active mode writes a mode
// stored in the modes collection into it.
func electricRestrictedSys() *sys {
	e := electricpb.NewModel(electricpb.WithActiveModeOption(resource.WithWritablePaths(&traits.ElectricMode{}, "id", "title", "start_time")))
	s := &sys{name: "electricpb.Model(active mode write-restricted)"}
	s.state = func() []proto.Message {
		out := []proto.Message{proto.Clone(e.ActiveMode())}
		for _, m := range e.Modes() {
			out = append(out, proto.Clone(m))
		}
		return out
	}
	mode := func(id string, normal bool) *traits.ElectricMode {
		return &traits.ElectricMode{Id: id, Title: "t" + id, Description: "the " + id + " mode", Normal: normal, Segments: []*traits.ElectricMode_Segment{{Magnitude: 1}}}
	}
	s.ops = []sop{
		{name: "AddMode(x)", run: func(m *mon, _ context.Context) {
			a := mode("x", false)
			write(m, s, "AddMode(x)", a, func() { e.AddMode(a) })
		}},
		{name: "AddMode(n,normal)", run: func(m *mon, _ context.Context) {
			a := mode("n", true)
			write(m, s, "AddMode(n)", a, func() { e.AddMode(a) })
		}},
		{name: "ChangeActiveMode(x)", run: func(m *mon, _ context.Context) {
			if r, err := e.ChangeActiveMode("x"); err == nil {
				m.reg("ChangeActiveMode result", r)
			}
		}},
		{name: "ChangeToNormalMode()", run: func(m *mon, _ context.Context) {
			if r, err := e.ChangeToNormalMode(); err == nil {
				m.reg("ChangeToNormalMode result", r)
			}
		}},
		{name: "Modes()", readonly: true, run: func(m *mon, _ context.Context) {
			for i, x := range e.Modes() {
				m.reg(fmt.Sprintf("Modes()[%d]", i), x)
			}
		}},
		{name: "FindMode(x)", readonly: true, run: func(m *mon, _ context.Context) {
			if x, ok := e.FindMode("x"); ok {
				m.reg("FindMode(x)", x)
			}
		}},
		{name: "ActiveMode()", readonly: true, run: func(m *mon, _ context.Context) { m.reg("ActiveMode()", e.ActiveMode()) }},
	}
	return s
}

// wasteSys: the waste model keeps a list of records next to a Value holding the latest one.
func wasteSys() *sys {
	model := wastepb.NewModel()
	s := &sys{name: "wastepb.Model"}
	s.state = func() []proto.Message {
		var out []proto.Message
		recs := model.ListWasteRecords(model.GetWasteRecordCount(), 3) // the three most recent (100 generated ones precede them)
		for _, r := range recs {
			out = append(out, proto.Clone(r))
		}
		return out
	}
	add := func(name string, build func() *traits.WasteRecord) sop {
		return sop{name: name, run: func(m *mon, _ context.Context) {
			arg := build()
			write(m, s, name, arg, func() {
				if r, err := model.AddWasteRecord(arg); err == nil {
					m.reg(name+" result", r)
				}
			})
		}}
	}
	s.ops = []sop{
		add("AddWasteRecord(a)", func() *traits.WasteRecord { return &traits.WasteRecord{Id: "a", Weight: 3, Area: "north"} }),
		add("AddWasteRecord(b)", func() *traits.WasteRecord { return &traits.WasteRecord{Id: "b", Weight: 5, System: "bins"} }),
		{name: "ListWasteRecords()", readonly: true, run: func(m *mon, _ context.Context) {
			recs := model.ListWasteRecords(model.GetWasteRecordCount(), 2)
			for i, r := range recs {
				m.reg(fmt.Sprintf("ListWasteRecords()[latest-%d]", i), r)
			}
		}},
		{name: "PullWasteRecords()", readonly: true, run: func(m *mon, ctx context.Context) {
			ch := model.PullWasteRecords(ctx, resource.WithBackpressure(true), resource.WithUpdatesOnly(true))
			go func() {
				for e := range ch {
					m.reg("PullWasteRecords event", e) // the change message itself: it is the subscriber's from here on
					m.reg("PullWasteRecords event record", e.NewValue)
				}
			}()
		}},
	}
	return s
}
