// C07 — messages are isolated: every message that crosses the API boundary is deep
// copied when it crosses and re-compared after every later operation; messages handed
// to writes are scribbled on afterwards; read-only operations must leave the stored
// state as it was. All operation sequences to a depth bound on the core resources, on
// hand-written alphabets for the models named in the anchors, and (unary RPCs, by
// reflection) on every model server found in the tree.
package main

import (
	"context"
	"fmt"
	"reflect"
	"strings"

	"google.golang.org/protobuf/proto"
	"google.golang.org/protobuf/reflect/protoreflect"
	"google.golang.org/protobuf/types/known/fieldmaskpb"

	"github.com/smart-core-os/sc-api/go/traits"
	"github.com/smart-core-os/sc-golang/pkg/cmp"
	"github.com/smart-core-os/sc-golang/pkg/resource"
	"github.com/smart-core-os/sc-golang/pkg/trait"
	"github.com/smart-core-os/sc-golang/pkg/trait/electricpb"
	"github.com/smart-core-os/sc-golang/pkg/trait/enterleavesensorpb"
	"github.com/smart-core-os/sc-golang/pkg/trait/metadatapb"
	"github.com/smart-core-os/sc-golang/pkg/trait/modepb"
	"github.com/smart-core-os/sc-golang/pkg/trait/parentpb"
	"github.com/smart-core-os/sc-golang/pkg/trait/publicationpb"
	"github.com/smart-core-os/sc-golang/pkg/trait/vendingpb"
	lib "github.com/smart-core-os/sc-golang/verif_h/lib"
	"github.com/smart-core-os/sc-golang/verif_h/reg"
	"verifrt"
	"verifrt/hx"
)

// ---------------------------------------------------------------- monitor

type tracked struct {
	origin string
	live   proto.Message
	copy   proto.Message
}

type mon struct {
	items []tracked
	key   string
	msg   string
}

func isNil(m proto.Message) bool {
	if m == nil {
		return true
	}
	v := reflect.ValueOf(m)
	return v.Kind() == reflect.Ptr && v.IsNil()
}

func (m *mon) reg(origin string, msg proto.Message) {
	if isNil(msg) {
		return
	}
	m.items = append(m.items, tracked{origin, msg, proto.Clone(msg)})
}

func (m *mon) fail(k, msg string) {
	if m.key == "" {
		m.key, m.msg = k, msg
	}
}

func (m *mon) check(after string) {
	for _, t := range m.items {
		if !proto.Equal(t.live, t.copy) {
			m.fail("message-changed "+t.origin+" after "+after, fmt.Sprintf("the message obtained from %s was %v; after %s it reads %v", t.origin, t.copy, after, t.live))
			return
		}
	}
}

// scribble overwrites every field reachable from m, in place
func scribble(m protoreflect.Message) {
	m.Range(func(fd protoreflect.FieldDescriptor, v protoreflect.Value) bool {
		switch {
		case fd.IsList():
			l := v.List()
			for i := 0; i < l.Len(); i++ {
				if fd.Kind() == protoreflect.MessageKind {
					scribble(l.Get(i).Message())
				} else {
					l.Set(i, scribbled(fd, l.Get(i)))
				}
			}
			if fd.Kind() == protoreflect.MessageKind {
				l.Append(l.NewElement())
			}
		case fd.IsMap():
			mp := v.Map()
			mp.Range(func(k protoreflect.MapKey, mv protoreflect.Value) bool {
				if fd.MapValue().Kind() == protoreflect.MessageKind {
					scribble(mv.Message())
				} else {
					mp.Set(k, scribbled(fd.MapValue(), mv))
				}
				return true
			})
		case fd.Kind() == protoreflect.MessageKind:
			scribble(v.Message())
		default:
			m.Set(fd, scribbled(fd, v))
		}
		return true
	})
}

func scribbled(fd protoreflect.FieldDescriptor, v protoreflect.Value) protoreflect.Value {
	switch fd.Kind() {
	case protoreflect.StringKind:
		return protoreflect.ValueOfString(v.String() + "~scribbled")
	case protoreflect.BytesKind:
		return protoreflect.ValueOfBytes([]byte("scribbled"))
	case protoreflect.BoolKind:
		return protoreflect.ValueOfBool(!v.Bool())
	case protoreflect.EnumKind:
		return protoreflect.ValueOfEnum(v.Enum() + 1)
	case protoreflect.FloatKind:
		return protoreflect.ValueOfFloat32(float32(v.Float()) + 1000)
	case protoreflect.DoubleKind:
		return protoreflect.ValueOfFloat64(v.Float() + 1000)
	case protoreflect.Int32Kind, protoreflect.Sint32Kind, protoreflect.Sfixed32Kind:
		return protoreflect.ValueOfInt32(int32(v.Int()) + 1000)
	case protoreflect.Int64Kind, protoreflect.Sint64Kind, protoreflect.Sfixed64Kind:
		return protoreflect.ValueOfInt64(v.Int() + 1000)
	case protoreflect.Uint32Kind, protoreflect.Fixed32Kind:
		return protoreflect.ValueOfUint32(uint32(v.Uint()) + 1000)
	case protoreflect.Uint64Kind, protoreflect.Fixed64Kind:
		return protoreflect.ValueOfUint64(v.Uint() + 1000)
	}
	return v
}

// ---------------------------------------------------------------- systems

type sop struct {
	name     string
	readonly bool
	run      func(m *mon, ctx context.Context)
}

type sys struct {
	name  string
	ops   []sop
	state func() []proto.Message // clones of everything stored, through unmasked reads
}

// write wraps a call that hands arg to the system: afterwards the caller scribbles on arg
// and the stored state must not move.
func write(m *mon, s *sys, what string, arg proto.Message, call func()) {
	call()
	// what the library itself did to messages handed out earlier is judged before the caller touches anything
	m.check(what + " (before the caller modifies its argument)")
	before := s.state()
	scribble(arg.ProtoReflect())
	// the caller may have got arg from a read: another holder of that very object sees the caller's edit,
	// which is the caller's doing, not the library's
	for i := range m.items {
		if m.items[i].live == arg {
			m.items[i].copy = proto.Clone(arg)
		}
	}
	after := s.state()
	if !sameList(before, after) {
		m.fail("argument-aliased "+what, fmt.Sprintf("after %s returned, modifying the message that was passed in changed the stored state from %v to %v", what, before, after))
	}
}

func sameList(a, b []proto.Message) bool {
	if len(a) != len(b) {
		return false
	}
	for i := range a {
		if !proto.Equal(a[i], b[i]) {
			return false
		}
	}
	return true
}

var cat = lib.Catalogue()

func tmsg(i int) *lib.T { return proto.Clone(cat[i]).(*lib.T) }

func valueSys() *sys { return valueSysWith("Value") }

// the same register with an equivalence configured (as the fan speed, energy storage and electric models have):
// subscriptions then remember what they sent last
func valueEqSys() *sys {
	return valueSysWith("Value(equivalence)", resource.WithMessageEquivalence(cmp.Equal()))
}

func valueSysWith(name string, opts ...resource.Option) *sys {
	v := resource.NewValue(append([]resource.Option{resource.WithInitialValue(tmsg(12))}, opts...)...)
	s := &sys{name: name}
	s.state = func() []proto.Message { return []proto.Message{proto.Clone(v.Get())} }
	set := func(name string, i int, opts ...resource.WriteOption) sop {
		return sop{name: name, run: func(m *mon, _ context.Context) {
			arg := tmsg(i)
			write(m, s, name, arg, func() {
				res, err := v.Set(arg, opts...)
				if err == nil {
					m.reg(name+" result", res)
				}
			})
		}}
	}
	s.ops = []sop{
		set("Set(#10)", 10), set("Set(#5)", 5), set("Set(#12)", 12),
		set("Set(#5,mask=nested)", 5, resource.WithUpdatePaths("default_nested_message")),
		set("Set(#10,mask=repeated)", 10, resource.WithUpdatePaths("repeated_nested_message", "repeated_int32")),
		set("Set(#11,mask=map)", 11, resource.WithUpdatePaths("map_string_string", "default_well_known")),
		set("Set(#4,before reads old)", 4, resource.InterceptBefore(func(old, n proto.Message) { _ = proto.Size(old) })),
		// a caller may well write back what it has just read, with the documented in-place delta interceptor
		// (new += old) or with an expectation that fails: neither may touch what earlier readers hold
		{name: "Set(Get(),before adds old)", run: func(m *mon, _ context.Context) {
			arg := v.Get()
			write(m, s, "Set(Get(),before adds old)", arg, func() {
				res, err := v.Set(arg, resource.InterceptBefore(func(old, n proto.Message) {
					n.(*lib.T).DefaultInt32 += old.(*lib.T).DefaultInt32 + 1
				}))
				if err == nil {
					m.reg("Set(Get()) result", res)
				}
			})
		}},
		// an empty update mask writes nothing; an after-interceptor still runs, on a message of its own
		{name: "Set(#5,empty mask,after edits)", run: func(m *mon, _ context.Context) {
			arg := tmsg(5)
			write(m, s, "Set(#5,empty mask,after edits)", arg, func() {
				res, err := v.Set(arg, resource.WithUpdatePaths(), resource.InterceptAfter(func(old, n proto.Message) {
					n.(*lib.T).DefaultString = "after"
				}))
				if err == nil {
					m.reg("Set(empty mask) result", res)
				}
			})
		}},
		{name: "Set(Get(),expectation fails)", run: func(m *mon, _ context.Context) {
			arg := v.Get()
			write(m, s, "Set(Get(),expectation fails)", arg, func() {
				_, _ = v.Set(arg, resource.WithExpectedValue(tmsg(3)))
			})
		}},
		{name: "Get()", readonly: true, run: func(m *mon, _ context.Context) { m.reg("Get()", v.Get()) }},
		{name: "Get(mask=nested)", readonly: true, run: func(m *mon, _ context.Context) {
			m.reg("Get(mask)", v.Get(resource.WithReadPaths(&lib.T{}, "default_nested_message", "repeated_nested_message")))
		}},
		{name: "Pull()", readonly: true, run: func(m *mon, ctx context.Context) {
			ch := v.Pull(ctx, resource.WithBackpressure(true))
			go func() {
				for e := range ch {
					m.reg("Pull event", e.Value)
				}
			}()
		}},
		{name: "Pull(mask)", readonly: true, run: func(m *mon, ctx context.Context) {
			ch := v.Pull(ctx, resource.WithBackpressure(true), resource.WithReadPaths(&lib.T{}, "default_nested_message"))
			go func() {
				for e := range ch {
					m.reg("Pull(mask) event", e.Value)
				}
			}()
		}},
	}
	return s
}

func collectionSys() *sys {
	c := resource.NewCollection(resource.WithInitialRecord("a", tmsg(12)))
	s := &sys{name: "Collection"}
	s.state = func() []proto.Message {
		var out []proto.Message
		for _, m := range c.List() {
			out = append(out, proto.Clone(m))
		}
		return out
	}
	upd := func(name, id string, i int, opts ...resource.WriteOption) sop {
		return sop{name: name, run: func(m *mon, _ context.Context) {
			arg := tmsg(i)
			write(m, s, name, arg, func() {
				res, err := c.Update(id, arg, opts...)
				if err == nil {
					m.reg(name+" result", res)
				}
			})
		}}
	}
	s.ops = []sop{
		upd("Update(a,#10)", "a", 10), upd("Update(a,#5,mask=nested)", "a", 5, resource.WithUpdatePaths("default_nested_message")),
		upd("Upsert(b,#12)", "b", 12, resource.WithCreateIfAbsent()), upd("Update(b,#10,mask=repeated)", "b", 10, resource.WithUpdatePaths("repeated_nested_message")),
		{name: "Delete(a)", run: func(m *mon, _ context.Context) {
			if old, err := c.Delete("a"); err == nil {
				m.reg("Delete(a) result", old)
			}
		}},
		{name: "Update(a,Get(a),before adds old)", run: func(m *mon, _ context.Context) {
			arg, ok := c.Get("a")
			if !ok {
				return
			}
			write(m, s, "Update(a,Get(a),before adds old)", arg, func() {
				res, err := c.Update("a", arg, resource.InterceptBefore(func(old, n proto.Message) {
					n.(*lib.T).DefaultInt32 += old.(*lib.T).DefaultInt32 + 1
				}))
				if err == nil {
					m.reg("Update(a,Get(a)) result", res)
				}
			})
		}},
		{name: "Update(a,#5,empty mask,after edits)", run: func(m *mon, _ context.Context) {
			arg := tmsg(5)
			write(m, s, "Update(a,#5,empty mask,after edits)", arg, func() {
				res, err := c.Update("a", arg, resource.WithUpdatePaths(), resource.InterceptAfter(func(old, n proto.Message) {
					n.(*lib.T).DefaultString = "after"
				}))
				if err == nil {
					m.reg("Update(empty mask) result", res)
				}
			})
		}},
		{name: "Update(a,Get(a),expectation fails)", run: func(m *mon, _ context.Context) {
			arg, ok := c.Get("a")
			if !ok {
				return
			}
			write(m, s, "Update(a,Get(a),expectation fails)", arg, func() {
				_, _ = c.Update("a", arg, resource.WithExpectedValue(tmsg(3)))
			})
		}},
		{name: "Get(a)", readonly: true, run: func(m *mon, _ context.Context) {
			if x, ok := c.Get("a"); ok {
				m.reg("Get(a)", x)
			}
		}},
		{name: "List()", readonly: true, run: func(m *mon, _ context.Context) {
			for i, x := range c.List() {
				m.reg(fmt.Sprintf("List()[%d]", i), x)
			}
		}},
		{name: "List(mask)", readonly: true, run: func(m *mon, _ context.Context) {
			for i, x := range c.List(resource.WithReadPaths(&lib.T{}, "repeated_nested_message")) {
				m.reg(fmt.Sprintf("List(mask)[%d]", i), x)
			}
		}},
		{name: "Pull()", readonly: true, run: func(m *mon, ctx context.Context) {
			ch := c.Pull(ctx, resource.WithBackpressure(true))
			go func() {
				for e := range ch {
					m.reg("Pull event new value", e.NewValue)
					m.reg("Pull event old value", e.OldValue)
				}
			}()
		}},
		{name: "Pull(mask)", readonly: true, run: func(m *mon, ctx context.Context) {
			// a masked subscriber next to everyone else: its projections must be made on copies
			ch := c.Pull(ctx, resource.WithBackpressure(true), resource.WithReadPaths(&lib.T{}, "default_nested_message.a", "default_string"))
			go func() {
				for e := range ch {
					m.reg("Pull(mask) event new value", e.NewValue)
					m.reg("Pull(mask) event old value", e.OldValue)
				}
			}()
		}},
		{name: "PullID(a)", readonly: true, run: func(m *mon, ctx context.Context) {
			ch := c.PullID(ctx, "a", resource.WithBackpressure(true))
			go func() {
				for e := range ch {
					m.reg("PullID event", e.Value)
				}
			}()
		}},
	}
	return s
}

func parentSys() *sys {
	p := parentpb.NewModel()
	s := &sys{name: "parentpb.Model"}
	s.state = func() []proto.Message {
		var out []proto.Message
		for _, c := range p.ListChildren() {
			out = append(out, proto.Clone(c))
		}
		return out
	}
	tr := func(names ...string) []trait.Name {
		var out []trait.Name
		for _, n := range names {
			out = append(out, trait.Name(n))
		}
		return out
	}
	addT := func(names ...string) sop {
		n := fmt.Sprintf("AddChildTrait(c,%s)", strings.Join(names, ","))
		return sop{name: n, run: func(m *mon, _ context.Context) { c, _ := p.AddChildTrait("c", tr(names...)...); m.reg(n+" result", c) }}
	}
	rmT := func(names ...string) sop {
		n := fmt.Sprintf("RemoveChildTrait(c,%s)", strings.Join(names, ","))
		return sop{name: n, run: func(m *mon, _ context.Context) { m.reg(n+" result", p.RemoveChildTrait("c", tr(names...)...)) }}
	}
	s.ops = []sop{
		addT("B"), addT("A"), addT("D", "C"), rmT("B"), rmT("A", "D"),
		{name: "AddChild(c,[B,D])", run: func(m *mon, _ context.Context) {
			arg := &traits.Child{Name: "c", Traits: []*traits.Trait{{Name: "B"}, {Name: "D"}}}
			write(m, s, "AddChild", arg, func() { p.AddChild(arg) })
		}},
		{name: "RemoveChildByName(c)", run: func(m *mon, _ context.Context) {
			if c, err := p.RemoveChildByName("c"); err == nil {
				m.reg("RemoveChildByName result", c)
			}
		}},
		{name: "ListChildren()", readonly: true, run: func(m *mon, _ context.Context) {
			for i, c := range p.ListChildren() {
				m.reg(fmt.Sprintf("ListChildren()[%d]", i), c)
			}
		}},
		{name: "PullChildren()", readonly: true, run: func(m *mon, ctx context.Context) {
			ch := p.PullChildren(ctx, resource.WithBackpressure(true))
			go func() {
				for e := range ch {
					m.reg("PullChildren new value", e.NewValue)
					m.reg("PullChildren old value", e.OldValue)
				}
			}()
		}},
	}
	return s
}

func metadataSys() *sys {
	md := metadatapb.NewModel()
	s := &sys{name: "metadatapb.Model"}
	s.state = func() []proto.Message { x, _ := md.GetMetadata(); return []proto.Message{proto.Clone(x)} }
	mk := func(k int) *traits.Metadata {
		switch k {
		case 0:
			return &traits.Metadata{Name: "n", Traits: []*traits.TraitMetadata{{Name: "B", More: map[string]string{"k": "v"}}}}
		case 1:
			return &traits.Metadata{Traits: []*traits.TraitMetadata{{Name: "A"}, {Name: "B", More: map[string]string{"k2": "w"}}}}
		}
		return &traits.Metadata{Appearance: &traits.Metadata_Appearance{Title: "t"}, Traits: []*traits.TraitMetadata{{Name: "C"}}}
	}
	w := func(name string, build func() proto.Message, call func(arg proto.Message) (proto.Message, error)) sop {
		return sop{name: name, run: func(m *mon, _ context.Context) {
			arg := build()
			write(m, s, name, arg, func() {
				if res, err := call(arg); err == nil {
					m.reg(name+" result", res)
				}
			})
		}}
	}
	for k := 0; k < 3; k++ {
		k := k
		s.ops = append(s.ops,
			w(fmt.Sprintf("UpdateMetadata(#%d)", k), func() proto.Message { return mk(k) }, func(a proto.Message) (proto.Message, error) { return md.UpdateMetadata(a.(*traits.Metadata)) }),
			w(fmt.Sprintf("MergeMetadata(#%d)", k), func() proto.Message { return mk(k) }, func(a proto.Message) (proto.Message, error) { return md.MergeMetadata(a.(*traits.Metadata)) }))
	}
	// a trait list that is not in name order (a plain update stores it as given), and a merge that names no trait:
	// whatever the merge does to put the stored list in order, it does not do to a list someone else holds
	unsorted := func() proto.Message {
		return &traits.Metadata{Name: "u", Traits: []*traits.TraitMetadata{{Name: "Z"}, {Name: "M", More: map[string]string{"k": "v"}}, {Name: "A"}}}
	}
	s.ops = append(s.ops,
		w("UpdateMetadata(unsorted traits Z,M,A)", unsorted, func(a proto.Message) (proto.Message, error) { return md.UpdateMetadata(a.(*traits.Metadata)) }),
		w("MergeMetadata(no traits)", func() proto.Message { return &traits.Metadata{Name: "other"} }, func(a proto.Message) (proto.Message, error) { return md.MergeMetadata(a.(*traits.Metadata)) }))
	s.ops = append(s.ops,
		w("UpdateTraitMetadata(B)", func() proto.Message { return &traits.TraitMetadata{Name: "B", More: map[string]string{"z": "1"}} }, func(a proto.Message) (proto.Message, error) {
			return md.UpdateTraitMetadata(a.(*traits.TraitMetadata))
		}),
		sop{name: "GetMetadata()", readonly: true, run: func(m *mon, _ context.Context) { x, _ := md.GetMetadata(); m.reg("GetMetadata()", x) }},
		sop{name: "GetMetadata(mask=traits)", readonly: true, run: func(m *mon, _ context.Context) {
			x, _ := md.GetMetadata(resource.WithReadMask(&fieldmaskpb.FieldMask{Paths: []string{"traits"}}))
			m.reg("GetMetadata(mask)", x)
		}},
		sop{name: "PullMetadata()", readonly: true, run: func(m *mon, ctx context.Context) {
			ch := md.PullMetadata(ctx, resource.WithBackpressure(true))
			go func() {
				for e := range ch {
					m.reg("PullMetadata event", e.Metadata)
				}
			}()
		}})
	return s
}

func enterLeaveSys() *sys {
	el := enterleavesensorpb.NewModel()
	s := &sys{name: "enterleavesensorpb.Model"}
	s.state = func() []proto.Message { x, _ := el.GetEnterLeaveEvent(); return []proto.Message{proto.Clone(x)} }
	ev := func(name string, build func() *traits.EnterLeaveEvent) sop {
		return sop{name: name, run: func(m *mon, _ context.Context) {
			arg := build()
			write(m, s, name, arg, func() { el.CreateEnterLeaveEvent(arg) })
		}}
	}
	s.ops = []sop{
		ev("Create(ENTER,occupant)", func() *traits.EnterLeaveEvent {
			return &traits.EnterLeaveEvent{Direction: traits.EnterLeaveEvent_ENTER, Occupant: &traits.EnterLeaveEvent_Occupant{Name: "o", Ids: map[string]string{"k": "v"}}}
		}),
		ev("Create(LEAVE)", func() *traits.EnterLeaveEvent {
			return &traits.EnterLeaveEvent{Direction: traits.EnterLeaveEvent_LEAVE}
		}),
		{name: "ResetTotals()", run: func(m *mon, _ context.Context) { el.ResetTotals() }},
		{name: "Get()", readonly: true, run: func(m *mon, _ context.Context) { x, _ := el.GetEnterLeaveEvent(); m.reg("GetEnterLeaveEvent()", x) }},
		{name: "Pull()", readonly: true, run: func(m *mon, ctx context.Context) {
			ch := el.PullEnterLeaveEvents(ctx, resource.WithBackpressure(true))
			go func() {
				for e := range ch {
					m.reg("PullEnterLeaveEvents event", e.Value)
				}
			}()
		}},
	}
	return s
}

// modeServerSys: the mode trait through its server, whose relative updates are worked out by an interceptor from the
// stored values: absolute and relative-only updates interleaved, every answer kept.
func modeServerSys() *sys {
	md := modepb.NewModel()
	srv := modepb.NewModelServer(md)
	s := &sys{name: "modepb.ModelServer(relative)"}
	s.state = func() []proto.Message { return []proto.Message{proto.Clone(md.ModeValues())} }
	var first, second string
	if ms := md.Modes().GetModes(); len(ms) > 0 {
		first = ms[0].Name
		second = ms[len(ms)-1].Name
	}
	upd := func(name string, req func() *traits.UpdateModeValuesRequest) sop {
		return sop{name: name, run: func(m *mon, ctx context.Context) {
			r := req()
			write(m, s, name, r, func() {
				if res, err := srv.UpdateModeValues(ctx, r); err == nil {
					m.reg(name+" result", res)
				}
			})
		}}
	}
	s.ops = []sop{
		upd("UpdateModeValues(relative "+first+"+1)", func() *traits.UpdateModeValuesRequest {
			return &traits.UpdateModeValuesRequest{Name: "n", Relative: &traits.ModeValuesRelative{Values: map[string]int32{first: 1}}}
		}),
		upd("UpdateModeValues(relative "+second+"-1)", func() *traits.UpdateModeValuesRequest {
			return &traits.UpdateModeValuesRequest{Name: "n", Relative: &traits.ModeValuesRelative{Values: map[string]int32{second: -1}}}
		}),
		upd("UpdateModeValues(absolute "+first+")", func() *traits.UpdateModeValuesRequest {
			v := ""
			for _, mo := range md.Modes().GetModes() {
				if mo.Name == first && len(mo.Values) > 1 {
					v = mo.Values[1].Name
				}
			}
			return &traits.UpdateModeValuesRequest{Name: "n", ModeValues: &traits.ModeValues{Values: map[string]string{first: v}}, UpdateMask: &fieldmaskpb.FieldMask{Paths: []string{"values"}}}
		}),
		{name: "GetModeValues()", readonly: true, run: func(m *mon, ctx context.Context) {
			if x, err := srv.GetModeValues(ctx, &traits.GetModeValuesRequest{Name: "n"}); err == nil {
				m.reg("GetModeValues()", x)
			}
		}},
		{name: "PullModeValues()", readonly: true, run: func(m *mon, ctx context.Context) {
			ch := md.PullModeValues(ctx, resource.WithBackpressure(true))
			go func() {
				for e := range ch {
					m.reg("PullModeValues event", e.Value)
				}
			}()
		}},
	}
	return s
}

func electricSys() *sys {
	e := electricpb.NewModel()
	s := &sys{name: "electricpb.Model"}
	s.state = func() []proto.Message {
		out := []proto.Message{proto.Clone(e.ActiveMode()), proto.Clone(e.Demand())}
		for _, m := range e.Modes() {
			out = append(out, proto.Clone(m))
		}
		return out
	}
	mode := func(id string) *traits.ElectricMode {
		return &traits.ElectricMode{Id: id, Title: "t" + id, Segments: []*traits.ElectricMode_Segment{{Magnitude: 1}, {Magnitude: 2}}}
	}
	s.ops = []sop{
		{name: "AddMode(x)", run: func(m *mon, _ context.Context) { a := mode("x"); write(m, s, "AddMode", a, func() { e.AddMode(a) }) }},
		{name: "UpdateMode(x)", run: func(m *mon, _ context.Context) {
			a := mode("x")
			a.Title = "u"
			write(m, s, "UpdateMode", a, func() {
				if r, err := e.UpdateMode(a); err == nil {
					m.reg("UpdateMode result", r)
				}
			})
		}},
		{name: "ChangeActiveMode(x)", run: func(m *mon, _ context.Context) {
			if r, err := e.ChangeActiveMode("x"); err == nil {
				m.reg("ChangeActiveMode result", r)
			}
		}},
		{name: "UpdateDemand()", run: func(m *mon, _ context.Context) {
			a := &traits.ElectricDemand{Current: 3}
			write(m, s, "UpdateDemand", a, func() {
				if r, err := e.UpdateDemand(a); err == nil {
					m.reg("UpdateDemand result", r)
				}
			})
		}},
		{name: "Modes()", readonly: true, run: func(m *mon, _ context.Context) {
			for i, x := range e.Modes() {
				m.reg(fmt.Sprintf("Modes()[%d]", i), x)
			}
		}},
		{name: "ActiveMode()", readonly: true, run: func(m *mon, _ context.Context) { m.reg("ActiveMode()", e.ActiveMode()) }},
		{name: "PullModes()", readonly: true, run: func(m *mon, ctx context.Context) {
			ch := e.PullModes(ctx, resource.WithBackpressure(true))
			go func() {
				for c := range ch {
					m.reg("PullModes new value", c.NewValue)
					m.reg("PullModes old value", c.OldValue)
				}
			}()
		}},
	}
	return s
}

func vendingSys() *sys {
	v := vendingpb.NewModel(vendingpb.WithInitialStock(&traits.Consumable_Stock{Consumable: "milk", Used: &traits.Consumable_Quantity{Unit: traits.Consumable_LITER, Amount: 1}, Remaining: &traits.Consumable_Quantity{Unit: traits.Consumable_LITER, Amount: 9}}))
	s := &sys{name: "vendingpb.Model"}
	s.state = func() []proto.Message {
		var out []proto.Message
		for _, x := range v.ListInventory() {
			out = append(out, proto.Clone(x))
		}
		for _, x := range v.ListConsumables() {
			out = append(out, proto.Clone(x))
		}
		return out
	}
	s.ops = []sop{
		{name: "Dispense(1l)", run: func(m *mon, _ context.Context) {
			q := &traits.Consumable_Quantity{Unit: traits.Consumable_LITER, Amount: 1}
			write(m, s, "DispenseInstantly", q, func() {
				if r, err := v.DispenseInstantly("milk", q); err == nil {
					m.reg("DispenseInstantly result", r)
				}
			})
		}},
		{name: "UpdateStock()", run: func(m *mon, _ context.Context) {
			a := &traits.Consumable_Stock{Consumable: "milk", Used: &traits.Consumable_Quantity{Unit: traits.Consumable_LITER, Amount: 5}}
			write(m, s, "UpdateStock", a, func() {
				if r, err := v.UpdateStock(a); err == nil {
					m.reg("UpdateStock result", r)
				}
			})
		}},
		{name: "CreateConsumable(tea)", run: func(m *mon, _ context.Context) {
			a := &traits.Consumable{Name: "tea"}
			write(m, s, "CreateConsumable", a, func() {
				if r, err := v.CreateConsumable(a); err == nil {
					m.reg("CreateConsumable result", r)
				}
			})
		}},
		{name: "GetStock()", readonly: true, run: func(m *mon, _ context.Context) {
			if x, ok := v.GetStock("milk"); ok {
				m.reg("GetStock()", x)
			}
		}},
		{name: "ListInventory()", readonly: true, run: func(m *mon, _ context.Context) {
			for i, x := range v.ListInventory() {
				m.reg(fmt.Sprintf("ListInventory()[%d]", i), x)
			}
		}},
		{name: "PullInventory()", readonly: true, run: func(m *mon, ctx context.Context) {
			ch := v.PullInventory(ctx, resource.WithBackpressure(true))
			go func() {
				for c := range ch {
					m.reg("PullInventory new value", c.NewValue)
					m.reg("PullInventory old value", c.OldValue)
				}
			}()
		}},
	}
	return s
}

func publicationSys() *sys {
	p := publicationpb.NewModel()
	s := &sys{name: "publicationpb.Model"}
	s.state = func() []proto.Message {
		var out []proto.Message
		for _, x := range p.ListPublications() {
			out = append(out, proto.Clone(x))
		}
		return out
	}
	pub := func(body string) *traits.Publication {
		return &traits.Publication{Id: "p", Body: []byte(body), Audience: &traits.Publication_Audience{Name: "a"}}
	}
	s.ops = []sop{
		{name: "Create(p)", run: func(m *mon, _ context.Context) {
			a := pub("b1")
			write(m, s, "CreatePublication", a, func() {
				if r, err := p.CreatePublication(a, publicationpb.WithNewVersion()); err == nil {
					m.reg("CreatePublication result", r)
				}
			})
		}},
		{name: "Update(p)", run: func(m *mon, _ context.Context) {
			a := pub("b2")
			write(m, s, "UpdatePublication", a, func() {
				if r, err := p.UpdatePublication("p", a, publicationpb.WithNewVersion(), publicationpb.WithResetReceipt()); err == nil {
					m.reg("UpdatePublication result", r)
				}
			})
		}},
		{name: "Delete(p)", run: func(m *mon, _ context.Context) {
			if r, err := p.DeletePublication("p"); err == nil {
				m.reg("DeletePublication result", r)
			}
		}},
		{name: "Get(p)", readonly: true, run: func(m *mon, _ context.Context) {
			if x, ok := p.GetPublication("p"); ok {
				m.reg("GetPublication()", x)
			}
		}},
		{name: "List()", readonly: true, run: func(m *mon, _ context.Context) {
			for i, x := range p.ListPublications() {
				m.reg(fmt.Sprintf("ListPublications()[%d]", i), x)
			}
		}},
		{name: "PullPublications()", readonly: true, run: func(m *mon, ctx context.Context) {
			ch := p.PullPublications(ctx, resource.WithBackpressure(true))
			go func() {
				for c := range ch {
					m.reg("PullPublications new value", c.NewValue)
					m.reg("PullPublications old value", c.OldValue)
				}
			}()
		}},
	}
	return s
}

// reflective: every unary RPC method (ctx, *Req) (*Resp, error) of a model server
func fill(m protoreflect.Message, seed, depth int) {
	fds := m.Descriptor().Fields()
	for i := 0; i < fds.Len(); i++ {
		fd := fds.Get(i)
		if fd.IsMap() || fd.ContainingOneof() != nil {
			continue
		}
		k := seed + i
		switch {
		case fd.IsList():
			if fd.Kind() == protoreflect.MessageKind && depth > 0 && !strings.HasPrefix(string(fd.Message().FullName()), "google.protobuf") {
				e := m.Mutable(fd).List().NewElement()
				fill(e.Message(), seed+5, depth-1)
				m.Mutable(fd).List().Append(e)
			}
		case fd.Kind() == protoreflect.StringKind:
			if fd.Name() == "name" || fd.Name() == "id" {
				m.Set(fd, protoreflect.ValueOfString("dev"))
			} else {
				m.Set(fd, protoreflect.ValueOfString(fmt.Sprintf("s%d", k)))
			}
		case fd.Kind() == protoreflect.Int32Kind:
			m.Set(fd, protoreflect.ValueOfInt32(int32(k%7+1)))
		case fd.Kind() == protoreflect.BoolKind:
			m.Set(fd, protoreflect.ValueOfBool(k%2 == 0))
		case fd.Kind() == protoreflect.FloatKind:
			m.Set(fd, protoreflect.ValueOfFloat32(float32(k%5)*10+5))
		case fd.Kind() == protoreflect.DoubleKind:
			m.Set(fd, protoreflect.ValueOfFloat64(float64(k%5)*10+5))
		case fd.Kind() == protoreflect.EnumKind:
			vs := fd.Enum().Values()
			m.Set(fd, protoreflect.ValueOfEnum(vs.Get(k%vs.Len()).Number()))
		case fd.Kind() == protoreflect.MessageKind:
			if depth > 0 && !strings.HasPrefix(string(fd.Message().FullName()), "google.protobuf") {
				fill(m.Mutable(fd).Message(), seed+3, depth-1)
			}
		}
	}
}

func reflectSys(e reg.ServerEntry) *sys {
	server := e.New()
	s := &sys{name: e.Name}
	sv := reflect.ValueOf(server)
	st := sv.Type()
	ctxT := reflect.TypeOf((*context.Context)(nil)).Elem()
	msgT := reflect.TypeOf((*proto.Message)(nil)).Elem()
	errT := reflect.TypeOf((*error)(nil)).Elem()
	type rm struct {
		name string
		fn   reflect.Value
		req  reflect.Type
	}
	var reads, all []rm
	for i := 0; i < st.NumMethod(); i++ {
		mt := st.Method(i)
		t := mt.Type
		if t.NumIn() != 3 || t.NumOut() != 2 || !t.In(1).Implements(ctxT) || !t.In(2).Implements(msgT) || !t.Out(0).Implements(msgT) || !t.Out(1).Implements(errT) {
			continue
		}
		r := rm{mt.Name, sv.Method(i), t.In(2)}
		all = append(all, r)
		if strings.HasPrefix(mt.Name, "Get") || strings.HasPrefix(mt.Name, "List") || strings.HasPrefix(mt.Name, "Describe") {
			reads = append(reads, r)
		}
	}
	call := func(r rm, seed int, m *mon, track bool) (proto.Message, proto.Message) {
		req := reflect.New(r.req.Elem()).Interface().(proto.Message)
		fill(req.ProtoReflect(), seed, 2)
		var resp proto.Message
		func() {
			defer func() { recover() }() // unimplemented methods panic("implement me"): not part of this property
			out := r.fn.Call([]reflect.Value{reflect.ValueOf(context.Background()), reflect.ValueOf(req)})
			if out[1].IsNil() && !out[0].IsNil() {
				resp = out[0].Interface().(proto.Message)
			}
		}()
		if track && resp != nil {
			m.reg(r.name+" response", resp)
		}
		return req, resp
	}
	s.state = func() []proto.Message {
		var out []proto.Message
		for _, r := range reads {
			_, resp := call(r, 1, nil, false)
			if resp != nil {
				out = append(out, proto.Clone(resp))
			} else {
				out = append(out, nil)
			}
		}
		return out
	}
	for _, r := range all {
		r := r
		ro := strings.HasPrefix(r.name, "Get") || strings.HasPrefix(r.name, "List") || strings.HasPrefix(r.name, "Describe")
		for _, seed := range []int{1, 9} {
			seed := seed
			if ro && seed != 1 {
				continue
			}
			name := fmt.Sprintf("%s(seed %d)", r.name, seed)
			s.ops = append(s.ops, sop{name: name, readonly: ro, run: func(m *mon, _ context.Context) {
				if ro {
					call(r, seed, m, true)
					return
				}
				var req proto.Message
				call2 := func() { req, _ = call(r, seed, m, true) }
				call2()
				before := s.state()
				scribble(req.ProtoReflect())
				if !sameList(before, s.state()) {
					m.fail("argument-aliased "+r.name, fmt.Sprintf("after %s returned, modifying the request changed what the server's Get/List methods return", r.name))
				}
			}})
		}
	}
	return s
}

// ---------------------------------------------------------------- runner

type pcase struct {
	Sys  string
	Path []int
}

func builders() map[string]func() *sys {
	b := map[string]func() *sys{
		"Value": valueSys, "Value(equivalence)": valueEqSys, "Collection": collectionSys, "parentpb.Model": parentSys, "metadatapb.Model": metadataSys,
		"enterleavesensorpb.Model": enterLeaveSys, "electricpb.Model": electricSys, "vendingpb.Model": vendingSys, "publicationpb.Model": publicationSys,
		"openclosepb.Model(presets)": openCloseSys, "lightpb.Model(presets)": lightSys,
		"electricpb.Model(active mode write-restricted)": electricRestrictedSys, "wastepb.Model": wasteSys, "modepb.ModelServer(relative)": modeServerSys,
	}
	for _, e := range reg.Servers {
		e := e
		b["rpc:"+e.Name] = func() *sys { return reflectSys(e) }
	}
	return b
}

func runPath(c pcase) (key, msg string, names []string) {
	var m mon
	res := verifrt.RunOnce(nil, false, func() {
		s := builders()[c.Sys]()
		pristine := s.state()
		comparable := sameList(pristine, builders()[c.Sys]().state()) // (a model that starts from the time of day or from random data has no fixed starting state)
		ctx, cancel := context.WithCancel(context.Background())
		defer cancel()
		for _, oi := range c.Path {
			o := s.ops[oi]
			names = append(names, o.name)
			var before []proto.Message
			if o.readonly {
				before = s.state()
			}
			o.run(&m, ctx)
			verifrt.WaitIdle()
			if o.readonly {
				if after := s.state(); !sameList(before, after) {
					m.fail("read-only-op-changed-state "+o.name, fmt.Sprintf("stored state before %s: %v; after: %v", o.name, before, after))
				}
			}
			m.check(o.name)
			if m.key != "" {
				return
			}
		}
		// what a reader was handed (by a read, or as an event) is the reader's: it may write on it. That is no write
		// to the resource: the stored state stays as it is. (Write RESULTS are left alone here.)
		// (core resources only: on the trait models a read result can share sub-messages with the model's own
		// configuration - light presets, waste records - which no write of the library touches; DESIGN, observations)
		if m.key == "" && (strings.HasPrefix(c.Sys, "Value") || c.Sys == "Collection") {
			before := s.state()
			for _, t := range m.items {
				if strings.HasPrefix(t.origin, "Get") || strings.HasPrefix(t.origin, "List") || strings.HasPrefix(t.origin, "Pull") || strings.HasPrefix(t.origin, "Find") || strings.HasPrefix(t.origin, "ActiveMode") {
					scribble(t.live.ProtoReflect())
				}
			}
			if after := s.state(); !sameList(before, after) {
				m.fail("read-result-aliases-store after "+strings.Join(names, ";"), fmt.Sprintf("after the readers wrote on the messages they had been handed by reads and events, the stored state went from %v to %v", before, after))
			}
		}
		// "the store" is every store: whatever the callers of this model did to the messages they passed in or got
		// back, a model built afresh starts as this one did (nothing leaked into what the constructors share)
		if len(c.Path) > 0 && comparable && !strings.HasPrefix(c.Sys, "rpc:") {
			if fresh := builders()[c.Sys]().state(); !sameList(fresh, pristine) {
				m.fail("fresh-instance-differs after "+names[len(names)-1], fmt.Sprintf("a %s constructed now starts as %v; the one constructed before these operations started as %v", c.Sys, fresh, pristine))
			}
		}
	})
	if m.key == "" && res.Status != "ok" {
		return res.Status, res.Msg, names
	}
	return m.key, m.msg, names
}

func main() {
	h := hx.New("C07")
	registerConcurrentWriters(h)
	bs := builders()
	var order []string
	for n := range bs {
		order = append(order, n)
	}
	sortStrings(order)
	for _, n := range order {
		n := n
		h.Seq(n, func(s *hx.Seq) {
			var rc pcase
			if s.Replaying(&rc) {
				if k, m, _ := runPath(rc); k != "" {
					s.Fail(k, m, rc)
				}
				return
			}
			nops := len(bs[n]().ops)
			depth := 3
			if strings.HasPrefix(n, "rpc:") {
				depth = 2
			}
			if s.Thorough {
				depth++
			}
			if nops > 20 && depth > 2 {
				depth--
			}
			failed := map[string]bool{}
			var cur []int
			var rec func(left int) bool
			for d := 1; d <= depth; d++ {
				rec = func(left int) bool {
					if left == 0 {
						if !s.Own() {
							return !s.Stop()
						}
						for l := 1; l < len(cur); l++ {
							if failed[fmt.Sprint(cur[:l])] {
								return true
							}
						}
						c := pcase{Sys: n, Path: append([]int{}, cur...)}
						s.Eval(1)
						s.Trans(len(cur))
						k, m, names := runPath(c)
						if k != "" {
							failed[fmt.Sprint(cur)] = true
							s.Fail(k+" ["+n+"]", m+" (sequence: "+strings.Join(names, " ; ")+")", c)
						}
						s.State(n + fmt.Sprint(cur))
						if len(cur) > 1 {
							s.Distinct(n + fmt.Sprint(cur))
						}
						return !s.Stop()
					}
					for i := 0; i < nops; i++ {
						cur = append(cur, i)
						ok := rec(left - 1)
						cur = cur[:len(cur)-1]
						if !ok {
							return false
						}
					}
					return true
				}
				if !rec(d) {
					return
				}
			}
			s.Sample(map[string]any{"system": n, "operations": nops, "depth": depth})
		})
	}
	h.Run()
}

func sortStrings(a []string) {
	for i := range a {
		for j := i + 1; j < len(a); j++ {
			if a[j] < a[i] {
				a[i], a[j] = a[j], a[i]
			}
		}
	}
}
