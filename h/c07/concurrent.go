package main

// The same statement with two writers at work at once (the sequential search cannot see what a write does to
// messages another write has handed out in the meantime): every message a caller obtains - a write result, an
// event's new and old value - is copied the moment it is obtained and compared again when everything is quiet.
// Whatever the schedule, and whichever writer loses the optimistic race (and is told so, or is applied again),
// none of them has changed.

import (
	"context"
	"fmt"

	"google.golang.org/protobuf/proto"

	"github.com/smart-core-os/sc-golang/pkg/resource"
	lib "github.com/smart-core-os/sc-golang/verif_h/lib"
	"verifrt"
	"verifrt/hx"
)

type T = lib.T

type held struct {
	origin     string
	live, copy proto.Message
}

func concurrentWritersBody(name string, coll bool) func() {
	return func() {
		var holds [][]held // one slice per thread: nobody shares a slice
		keep := func(slot int, origin string, m proto.Message) {
			if m != nil {
				holds[slot] = append(holds[slot], held{origin, m, proto.Clone(m)})
			}
		}
		holds = make([][]held, 3)
		ctx, cancel := context.WithCancel(context.Background())
		defer cancel()
		mk := func(v int32) *T { return &T{DefaultInt32: v, DefaultString: fmt.Sprint("w", v)} }
		var write func(slot int, v int32)
		if coll {
			col := resource.NewCollection(resource.WithInitialRecord("a", mk(30)))
			ch := col.Pull(ctx, resource.WithBackpressure(true), resource.WithUpdatesOnly(true))
			go func() {
				for e := range ch {
					keep(2, fmt.Sprintf("event %v new value", e.ChangeType), e.NewValue)
					keep(2, fmt.Sprintf("event %v old value", e.ChangeType), e.OldValue)
					if e.OldValue != nil && e.OldValue == e.NewValue {
						verifrt.Logf("FAIL concurrent-event-old-is-new %s ## an event's old and new value are one and the same message object", name)
					}
				}
			}()
			write = func(slot int, v int32) {
				r, err := col.Update("a", mk(v), resource.InterceptBefore(func(old, n proto.Message) { n.(*T).DefaultInt64 = int64(old.(*T).DefaultInt32) }))
				if err == nil {
					keep(slot, fmt.Sprintf("Update(%d) result", v), r)
				}
			}
		} else {
			val := resource.NewValue(resource.WithInitialValue(mk(30)))
			ch := val.Pull(ctx, resource.WithBackpressure(true), resource.WithUpdatesOnly(true))
			go func() {
				for e := range ch {
					keep(2, "event value", e.Value)
				}
			}()
			write = func(slot int, v int32) {
				r, err := val.Set(mk(v), resource.InterceptBefore(func(old, n proto.Message) { n.(*T).DefaultInt64 = int64(old.(*T).DefaultInt32) }))
				if err == nil {
					keep(slot, fmt.Sprintf("Set(%d) result", v), r)
				}
			}
		}
		done := make(chan struct{}, 2)
		go func() { write(0, 50); done <- struct{}{} }()
		go func() { write(1, 70); done <- struct{}{} }()
		<-done
		<-done
		verifrt.WaitIdle()
		for _, hs := range holds {
			for _, h := range hs {
				if !proto.Equal(h.live, h.copy) {
					verifrt.Logf("FAIL concurrent-message-changed %s ## the message obtained as %s was %v; once both writers are done it reads %v", name, h.origin, h.copy, h.live)
				}
			}
		}
		verifrt.Logf("OUT %d %d %d", len(holds[0]), len(holds[1]), len(holds[2]))
	}
}

func registerConcurrentWriters(h *hx.H) {
	for _, coll := range []bool{false, true} {
		name := fmt.Sprintf("concurrent/two writers, every result and event kept (collection=%v)", coll)
		h.Sched(name, -1, -1, concurrentWritersBody(name, coll), hx.StdOracle)
	}
}
