package main

// openclosepb.Model configured with presets: the responses it assembles (positions + matching preset) are
// built from stored items and from the configured preset descriptions, so masked reads and subscriptions
// are where stored state could be handed out, or filtered, by reference.

import (
	"context"

	"github.com/smart-core-os/sc-api/go/traits"
	"google.golang.org/protobuf/proto"

	"github.com/smart-core-os/sc-golang/pkg/resource"
	"github.com/smart-core-os/sc-golang/pkg/trait/openclosepb"
)

func openCloseSys() *sys {
	half := []*traits.OpenClosePosition{{OpenPercent: 50}}
	full := []*traits.OpenClosePosition{{OpenPercent: 100}}
	model := openclosepb.NewModel(
		openclosepb.WithInitialPositions(&traits.OpenClosePosition{OpenPercent: 50, Resistance: traits.OpenClosePosition_HELD}),
		openclosepb.WithPreset(&traits.OpenClosePositions_Preset{Name: "half", Title: "Half open"}, half...),
		openclosepb.WithPreset(&traits.OpenClosePositions_Preset{Name: "full", Title: "Fully open"}, full...),
	)
	s := &sys{name: "openclosepb.Model(presets)"}
	s.state = func() []proto.Message {
		var out []proto.Message
		p, _ := model.GetPositions()
		out = append(out, proto.Clone(p))
		for _, pr := range model.ListPresets() {
			out = append(out, proto.Clone(pr))
		}
		return out
	}
	upd := func(name string, build func() *traits.OpenClosePositions) sop {
		return sop{name: name, run: func(m *mon, _ context.Context) {
			arg := build()
			write(m, s, name, arg, func() {
				if r, err := model.UpdatePositions(arg); err == nil {
					m.reg(name+" result", r)
				}
			})
		}}
	}
	pull := func(name string, opts ...resource.ReadOption) sop {
		return sop{name: name, readonly: true, run: func(m *mon, ctx context.Context) {
			ch := model.PullPositions(ctx, append(opts, resource.WithBackpressure(true))...)
			go func() {
				for e := range ch {
					m.reg(name+" event", e.Positions)
				}
			}()
		}}
	}
	s.ops = []sop{
		upd("UpdatePositions(75%)", func() *traits.OpenClosePositions {
			return &traits.OpenClosePositions{States: []*traits.OpenClosePosition{{OpenPercent: 75}}}
		}),
		upd("UpdatePositions(preset full)", func() *traits.OpenClosePositions {
			return &traits.OpenClosePositions{Preset: &traits.OpenClosePositions_Preset{Name: "full"}}
		}),
		upd("UpdatePositions(50%)", func() *traits.OpenClosePositions {
			return &traits.OpenClosePositions{States: []*traits.OpenClosePosition{{OpenPercent: 50}}}
		}),
		{name: "GetPositions()", readonly: true, run: func(m *mon, _ context.Context) {
			p, _ := model.GetPositions()
			m.reg("GetPositions()", p)
		}},
		{name: "GetPositions(mask preset.name)", readonly: true, run: func(m *mon, _ context.Context) {
			p, _ := model.GetPositions(resource.WithReadPaths(&traits.OpenClosePositions{}, "preset.name"))
			m.reg("GetPositions(mask preset.name)", p)
		}},
		{name: "GetPositions(mask states)", readonly: true, run: func(m *mon, _ context.Context) {
			p, _ := model.GetPositions(resource.WithReadPaths(&traits.OpenClosePositions{}, "states"))
			m.reg("GetPositions(mask states)", p)
		}},
		pull("PullPositions()"),
		pull("PullPositions(mask preset.name)", resource.WithReadPaths(&traits.OpenClosePositions{}, "preset.name")),
		pull("PullPositions(mask states)", resource.WithReadPaths(&traits.OpenClosePositions{}, "states")),
	}
	return s
}
