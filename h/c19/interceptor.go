package main

// The modes collection can be configured with an id interceptor (a public option). The invariants are about
// MODES, not spellings: with a lower-casing interceptor "Eco" and "eco" name the same mode, so the active mode
// must survive a delete under either spelling, and must keep existing. Every sequence of the operations below up
// to the depth bound is run on a fresh model.

import (
	"fmt"
	"math/rand"
	"strings"

	"google.golang.org/grpc/codes"
	"google.golang.org/grpc/status"

	"github.com/smart-core-os/sc-api/go/traits"
	"github.com/smart-core-os/sc-golang/pkg/resource"
	"github.com/smart-core-os/sc-golang/pkg/trait/electricpb"
	"verifrt/hx"
)

type icOp struct {
	name string
	run  func(m *electricpb.Model) error
	del  string // the id a delete names
}

// variant 0: a lower-casing id interceptor, modes added through the API under the spellings Eco / eco, y / Y.
// variant 1: no interceptor, but the model is CONSTRUCTED with its modes (WithInitialMode), one of them under an id
// with blanks around it (" eco "), which is an id like any other: the spellings " eco " and "eco" name different things.
func icOps(variant int) []icOp {
	var ops []icOp
	A, a := "Eco", "eco"
	if variant == 1 {
		A, a = " eco ", "eco"
	}
	for _, id := range []string{A, "y"} {
		id := id
		ops = append(ops, icOp{name: "AddMode(" + id + ",normal=" + fmt.Sprint(id == A) + ")", run: func(m *electricpb.Model) error {
			return m.AddMode(&traits.ElectricMode{Id: id, Title: "t", Normal: id == A})
		}})
	}
	for _, id := range []string{A, a, "y", "Y"} {
		id := id
		ops = append(ops, icOp{name: "ChangeActiveMode(" + id + ")", run: func(m *electricpb.Model) error {
			_, err := m.ChangeActiveMode(id)
			return err
		}})
		for _, allow := range []bool{false, true} {
			allow := allow
			ops = append(ops, icOp{name: fmt.Sprintf("DeleteMode(%s,allowMissing=%v)", id, allow), del: id, run: func(m *electricpb.Model) error {
				return m.DeleteMode(id, resource.WithAllowMissing(allow))
			}})
		}
	}
	for _, id := range []string{A, a} {
		id := id
		ops = append(ops, icOp{name: "SetActiveMode(" + id + ")", run: func(m *electricpb.Model) error {
			return m.SetActiveMode(&traits.ElectricMode{Id: id})
		}})
		ops = append(ops, icOp{name: "UpdateMode(" + id + ",title)", run: func(m *electricpb.Model) error {
			_, err := m.UpdateMode(&traits.ElectricMode{Id: id, Title: "u", Normal: true})
			return err
		}})
	}
	ops = append(ops, icOp{name: "ChangeToNormalMode", run: func(m *electricpb.Model) error {
		_, err := m.ChangeToNormalMode()
		return err
	}})
	return ops
}

func icRun(variant int, path []int) (key, msg string) {
	ops := icOps(variant)
	same := strings.EqualFold
	m := electricpb.NewModel(electricpb.WithRNG(rand.New(rand.NewSource(7))), electricpb.WithModeOption(resource.WithIDInterceptor(strings.ToLower)))
	if variant == 1 {
		same = func(x, y string) bool { return x == y }
		m = electricpb.NewModel(electricpb.WithRNG(rand.New(rand.NewSource(7))), electricpb.WithInitialMode(
			&traits.ElectricMode{Id: " eco ", Title: "t", Normal: true}, &traits.ElectricMode{Id: "y", Title: "t"}))
	}
	changed := false
	var names []string
	for _, oi := range path {
		o := ops[oi]
		names = append(names, o.name)
		before := m.ActiveMode()
		_, activeExisted := m.FindMode(before.Id)
		err := o.run(m)
		hist := strings.Join(names, " ; ")
		if (strings.HasPrefix(o.name, "Change") || strings.HasPrefix(o.name, "SetActive")) && err == nil {
			changed = true
		}
		if o.del != "" && changed && activeExisted && same(o.del, before.Id) {
			if status.Code(err) != codes.FailedPrecondition {
				return "interceptor-active-deleted " + hist, fmt.Sprintf("the active mode is %q; DeleteMode(%q) names the same mode under the configured id interceptor and returned %v", before.Id, o.del, err)
			}
		}
		if a := m.ActiveMode(); changed {
			if _, ok := m.FindMode(a.Id); !ok {
				return "interceptor-active-missing " + hist, fmt.Sprintf("the active mode %q does not exist; modes %v", a.Id, m.Modes())
			}
		}
		n := 0
		for _, md := range m.Modes() {
			if md.Normal {
				n++
			}
		}
		if n > 1 {
			return "interceptor-two-normal " + hist, fmt.Sprintf("%d normal modes: %v", n, m.Modes())
		}
	}
	return "", ""
}

func registerInterceptor(h *hx.H) {
	for variant, title := range []string{"model/id-interceptor(lower-case)", "model/constructed-with-initial-modes(id with blanks)"} {
		registerIC(h, variant, title)
	}
}

func registerIC(h *hx.H, variant int, title string) {
	h.Seq(title, func(s *hx.Seq) {
		var rp struct{ Path []int }
		if s.Replaying(&rp) {
			if k, m := icRun(variant, rp.Path); k != "" {
				s.Fail(k, m, rp)
			}
			return
		}
		depth := 3
		if s.Thorough {
			depth = 4
		}
		n := len(icOps(variant))
		var rec func(path []int)
		idx := 0
		rec = func(path []int) {
			if len(path) > 0 {
				idx++
				if len(path) == 1 && !s.Own() {
					return
				}
				s.Eval(1)
				s.Trans(len(path))
				if k, m := icRun(variant, path); k != "" {
					s.Fail(k, m, map[string]any{"Path": append([]int(nil), path...)})
					return
				}
				s.State(fmt.Sprint(path))
				if len(path) > 1 {
					s.Distinct(fmt.Sprint(path))
				}
			}
			if len(path) == depth || s.Stop() {
				return
			}
			for i := 0; i < n; i++ {
				rec(append(path, i))
			}
		}
		rec(nil)
		s.Sample(map[string]any{"sequence": "AddMode(Eco,normal=true) ; ChangeActiveMode(eco) ; DeleteMode(eco)", "meaning": "the modes collection lower-cases ids; the active mode must be refused deletion under either spelling and keep existing"})
	})
}
