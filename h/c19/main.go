// C19 — the electric model keeps its documented mode invariants, after every
// operation sequence (explicit-state BFS over the real Model / ModelServer) and
// under every schedule of concurrent operations.
package main

import (
	"context"
	"fmt"
	"google.golang.org/protobuf/proto"
	"math/rand"
	"sort"
	"strings"
	"sync"
	"time"

	"google.golang.org/grpc/codes"
	"google.golang.org/grpc/status"
	"google.golang.org/protobuf/types/known/fieldmaskpb"

	"github.com/smart-core-os/sc-api/go/traits"
	"github.com/smart-core-os/sc-golang/pkg/resource"
	"github.com/smart-core-os/sc-golang/pkg/time/clock"
	"github.com/smart-core-os/sc-golang/pkg/trait/electricpb"
	"verifrt"
	"verifrt/hx"
)

// ---- fake clock: the harness sets the reading before each operation
type fakeClock struct {
	mu  sync.Mutex
	now time.Time
}

func (c *fakeClock) Now() time.Time                       { c.mu.Lock(); defer c.mu.Unlock(); return c.now }
func (c *fakeClock) set(t time.Time)                      { c.mu.Lock(); c.now = t; c.mu.Unlock() }
func (c *fakeClock) At(time.Time) <-chan time.Time        { return make(chan time.Time) }
func (c *fakeClock) After(time.Duration) <-chan time.Time { return make(chan time.Time) }
func (c *fakeClock) Every(time.Duration) clock.Ticker     { panic("unused") }

var base = time.Unix(1_700_000_000, 0).UTC()

type sys struct {
	m   *electricpb.Model
	s   *electricpb.ModelServer
	clk *fakeClock
	// bookkeeping of the harness (reference side)
	created []string               // generated ids in creation order
	changed bool                   // the active mode has been changed at least once
	cleared []*traits.ElectricMode // what each successful clear-active returned
}

// resourceClocks: the resources inside the model are given a clock of their own (an hour ahead) AFTER the model's
// clock was set: their change times are theirs, the start time of a newly selected mode is the MODEL clock's.
var resourceClocks bool

type aheadClock struct{ *fakeClock }

func (c aheadClock) Now() time.Time { return c.fakeClock.Now().Add(time.Hour) }

func newSys() *sys {
	clk := &fakeClock{now: base}
	opts := []resource.Option{electricpb.WithClock(clk), electricpb.WithRNG(rand.New(rand.NewSource(7)))}
	if resourceClocks {
		opts = append(opts, electricpb.WithActiveModeOption(resource.WithClock(aheadClock{clk})), electricpb.WithModeOption(resource.WithClock(aheadClock{clk})))
	}
	m := electricpb.NewModel(opts...)
	return &sys{m: m, s: electricpb.NewModelServer(m), clk: clk}
}

// an operation: applies itself and returns a short result string ("ok" / code)
type op struct {
	name string
	run  func(x *sys) error
	// post: clause checks specific to this op (given state before and after)
	kind, arg string
	allow     bool
	normal    bool
}

func codeOf(err error) string {
	if err == nil {
		return "OK"
	}
	return status.Code(err).String()
}

var ctx = context.Background()

// id resolution: "#k" = k-th generated id (if it exists), otherwise a literal id
func (x *sys) id(a string) string {
	if strings.HasPrefix(a, "#") {
		var k int
		fmt.Sscan(a[1:], &k)
		if k < len(x.created) {
			return x.created[k]
		}
		return "never-created"
	}
	return a
}

func alphabet(server bool) []op {
	var ops []op
	ids := []string{"x", "y", "#0"}
	for _, n := range []bool{false, true} {
		n := n
		if !server {
			ops = append(ops, op{name: fmt.Sprintf("CreateMode(normal=%v)", n), kind: "create", normal: n, run: func(x *sys) error {
				md, err := x.m.CreateMode(&traits.ElectricMode{Title: "c", Normal: n})
				if err == nil {
					x.created = append(x.created, md.Id)
				}
				return err
			}})
			for _, id := range []string{"x", "y"} {
				id := id
				ops = append(ops, op{name: fmt.Sprintf("AddMode(%s,normal=%v)", id, n), kind: "add", arg: id, normal: n, run: func(x *sys) error {
					return x.m.AddMode(&traits.ElectricMode{Id: id, Title: "a", Normal: n})
				}})
			}
		} else {
			ops = append(ops, op{name: fmt.Sprintf("srv.CreateMode(normal=%v)", n), kind: "create", normal: n, run: func(x *sys) error {
				md, err := x.s.CreateMode(ctx, &electricpb.CreateModeRequest{Name: "n", Mode: &traits.ElectricMode{Title: "c", Normal: n}})
				if err == nil {
					x.created = append(x.created, md.Id)
				}
				return err
			}})
		}
	}
	for _, id := range append(append([]string{}, ids...), "") {
		id := id
		if id == "" {
			// the empty id names no mode (and is what a fresh model's active mode carries): only deleting it is tried
			for _, allow := range []bool{false, true} {
				allow := allow
				if !server {
					ops = append(ops, op{name: fmt.Sprintf("DeleteMode(<empty id>,allowMissing=%v)", allow), kind: "delete", arg: id, allow: allow, run: func(x *sys) error {
						return x.m.DeleteMode("", resource.WithAllowMissing(allow))
					}})
				} // (the server refuses a request without an id as malformed: that is not "an absent mode")
			}
			if !server {
				// switching to the id the fresh model's placeholder active mode carries: it names no mode, so this is
				// a switch to a mode that does not exist - however much it "is already the active one"
				ops = append(ops, op{name: "ChangeActiveMode(<empty id>)", kind: "change", arg: id, run: func(x *sys) error {
					_, err := x.m.ChangeActiveMode("")
					return err
				}})
			}
			continue
		}
		for _, variant := range []string{"normal=true", "normal=false", "title", "mask(title),normal=true", "mask(normal)=true", "mask(normal,title)=true", "mask(title,normal)=true", "upsert,mask(title)", "upsert,mask()"} {
			variant := variant
			if server && strings.HasPrefix(variant, "upsert") {
				continue // create-if-absent is a write option of the model API
			}
			mk := func(x *sys) (*traits.ElectricMode, *fieldmaskpb.FieldMask) {
				md := &traits.ElectricMode{Id: x.id(id), Title: "u"}
				var mask *fieldmaskpb.FieldMask
				switch variant {
				case "normal=true":
					md.Normal = true
				case "normal=false":
				case "title":
					md.Title = "u2"
					mask = &fieldmaskpb.FieldMask{Paths: []string{"title"}}
				case "upsert,mask(title)":
					// an update that creates the mode when it is not there, writing one field: the mode it creates
					// is a mode like any other (filed under its id AND carrying it)
					md.Title = "u3"
					mask = &fieldmaskpb.FieldMask{Paths: []string{"title"}}
				case "upsert,mask()":
					// the same with a mask that is there and names nothing ("write no field"): what it creates has
					// no field but its id
					md.Title = "u4"
					mask = &fieldmaskpb.FieldMask{}
				case "mask(title),normal=true":
					md.Normal = true
					mask = &fieldmaskpb.FieldMask{Paths: []string{"title"}}
				case "mask(normal)=true":
					md.Normal = true
					mask = &fieldmaskpb.FieldMask{Paths: []string{"normal"}}
				case "mask(normal,title)=true":
					md.Normal = true
					mask = &fieldmaskpb.FieldMask{Paths: []string{"normal", "title"}}
				case "mask(title,normal)=true":
					md.Normal = true
					mask = &fieldmaskpb.FieldMask{Paths: []string{"title", "normal"}}
				}
				return md, mask
			}
			if !server {
				ops = append(ops, op{name: fmt.Sprintf("UpdateMode(%s,%s)", id, variant), kind: "update", arg: id, run: func(x *sys) error {
					md, mask := mk(x)
					if strings.HasPrefix(variant, "upsert") {
						_, err := x.m.UpdateMode(md, resource.WithCreateIfAbsent(), resource.WithUpdateMask(mask))
						return err
					}
					_, err := x.m.UpdateMode(md, resource.WithUpdateMask(mask))
					return err
				}})
			} else {
				ops = append(ops, op{name: fmt.Sprintf("srv.UpdateMode(%s,%s)", id, variant), kind: "update", arg: id, run: func(x *sys) error {
					md, mask := mk(x)
					_, err := x.s.UpdateMode(ctx, &electricpb.UpdateModeRequest{Name: "n", Mode: md, UpdateMask: mask})
					return err
				}})
			}
		}
		if !server {
			// the option given twice (lenient defaults of the caller's, then the request's own flag): the later one counts
			ops = append(ops, op{name: fmt.Sprintf("DeleteMode(%s,allowMissing=true then false)", id), kind: "delete", arg: id, allow: false, run: func(x *sys) error {
				return x.m.DeleteMode(x.id(id), resource.WithAllowMissing(true), resource.WithAllowMissing(false))
			}})
		}
		for _, allow := range []bool{false, true} {
			allow := allow
			if !server {
				ops = append(ops, op{name: fmt.Sprintf("DeleteMode(%s,allowMissing=%v)", id, allow), kind: "delete", arg: id, allow: allow, run: func(x *sys) error {
					return x.m.DeleteMode(x.id(id), resource.WithAllowMissing(allow))
				}})
			} else {
				ops = append(ops, op{name: fmt.Sprintf("srv.DeleteMode(%s,allowMissing=%v)", id, allow), kind: "delete", arg: id, allow: allow, run: func(x *sys) error {
					_, err := x.s.DeleteMode(ctx, &electricpb.DeleteModeRequest{Name: "n", Id: x.id(id), AllowMissing: allow})
					return err
				}})
			}
		}
		if !server {
			// a delete that brings a precondition of the caller's own (it holds): the model's rules are not the
			// caller's to replace
			ops = append(ops, op{name: fmt.Sprintf("DeleteMode(%s,allowMissing=false,with the caller's own check)", id), kind: "delete", arg: id, run: func(x *sys) error {
				return x.m.DeleteMode(x.id(id), resource.WithExpectedCheck(func(proto.Message) error { return nil }))
			}})
		}
		if !server {
			ops = append(ops, op{name: fmt.Sprintf("ChangeActiveMode(%s)", id), kind: "change", arg: id, run: func(x *sys) error {
				_, err := x.m.ChangeActiveMode(x.id(id))
				return err
			}})
			ops = append(ops, op{name: fmt.Sprintf("SetActiveMode(%s)", id), kind: "set", arg: id, run: func(x *sys) error {
				return x.m.SetActiveMode(&traits.ElectricMode{Id: x.id(id), Title: "set"})
			}})
		} else {
			ops = append(ops, op{name: fmt.Sprintf("srv.UpdateActiveMode(%s)", id), kind: "change", arg: id, run: func(x *sys) error {
				_, err := x.s.UpdateActiveMode(ctx, &traits.UpdateActiveModeRequest{Name: "n", ActiveMode: &traits.ElectricMode{Id: x.id(id)}})
				return err
			}})
		}
	}
	if !server {
		ops = append(ops, op{name: "ChangeToNormalMode", kind: "clear", run: func(x *sys) error {
			md, err := x.m.ChangeToNormalMode()
			if err == nil {
				x.cleared = append(x.cleared, md)
			}
			return err
		}})
	} else {
		ops = append(ops, op{name: "srv.ClearActiveMode", kind: "clear", run: func(x *sys) error {
			md, err := x.s.ClearActiveMode(ctx, &traits.ClearActiveModeRequest{Name: "n"})
			if err == nil {
				x.cleared = append(x.cleared, md)
			}
			return err
		}})
	}
	return ops
}

type snapshot struct {
	modes   map[string]*traits.ElectricMode
	active  *traits.ElectricMode
	normals []string
}

func (x *sys) snap() snapshot {
	s := snapshot{modes: map[string]*traits.ElectricMode{}, active: x.m.ActiveMode()}
	for _, md := range x.m.Modes() {
		s.modes[md.Id] = md
		if md.Normal {
			s.normals = append(s.normals, md.Id)
		}
	}
	sort.Strings(s.normals)
	return s
}

// canonical state: generated ids renamed by creation order; start time only as set/unset
func (x *sys) canon(s snapshot) string {
	ren := func(id string) string {
		for k, c := range x.created {
			if c == id {
				return fmt.Sprintf("#%d", k)
			}
		}
		return id
	}
	var ms []string
	for id, md := range s.modes {
		ms = append(ms, fmt.Sprintf("%s:n=%v,t=%s", ren(id), md.Normal, md.Title))
	}
	sort.Strings(ms)
	return fmt.Sprintf("modes[%s] active=%s/%s st=%v changed=%v ncreated=%d", strings.Join(ms, " "), ren(s.active.GetId()), s.active.GetTitle(), s.active.GetStartTime() != nil, x.changed, len(x.created))
}

// invariants that must hold in every state
func invariants(x *sys, s snapshot) (string, string) {
	if len(s.normals) > 1 {
		return "two-normal-modes", fmt.Sprintf("modes %v are all marked normal", s.normals)
	}
	// every listed mode is reachable under the id it carries (the invariants are all phrased through that id)
	for id := range s.modes {
		if md, ok := x.m.FindMode(id); !ok || md.GetId() != id {
			return "mode-not-under-its-id", fmt.Sprintf("Modes() lists a mode with id %q; FindMode(%q) = %v, %v", id, id, md, ok)
		}
	}
	if x.changed {
		if _, ok := s.modes[s.active.GetId()]; !ok {
			return "active-mode-missing", fmt.Sprintf("active mode %q does not exist", s.active.GetId())
		}
	}
	return "", ""
}

// step applies op o at logical time k and checks the op-specific clauses
func step(x *sys, o op, k int) (key, msg string) {
	before := x.snap()
	now := base.Add(time.Duration(k+1) * time.Second)
	x.clk.set(now)
	var err error
	var pn any
	func() {
		defer func() { pn = recover() }()
		err = o.run(x)
	}()
	if pn != nil {
		return "panic", fmt.Sprint(pn)
	}
	after := x.snap()
	if (o.kind == "change" || o.kind == "set" || o.kind == "clear") && err == nil {
		x.changed = true
	}
	if k, m := invariants(x, after); k != "" {
		return k, m
	}
	id := x.id(o.arg)
	switch o.kind {
	case "delete":
		_, existed := before.modes[id]
		isActive := before.active.GetId() == id
		switch {
		case isActive && existed:
			if err == nil || after.modes[id] == nil {
				return "active-mode-deleted", fmt.Sprintf("delete of the active mode %q returned %v; still exists: %v", id, codeOf(err), after.modes[id] != nil)
			}
		case !existed:
			// absent is absent, also when the active mode happens to carry that id (a fresh model's active mode has
			// the empty id; SetActiveMode accepts ids that name no stored mode)
			if o.allow && err != nil {
				return "allow-missing-delete-fails", fmt.Sprintf("deleting the absent mode %q with allow_missing returned %s", id, codeOf(err))
			}
			if !o.allow && status.Code(err) != codes.NotFound {
				return "delete-absent-not-notfound", fmt.Sprintf("deleting the absent mode %q returned %s", id, codeOf(err))
			}
		case existed && !isActive:
			if err != nil || after.modes[id] != nil {
				return "delete-failed", fmt.Sprintf("deleting mode %q returned %s; still exists: %v", id, codeOf(err), after.modes[id] != nil)
			}
		}
	case "clear":
		if len(before.normals) == 1 {
			if err != nil || after.active.GetId() != before.normals[0] {
				return "clear-not-normal", fmt.Sprintf("clearing the active mode returned %s and selected %q; the normal mode is %q", codeOf(err), after.active.GetId(), before.normals[0])
			}
		} else if len(before.normals) == 0 && err == nil {
			return "clear-without-normal", "clearing the active mode succeeded although there is no normal mode"
		}
	}
	if (o.kind == "change" || o.kind == "clear") && err == nil {
		if after.active.GetId() != before.active.GetId() {
			if st := after.active.GetStartTime(); st == nil || !st.AsTime().Equal(now) {
				return "start-time-not-stamped", fmt.Sprintf("switched from %q to %q at %v but StartTime is %v", before.active.GetId(), after.active.GetId(), now, st.AsTime())
			}
		}
	}
	if o.kind == "change" && err != nil {
		if _, ok := before.modes[id]; ok {
			return "change-to-existing-fails", fmt.Sprintf("changing to existing mode %q returned %s", id, codeOf(err))
		}
	}
	if err != nil {
		// a failing call changes nothing
		if x.canon(before) != x.canon(after) {
			return "failed-op-changed-state", fmt.Sprintf("%s returned %s but the state changed: %s -> %s", o.name, codeOf(err), x.canon(before), x.canon(after))
		}
	}
	return "", ""
}

func bfs(s *hx.Seq, server bool, depth int, from ...string) {
	ops := alphabet(server)
	if server { // servers need modes to exist: seed through the model alphabet's Add
		ops = append(ops, alphabet(false)[1:5]...)
	}
	// from: the search starts in the state these operations lead to (most defects do not show from the initial state)
	var root []int
	for _, name := range from {
		found := false
		for oi := range ops {
			if ops[oi].name == name {
				root = append(root, oi)
				found = true
			}
		}
		if !found {
			panic("no such operation: " + name)
		}
	}
	depth += len(root)
	type node struct{ path []int }
	build := func(path []int) (*sys, string, string, int) {
		x := newSys()
		for k, oi := range path {
			if key, msg := step(x, ops[oi], k); key != "" {
				return x, key, msg, k
			}
		}
		return x, "", "", -1
	}
	names := func(path []int) []string {
		var n []string
		for _, oi := range path {
			n = append(n, ops[oi].name)
		}
		return n
	}
	var rp struct{ Path []int }
	if s.Replaying(&rp) {
		if _, key, msg, _ := build(rp.Path); key != "" {
			s.Fail(key+" "+strings.Join(names(rp.Path), " ; "), msg, rp)
		}
		return
	}
	seen := map[string]bool{}
	x0, key0, msg0, _ := build(root)
	if key0 != "" {
		s.Fail(key0+" "+strings.Join(names(root), " ; "), msg0, map[string]any{"Path": root})
		return
	}
	seen[x0.canon(x0.snap())] = true
	s.State(x0.canon(x0.snap()))
	frontier := []node{{root}}
	for d := len(root); d < depth && len(frontier) > 0; d++ {
		var next []node
		for _, n := range frontier {
			for oi := range ops {
				if !s.Own() {
					// every shard must still discover the successor states: only the checking of
					// the transition is dealt out
					path := append(append([]int{}, n.path...), oi)
					x, key, _, _ := build(path)
					if key == "" {
						c := x.canon(x.snap())
						if !seen[c] {
							seen[c] = true
							next = append(next, node{path})
						}
					}
					continue
				}
				path := append(append([]int{}, n.path...), oi)
				s.Eval(1)
				s.Trans(1)
				x, key, msg, at := build(path)
				if key != "" {
					if at == len(path)-1 { // new failure at the last step (earlier ones were reported at their own depth)
						s.Fail(key+" "+strings.Join(names(path), " ; "), msg, map[string]any{"Path": path})
					}
					continue
				}
				c := x.canon(x.snap())
				s.Distinct(c)
				if !seen[c] {
					seen[c] = true
					s.State(c)
					next = append(next, node{path})
				}
			}
			if s.Stop() {
				return
			}
		}
		frontier = next
	}
	if len(frontier) == 0 {
		s.Note("fixpoint of the canonical state space reached: every reachable state was expanded with every operation")
	} else {
		s.Note("depth bound %d reached with %d unexpanded states", depth, len(frontier))
	}
	s.Sample(map[string]any{"ops": names([]int{1, len(ops) - 1, 3}), "meaning": "operation sequences are replayed on a fresh Model with a fake clock and a seeded rng; after every step the documented invariants and the per-operation clauses are checked; states are de-duplicated by (modes with generated ids renamed by creation order, active mode, changed flag)"})
}

// ---------------------------------------------------------------- concurrent

func concBody(name string, setup []string, threads [][]string) func() {
	all := map[string]op{}
	for _, o := range alphabet(false) {
		all[o.name] = o
	}
	for _, o := range alphabet(true) {
		all[o.name] = o
	}
	return func() {
		x := newSys()
		for k, n := range setup {
			if key, msg := step(x, all[n], k); key != "" {
				verifrt.Logf("FAIL setup %s ## %s %s", name, key, msg)
				return
			}
		}
		var wg sync.WaitGroup
		results := make([][]string, len(threads))
		for ti, ops := range threads {
			ti, ops := ti, ops
			wg.Add(1)
			go func() {
				defer wg.Done()
				for _, n := range ops {
					o := all[n]
					var err error
					switch o.kind {
					case "create": // do not touch x.created concurrently
						_, err = x.m.CreateMode(&traits.ElectricMode{Title: "c", Normal: o.normal})
					default:
						err = o.run(x)
					}
					if (o.kind == "change" || o.kind == "clear" || o.kind == "set") && err == nil {
						x.changed = true
					}
					results[ti] = append(results[ti], codeOf(err))
					// "deleting an absent mode reports NotFound unless allow-missing is set, in which case it succeeds":
					// whatever the other threads do meanwhile, a delete with allow-missing has nothing to report NotFound for
					if o.kind == "delete" && o.allow && status.Code(err) == codes.NotFound {
						verifrt.Logf("FAIL allow-missing-delete-notfound %s ## %s answered NotFound although allow-missing was set", name, n)
					}
				}
			}()
		}
		wg.Wait()
		// "clearing the active mode selects the normal mode": in every sequential order of the calls a clear that
		// succeeds returns a mode that is marked normal at that moment (at most one scenario thread clears)
		for _, md := range x.cleared {
			if !md.GetNormal() {
				verifrt.Logf("FAIL clear-returned-non-normal %s ## clearing the active mode succeeded and returned %v, which is not marked normal; results %v", name, md, results)
			}
		}
		s := x.snap()
		if k, m := invariants(x, s); k != "" {
			verifrt.Logf("FAIL %s %s ## %s; results %v", k, name, m, results)
		}
		var ms []string
		for id, md := range s.modes {
			if len(id) > 3 {
				id = "gen"
			}
			ms = append(ms, fmt.Sprintf("%s:%v", id, md.Normal))
		}
		sort.Strings(ms)
		aid := s.active.GetId()
		if len(aid) > 3 {
			aid = "gen"
		}
		verifrt.Logf("OUT results=%v modes=%v active=%s", results, ms, aid)
	}
}

func main() {
	h := hx.New("C19")
	registerInterceptor(h)
	h.Seq("model-bfs", func(s *hx.Seq) {
		d := 3
		if s.Thorough {
			d = 5
		}
		bfs(s, false, d)
	})
	h.Seq("server-bfs", func(s *hx.Seq) {
		d := 3
		if s.Thorough {
			d = 4
		}
		bfs(s, true, d)
	})
	for _, server := range []bool{false, true} {
		server := server
		h.Seq(fmt.Sprintf("bfs(server=%v)/the model's resources have clocks of their own", server), func(s *hx.Seq) {
			resourceClocks = true
			defer func() { resourceClocks = false }()
			d := 2
			if s.Thorough {
				d = 3
			}
			bfs(s, server, d)
		})
	}
	// the same searches from the state "the normal mode was demoted while it is the active one"
	h.Seq("model-bfs/from(normal mode demoted while active)", func(s *hx.Seq) {
		d := 2
		if s.Thorough {
			d = 3
		}
		bfs(s, false, d, "AddMode(y,normal=true)", "ChangeToNormalMode", "UpdateMode(y,normal=false)")
	})
	h.Seq("server-bfs/from(normal mode demoted while active)", func(s *hx.Seq) {
		d := 2
		if s.Thorough {
			d = 3
		}
		bfs(s, true, d, "AddMode(x,normal=true)", "srv.ClearActiveMode", "srv.UpdateMode(x,normal=false)")
	})
	conc := func(setup []string, threads ...[]string) {
		var ts []string
		for _, t := range threads {
			ts = append(ts, strings.Join(t, ";"))
		}
		name := fmt.Sprintf("conc/[%s]/%s", strings.Join(setup, ";"), strings.Join(ts, " || "))
		h.Sched(name, -1, -1, concBody(name, setup, threads), hx.StdOracle)
	}
	A := "AddMode(x,normal=false)"
	AN := "AddMode(y,normal=true)"
	conc([]string{A}, []string{"DeleteMode(x,allowMissing=false)"}, []string{"ChangeActiveMode(x)"})
	conc([]string{A}, []string{"DeleteMode(x,allowMissing=true)"}, []string{"SetActiveMode(x)"})
	conc(nil, []string{"CreateMode(normal=true)"}, []string{"CreateMode(normal=true)"})
	conc(nil, []string{"AddMode(x,normal=true)"}, []string{"AddMode(y,normal=true)"})
	conc([]string{A}, []string{"UpdateMode(x,normal=true)"}, []string{"CreateMode(normal=true)"})
	conc([]string{A, AN}, []string{"ChangeToNormalMode"}, []string{"DeleteMode(y,allowMissing=false)"})
	conc([]string{A, AN}, []string{"ChangeActiveMode(x)", "DeleteMode(y,allowMissing=false)"}, []string{"ChangeToNormalMode"})
	conc([]string{A}, []string{"DeleteMode(x,allowMissing=false)"}, []string{"ChangeActiveMode(x)"}, []string{"AddMode(x,normal=true)"})
	conc([]string{A}, []string{"UpdateMode(x,normal=true)"}, []string{"AddMode(y,normal=true)"}, []string{"CreateMode(normal=true)"})
	// two callers each promoting another mode while none is normal: the check "is there a normal mode already" and the
	// write belong together for updates as they do for creation
	B := "AddMode(y,normal=false)"
	conc([]string{A, B}, []string{"UpdateMode(x,normal=true)"}, []string{"UpdateMode(y,normal=true)"})
	conc([]string{A, B}, []string{"srv.UpdateMode(x,normal=true)"}, []string{"srv.UpdateMode(y,mask(normal)=true)"})
	conc([]string{A, B}, []string{"UpdateMode(x,normal=true)"}, []string{"UpdateMode(y,normal=true)"}, []string{"CreateMode(normal=true)"})
	// through the servers: the clear must pick the normal mode atomically with switching to it
	conc([]string{A, AN}, []string{"srv.ClearActiveMode"}, []string{"srv.UpdateMode(y,normal=false)"})
	conc([]string{A, AN}, []string{"srv.ClearActiveMode"}, []string{"srv.UpdateMode(y,normal=false)", "srv.UpdateMode(x,normal=true)"})
	conc([]string{A, AN}, []string{"ChangeToNormalMode"}, []string{"UpdateMode(y,normal=false)", "UpdateMode(x,normal=true)"})
	conc([]string{A, AN}, []string{"srv.ClearActiveMode"}, []string{"srv.DeleteMode(y,allowMissing=false)"})
	conc([]string{A, AN}, []string{"srv.UpdateActiveMode(x)"}, []string{"srv.DeleteMode(x,allowMissing=false)"})
	// two callers deleting the same mode, both prepared to find it gone
	conc([]string{A, AN}, []string{"srv.DeleteMode(x,allowMissing=true)"}, []string{"srv.DeleteMode(x,allowMissing=true)"})
	conc([]string{A, AN}, []string{"DeleteMode(x,allowMissing=true)"}, []string{"DeleteMode(x,allowMissing=true)"})
	h.Run()
}
