// C15 — paged List RPCs enumerate every item exactly once; malformed tokens and
// negative page sizes give an error, never a panic or an endless token chain.
package main

import (
	"bytes"
	"context"
	"encoding/base64"
	"fmt"
	"sort"
	"strings"

	"google.golang.org/protobuf/proto"
	"google.golang.org/protobuf/reflect/protoreflect"
	"google.golang.org/protobuf/types/known/fieldmaskpb"
	"google.golang.org/protobuf/types/known/timestamppb"

	"github.com/smart-core-os/sc-api/go/traits"
	"github.com/smart-core-os/sc-api/go/types"
	"github.com/smart-core-os/sc-golang/pkg/resource"
	"github.com/smart-core-os/sc-golang/pkg/trait/electricpb"
	"github.com/smart-core-os/sc-golang/pkg/trait/hailpb"
	"github.com/smart-core-os/sc-golang/pkg/trait/parentpb"
	"github.com/smart-core-os/sc-golang/pkg/trait/publicationpb"
	"github.com/smart-core-os/sc-golang/pkg/trait/vendingpb"
	"github.com/smart-core-os/sc-golang/pkg/trait/wastepb"
	"verifrt/hx"
)

type page struct {
	items []string
	next  string
	total int32
}

// lister: one paged RPC over a collection built from the given ids. want is the
// listing order the RPC promises.
type lister struct {
	name  string
	build func(ids []string) (list func(size int32, token string) (page, error), want []string)
}

// maskPath: when set, every List request that has a read_mask asks for this item field only. A read mask that
// leaves out the item's key must not disturb paging (the page token is made from the key).
var maskPath = map[string]string{
	"smartcore.traits.ListModesRequest":        "title",
	"smartcore.traits.ListPublicationsRequest": "media_type",
	"smartcore.traits.ListConsumablesRequest":  "default_unit",
	"smartcore.traits.ListInventoryRequest":    "dispensing",
	"smartcore.traits.ListHailsRequest":        "note",
	"smartcore.traits.ListChildrenRequest":     "traits",
	"smartcore.traits.ListWasteRecordsRequest": "weight",
}
var useMask bool

// badMask: the read mask names a field the items do not have. A request like that is either refused or answered by a
// listing that still pages to its end, page sizes and total as ever (what is shown of each item is another matter).
var badMask bool

func masked(req proto.Message) proto.Message {
	if !useMask {
		return req
	}
	m := req.ProtoReflect()
	fd := m.Descriptor().Fields().ByName("read_mask")
	path, ok := maskPath[string(m.Descriptor().FullName())]
	if fd == nil || !ok {
		return req
	}
	if badMask {
		path = "no_such_field"
	}
	m.Set(fd, protoreflect.ValueOfMessage((&fieldmaskpb.FieldMask{Paths: []string{path}}).ProtoReflect()))
	return req
}

type seqReader struct{ n byte }

func (r *seqReader) Read(p []byte) (int, error) {
	for i := range p {
		r.n++
		p[i] = r.n * 37
	}
	return len(p), nil
}

var ctx = context.Background()

// lowerIDs: build the models with a lower-casing id interceptor on their collections. The collection then lists
// in the order of the lower-cased ids while the items keep the ids they were given: the listing's order is not
// the byte order of the ids any more. Ids that collide after lower-casing are left out.
var lowerIDs bool

// upsertItems: the listed items are not created with Create / Add but by UPDATES that create what is absent and write
// one field that is not the key (a masked upsert): an item made that way is an item like any other - it carries its
// key and pages like the rest.
var upsertItems bool

// upsertEmptyMask: those upserts carry an update mask that is there and names nothing ("write no field")
var upsertEmptyMask bool

func upsertMask(field string) resource.WriteOption {
	if upsertEmptyMask {
		return resource.WithUpdateMask(&fieldmaskpb.FieldMask{})
	}
	return resource.WithUpdatePaths(field)
}

var upsertable = map[string]bool{"electric.ListModes": true, "vending.ListConsumables": true, "vending.ListInventory": true}

func lowerOpt() []resource.Option {
	if lowerIDs {
		return []resource.Option{resource.WithIDInterceptor(strings.ToLower)}
	}
	return nil
}

// restrictW: the model's collection is built with writable fields that do not include the items' key (clients may
// change a title, not more). What the model's own Create / Add files under a key still carries that key.
var restrictW bool

var restrictable = map[string]bool{"parent.ListChildren": true, "electric.ListModes": true, "hail.ListHails": true, "publication.ListPublications": true, "vending.ListConsumables": true, "vending.ListInventory": true}

func collOpt(m proto.Message, field string) []resource.Option {
	o := lowerOpt()
	if restrictW {
		o = append(o, resource.WithWritablePaths(m, field))
	}
	return o
}

func usable(ids []string) []string {
	if !lowerIDs {
		return ids
	}
	seen := map[string]bool{}
	var out []string
	for _, id := range ids {
		if l := strings.ToLower(id); !seen[l] {
			seen[l] = true
			out = append(out, id)
		}
	}
	return out
}

func sorted(ids []string) []string {
	s := append([]string(nil), ids...)
	if lowerIDs {
		sort.Slice(s, func(i, j int) bool { return strings.ToLower(s[i]) < strings.ToLower(s[j]) })
		return s
	}
	sort.Strings(s)
	return s
}

var lowerable = map[string]bool{"electric.ListModes": true, "publication.ListPublications": true, "vending.ListConsumables": true, "vending.ListInventory": true}

var listers = []lister{
	{"electric.ListModes", func(ids []string) (func(int32, string) (page, error), []string) {
		ids = usable(ids)
		m := electricpb.NewModel(electricpb.WithModeOption(collOpt(&traits.ElectricMode{}, "title")...))
		for _, id := range ids {
			if upsertItems {
				if _, err := m.UpdateMode(&traits.ElectricMode{Id: id, Title: "t" + id}, resource.WithCreateIfAbsent(), upsertMask("title")); err != nil {
					panic(err)
				}
				continue
			}
			if err := m.AddMode(&traits.ElectricMode{Id: id, Title: "t" + id}); err != nil {
				panic(err)
			}
		}
		s := electricpb.NewModelServer(m)
		return func(size int32, tok string) (page, error) {
			r, err := s.ListModes(ctx, masked(&traits.ListModesRequest{Name: "n", PageSize: size, PageToken: tok}).(*traits.ListModesRequest))
			if err != nil {
				return page{}, err
			}
			var p page
			for _, x := range r.Modes {
				p.items = append(p.items, x.Id)
			}
			p.next, p.total = r.NextPageToken, r.TotalSize
			return p, nil
		}, sorted(ids)
	}},
	{"hail.ListHails", func(ids []string) (func(int32, string) (page, error), []string) {
		m := hailpb.NewModel(append(collOpt(&traits.Hail{}, "state"), hailpb.WithKeepAlive(-1), resource.WithRNG(&seqReader{}))...)
		var got []string
		for range ids { // hail ids are always generated
			h, err := m.CreateHail(&traits.Hail{})
			if err != nil {
				panic(err)
			}
			got = append(got, h.Id)
		}
		s := hailpb.NewModelServer(m)
		return func(size int32, tok string) (page, error) {
			r, err := s.ListHails(ctx, masked(&traits.ListHailsRequest{Name: "n", PageSize: size, PageToken: tok}).(*traits.ListHailsRequest))
			if err != nil {
				return page{}, err
			}
			var p page
			for _, x := range r.Hails {
				p.items = append(p.items, x.Id)
			}
			p.next, p.total = r.NextPageToken, r.TotalSize
			return p, nil
		}, sorted(got)
	}},
	{"parent.ListChildren", func(ids []string) (func(int32, string) (page, error), []string) {
		var popts []resource.Option
		if restrictW {
			popts = append(popts, resource.WithWritablePaths(&traits.Child{}, "traits"))
		}
		m := parentpb.NewModel(popts...)
		for i, id := range ids {
			if restrictW && i%2 == 1 {
				m.AddChildTrait(id, "smartcore.traits.OnOff") // the other way a child comes to be
				continue
			}
			m.AddChild(&traits.Child{Name: id})
		}
		s := parentpb.NewModelServer(m)
		return func(size int32, tok string) (page, error) {
			r, err := s.ListChildren(ctx, masked(&traits.ListChildrenRequest{Name: "n", PageSize: size, PageToken: tok}).(*traits.ListChildrenRequest))
			if err != nil {
				return page{}, err
			}
			var p page
			for _, x := range r.Children {
				p.items = append(p.items, x.Name)
			}
			p.next, p.total = r.NextPageToken, r.TotalSize
			return p, nil
		}, sorted(ids)
	}},
	{"publication.ListPublications", func(ids []string) (func(int32, string) (page, error), []string) {
		ids = usable(ids)
		m := publicationpb.NewModel(publicationpb.WithPublicationOption(collOpt(&traits.Publication{}, "body")...))
		for _, id := range ids {
			if _, err := m.CreatePublication(&traits.Publication{Id: id}, publicationpb.WithNewVersion()); err != nil {
				panic(err)
			}
		}
		s := publicationpb.NewModelServer(m)
		// every other publication has been acknowledged by its audience before anybody lists (a write like any other:
		// what is listed, and under which key, is as before)
		for i, id := range ids {
			if i%2 == 0 {
				if p, ok := m.GetPublication(id); ok {
					s.AcknowledgePublication(ctx, &traits.AcknowledgePublicationRequest{Name: "n", Id: id, Version: p.Version, Receipt: traits.Publication_Audience_ACCEPTED})
				}
			}
		}
		return func(size int32, tok string) (page, error) {
			r, err := s.ListPublications(ctx, masked(&traits.ListPublicationsRequest{Name: "n", PageSize: size, PageToken: tok}).(*traits.ListPublicationsRequest))
			if err != nil {
				return page{}, err
			}
			var p page
			for _, x := range r.Publications {
				p.items = append(p.items, x.Id)
			}
			p.next, p.total = r.NextPageToken, r.TotalSize
			return p, nil
		}, sorted(ids)
	}},
	{"vending.ListConsumables", func(ids []string) (func(int32, string) (page, error), []string) {
		ids = usable(ids)
		m := vendingpb.NewModel(vendingpb.WithConsumablesOption(collOpt(&traits.Consumable{}, "title")...))
		for _, id := range ids {
			if upsertItems {
				if _, err := m.UpdateConsumable(&traits.Consumable{Name: id, Title: "t" + id}, resource.WithCreateIfAbsent(), upsertMask("title")); err != nil {
					panic(err)
				}
				continue
			}
			if _, err := m.CreateConsumable(&traits.Consumable{Name: id}); err != nil {
				panic(err)
			}
		}
		s := vendingpb.NewModelServer(m)
		return func(size int32, tok string) (page, error) {
			r, err := s.ListConsumables(ctx, masked(&traits.ListConsumablesRequest{Name: "n", PageSize: size, PageToken: tok}).(*traits.ListConsumablesRequest))
			if err != nil {
				return page{}, err
			}
			var p page
			for _, x := range r.Consumables {
				p.items = append(p.items, x.Name)
			}
			p.next, p.total = r.NextPageToken, r.TotalSize
			return p, nil
		}, sorted(ids)
	}},
	{"vending.ListInventory", func(ids []string) (func(int32, string) (page, error), []string) {
		ids = usable(ids)
		m := vendingpb.NewModel(vendingpb.WithInventoryOption(collOpt(&traits.Consumable_Stock{}, "last_dispensed")...))
		for _, id := range ids {
			if upsertItems {
				if _, err := m.UpdateStock(&traits.Consumable_Stock{Consumable: id, LastDispensed: &traits.Consumable_Quantity{Amount: 1}}, resource.WithCreateIfAbsent(), upsertMask("last_dispensed")); err != nil {
					panic(err)
				}
				continue
			}
			if _, err := m.CreateStock(&traits.Consumable_Stock{Consumable: id}); err != nil {
				panic(err)
			}
		}
		s := vendingpb.NewModelServer(m)
		return func(size int32, tok string) (page, error) {
			r, err := s.ListInventory(ctx, masked(&traits.ListInventoryRequest{Name: "n", PageSize: size, PageToken: tok}).(*traits.ListInventoryRequest))
			if err != nil {
				return page{}, err
			}
			var p page
			for _, x := range r.Inventory {
				p.items = append(p.items, x.Consumable)
			}
			p.next, p.total = r.NextPageToken, r.TotalSize
			return p, nil
		}, sorted(ids)
	}},
	{"waste.ListWasteRecords", func(ids []string) (func(int32, string) (page, error), []string) {
		m := wastepb.NewModel() // always starts with 100 generated records
		for range ids {
			if _, err := m.GenerateWasteRecord(timestamppb.Now()); err != nil {
				panic(err)
			}
		}
		n := m.GetWasteRecordCount()
		var want []string
		for _, r := range m.ListWasteRecords(n, n) { // newest first
			want = append(want, r.Id)
		}
		s := wastepb.NewModelServer(m)
		return func(size int32, tok string) (page, error) {
			r, err := s.ListWasteRecords(ctx, masked(&traits.ListWasteRecordsRequest{Name: "n", PageSize: size, PageToken: tok}).(*traits.ListWasteRecordsRequest))
			if err != nil {
				return page{}, err
			}
			var p page
			for _, x := range r.WasteRecords {
				p.items = append(p.items, x.Id)
			}
			p.next, p.total = r.NextPageToken, r.TotalSize
			return p, nil
		}, want
	}},
}

type pcase struct {
	Lister     string
	Ids        []string
	Size       int32
	Token      string // "": walk the chain from the start; else start from this (corrupted) token
	Masked     bool   // the requests carry a read mask that leaves out the items' key
	Then       int32  // != 0: every page after the first is requested with this page size instead
	Lower      bool   // the model's collection lower-cases ids (id interceptor)
	Upsert     bool   // the items were created by masked upserts
	EmptyMask  bool   // ... whose update mask names no field
	Restricted bool   // the model's collection has writable fields configured that leave out the key
	BadMask    bool   // with Masked: the read mask names a field the items do not have
	PT         bool   // the lister's real tokens are base64 of a types.PageToken, and Token does NOT decode as one: it is malformed and must be refused
}

// decodesAsPageToken: the token format of every paged server here but waste.
func decodesAsPageToken(tok string) bool {
	bs, err := base64.StdEncoding.DecodeString(tok)
	if err != nil {
		return false
	}
	return proto.Unmarshal(bs, &types.PageToken{}) == nil
}

func limit(size int32) int {
	switch {
	case size == 0:
		return 50
	case size > 1000:
		return 1000
	}
	return int(size)
}

// walk follows the token chain; returns pages, or a violation.
func walk(l lister, c pcase, fail func(k, m string), tokens map[string]bool) {
	useMask = c.Masked
	lowerIDs = c.Lower
	upsertItems = c.Upsert
	upsertEmptyMask = c.EmptyMask
	badMask = c.BadMask
	restrictW = c.Restricted
	defer func() {
		useMask, lowerIDs, upsertItems, restrictW, upsertEmptyMask, badMask = false, false, false, false, false, false
	}()
	var list func(int32, string) (page, error)
	var want []string
	buildPanic := func() (p any) {
		defer func() { p = recover() }()
		list, want = l.build(c.Ids)
		return nil
	}()
	key := func(clause string) string {
		ids := strings.Join(c.Ids, ",")
		if len(c.Ids) > 8 {
			ids = fmt.Sprintf("%d ids", len(c.Ids))
		}
		if c.Masked && c.BadMask {
			clause += "(read mask naming a field the items do not have)"
		} else if c.Masked {
			clause += "(read mask without the key)"
		}
		if c.Then != 0 {
			clause += fmt.Sprintf("(then page size %d)", c.Then)
		}
		if c.Lower {
			clause += "(ids lower-cased by the collection)"
		}
		if c.Upsert {
			clause += "(items created by masked upserts)"
		}
		if c.EmptyMask {
			clause += "(with an update mask naming nothing)"
		}
		if c.Restricted {
			clause += "(collection with writable fields that leave out the key)"
		}
		return fmt.Sprintf("%s %s size=%d ids=[%s] token=%q", clause, c.Lister, c.Size, ids, c.Token)
	}
	if buildPanic != nil {
		fail(key("items-refused"), fmt.Sprintf("the model refused to create the items to list: %v", buildPanic))
		return
	}
	size := c.Size
	call := func(tok string) (p page, err error, pan any) {
		defer func() { pan = recover() }()
		p, err = list(size, tok)
		return
	}
	var all []string
	tok := c.Token
	maxCalls := len(want) + 3
	for n := 0; ; n++ {
		if n > maxCalls {
			fail(key("endless-chain"), fmt.Sprintf("more than %d pages for %d items", maxCalls, len(want)))
			return
		}
		p, err, pan := call(tok)
		if pan != nil {
			fail(key("panic"), fmt.Sprintf("panicked: %v", pan))
			return
		}
		if c.Size < 0 {
			if err == nil {
				fail(key("negative-size-accepted"), fmt.Sprintf("negative page size answered with %d items", len(p.items)))
			}
			return
		}
		if err != nil {
			if c.Token == "" && !c.BadMask {
				fail(key("error"), fmt.Sprintf("valid request failed: %v", err))
			}
			return // a corrupted token (or a mask naming no field of the items) may be rejected
		}
		if n == 0 && c.PT {
			fail(key("malformed-token-accepted"), fmt.Sprintf("the token does not decode as a page token (the server's own tokens are base64 of a types.PageToken) and was answered with a page of %d items and next token %q instead of an error status", len(p.items), p.next))
			return
		}
		if len(p.items) > limit(size) {
			fail(key("page-too-large"), fmt.Sprintf("page of %d items for page size %d", len(p.items), size))
			return
		}
		if c.Token == "" && len(want) <= 10 {
			// the same request once more (a client that retries, two clients in step): a token stands for a place in
			// the listing, asking twice gives the same page twice
			p2, err2, pan2 := call(tok)
			if pan2 != nil || err2 != nil || fmt.Sprint(p2.items) != fmt.Sprint(p.items) || p2.next != p.next || p2.total != p.total {
				fail(key("page-not-repeatable"), fmt.Sprintf("page %d asked for twice with the same token %q: first %v next %q, then %v next %q (error %v, panic %v)", n, tok, short(p.items), p.next, short(p2.items), p2.next, err2, pan2))
				return
			}
		}
		if c.Then != 0 {
			size = c.Then // a client may ask for a different page size on every call
		}
		if int(p.total) != len(want) {
			fail(key("total-size"), fmt.Sprintf("total_size %d, collection holds %d", p.total, len(want)))
			return
		}
		all = append(all, p.items...)
		if p.next == "" {
			break
		}
		if tokens != nil {
			tokens[p.next] = true
		}
		tok = p.next
	}
	if c.Masked {
		// the items carry no key: every item exactly once can only be told by the count
		if c.Token == "" && len(all) != len(want) {
			fail(key("enumeration"), fmt.Sprintf("pages hold %d items in all, the collection %d", len(all), len(want)))
		}
		return
	}
	if c.Token == "" {
		if fmt.Sprint(all) != fmt.Sprint(want) {
			fail(key("enumeration"), fmt.Sprintf("pages concatenate to %v, the listing is %v", short(all), short(want)))
		}
	} else {
		// from a corrupted token: whatever is returned must be a duplicate-free, ordered part of the listing
		pos := map[string]int{}
		for i, w := range want {
			pos[w] = i
		}
		last := -1
		for _, it := range all {
			i, ok := pos[it]
			if !ok || i <= last {
				fail(key("corrupt-token-listing"), fmt.Sprintf("items %v are not an ordered duplicate-free part of the listing", short(all)))
				return
			}
			last = i
		}
	}
}

func short(s []string) string {
	if len(s) > 14 {
		return fmt.Sprintf("%v…(%d)", s[:14], len(s))
	}
	return fmt.Sprint(s)
}

func corruptions(tok string, ids []string) []string {
	var out []string
	for i := 1; i < len(tok); i++ {
		out = append(out, tok[:i])
	}
	b := []byte(tok)
	for i := range b {
		c := append([]byte(nil), b...)
		c[i] ^= 1
		out = append(out, string(c))
	}
	out = append(out, tok+"!", "%%%", base64.StdEncoding.EncodeToString([]byte{0xff, 0x01, 0x02}), base64.StdEncoding.EncodeToString(bytes.Repeat([]byte{0x0a}, 5)))
	for _, name := range []string{"", " ", "0", "a0", "zzzz", "B"} {
		bs, _ := proto.Marshal(&types.PageToken{PageStart: &types.PageToken_LastResourceName{LastResourceName: name}})
		out = append(out, base64.StdEncoding.EncodeToString(bs))
	}
	return out
}

func main() {
	h := hx.New("C15")
	h.Seq("big-items", bigItems)
	h.Seq("pages", func(s *hx.Seq) {
		var rc pcase
		byName := map[string]lister{}
		for _, l := range listers {
			byName[l.name] = l
		}
		if s.Replaying(&rc) {
			walk(byName[rc.Lister], rc, func(k, m string) { s.Fail(k, m, rc) }, nil)
			return
		}
		// upper-case names order differently byte-wise and case-folded: a listing whose sort and whose
		// page-token seek disagree about the order skips or repeats items
		pool := []string{"a", "aa", "ab", "b", "a.", "A", "a/b", "é", "B", "Ab"}
		var idSets [][]string
		maxN := 5
		if s.Thorough {
			maxN = 7
		}
		// all subsets of the pool up to size maxN (thorough) / prefix subsets + a few others (quick)
		for m := 0; m < 1<<len(pool); m++ {
			var set []string
			for i := range pool {
				if m&(1<<i) != 0 {
					set = append(set, pool[len(pool)-1-i])
				}
			}
			if len(set) > maxN {
				continue
			}
			if !s.Thorough && m%5 != 0 && len(set) > 2 {
				continue
			}
			idSets = append(idSets, set)
		}
		// ids whose page tokens use every corner of the token encoding (base64 '+' '/' '=' positions at each
		// alignment, multi-byte runes): with pages of 1 every id ends a page and becomes a token
		awkward := []string{"?", "a?", "ab?", "~", "a~", "ab~", ">", "a>", "ab>", "Hot?", "~spare", "tea>milk", "ab¿", "k茶", "so🍵", "ÿÿÿ", "\x7f\x7f"}
		idSets = append(idSets, awkward, awkward[:6], awkward[6:12], awkward[12:])
		// long names: a page token carries the name its page ended with, however long that is
		long := func(c string, n int) string { return strings.Repeat(c, n) }
		idSets = append(idSets, []string{"a", long("k", 94), "m", long("k", 95), long("k", 200), "z"}, []string{long("p", 130), long("q", 1000)})
		big := []int{49, 50, 51, 1001} // 1001: one more than the largest page a server hands out
		if s.Thorough {
			big = append(big, 60, 999, 1000)
		}
		for _, n := range big {
			var set []string
			for i := 0; i < n; i++ {
				set = append(set, fmt.Sprintf("k%04d", (i*7919)%n))
			}
			idSets = append(idSets, set)
		}
		sizes := []int32{-5, -1, 0, 1, 2, 3, 7, 50, 1000, 5000}
		for _, l := range listers {
			for _, ids := range idSets {
				if !s.Own() {
					continue
				}
				tokens := map[string]bool{}
				for _, size := range sizes {
					if strings.HasPrefix(l.name, "waste") && len(ids) > 60 && size > 0 && size < 1000 {
						continue // the waste model starts with 100 records of its own: big sets only against the page cap
					}
					if len(ids) > 100 && size > 0 && size < 7 {
						continue // 1000 items by pages of 1-3: nothing new over 50 items
					}
					c := pcase{Lister: l.name, Ids: ids, Size: size}
					s.Eval(1)
					s.Trans(1)
					var tk map[string]bool
					if size == 2 || (size == 1 && len(ids) <= 3) || (size == 50 && len(ids) > 50) {
						tk = tokens
					}
					walk(l, c, func(k, m string) { s.Fail(k, m, c) }, tk)
					if size > 0 && size <= 3 && len(ids) <= 60 {
						// the same chain continued with another page size (larger, smaller, default, beyond the cap)
						for _, then := range []int32{1, 3, 50, 1000, 5000} {
							if then == size {
								continue
							}
							ct := c
							ct.Then = then
							s.Eval(1)
							s.Trans(1)
							walk(l, ct, func(k, m string) { s.Fail(k, m, ct) }, nil)
						}
					}
					if lowerable[l.name] && size > 0 && size <= 7 && len(ids) <= 60 {
						// the same walk on a model whose collection lower-cases ids: listing order and id order differ
						cl := c
						cl.Lower = true
						s.Eval(1)
						s.Trans(1)
						walk(l, cl, func(k, m string) { s.Fail(k, m, cl) }, nil)
					}
					if upsertable[l.name] && size > 0 && size <= 3 && len(ids) <= 8 {
						cu := c
						cu.Upsert = true
						s.Eval(1)
						s.Trans(1)
						walk(l, cu, func(k, m string) { s.Fail(k, m, cu) }, nil)
						ce := cu
						ce.EmptyMask = true
						s.Eval(1)
						s.Trans(1)
						walk(l, ce, func(k, m string) { s.Fail(k, m, ce) }, nil)
					}
					if restrictable[l.name] && size > 0 && size <= 3 && len(ids) <= 8 {
						for _, ups := range []bool{false, true} {
							if ups && !upsertable[l.name] {
								continue
							}
							cr := c
							cr.Restricted, cr.Upsert = true, ups
							s.Eval(1)
							s.Trans(1)
							walk(l, cr, func(k, m string) { s.Fail(k, m, cr) }, nil)
						}
					}
					if size > 0 && size <= 7 && len(ids) <= 60 {
						// the same walk with a read mask that leaves the items' key out
						cm := c
						cm.Masked = true
						s.Eval(1)
						s.Trans(1)
						walk(l, cm, func(k, m string) { s.Fail(k, m, cm) }, nil)
						if size <= 3 {
							cb := cm
							cb.BadMask = true
							s.Eval(1)
							s.Trans(1)
							walk(l, cb, func(k, m string) { s.Fail(k, m, cb) }, nil)
						}
					}
					s.State(fmt.Sprintf("%s n=%d size=%d", l.name, len(ids), size))
					if len(ids) > 1 && size > 0 && int(size) < len(ids) {
						s.Distinct(fmt.Sprintf("%s %v size=%d", l.name, ids, size))
					}
				}
				// corrupted tokens derived from every real token seen for this collection
				ntok := 0
				var toks []string
				for tok := range tokens {
					toks = append(toks, tok)
				}
				sort.Strings(toks) // (a fixed choice: the quick tier takes the first three)
				for _, tok := range toks {
					if ntok++; ntok > 3 && !s.Thorough {
						break
					}
					cs := corruptions(tok, ids)
					if strings.HasPrefix(l.name, "waste") {
						cs = []string{"-1", "0", "1", fmt.Sprint(100 + len(ids)), fmt.Sprint(101 + len(ids)), "1000000000", "x", "1.5", " 3"}
					}
					for _, bad := range cs {
						for _, size := range []int32{0, 2} {
							c := pcase{Lister: l.name, Ids: ids, Size: size, Token: bad}
							c.PT = bad != "" && decodesAsPageToken(tok) && !decodesAsPageToken(bad)
							s.Eval(1)
							s.Trans(1)
							walk(l, c, func(k, m string) { s.Fail(k, m, c) }, nil)
						}
					}
				}
				if s.Stop() {
					return
				}
			}
		}
		s.Sample(map[string]any{"case": pcase{Lister: "parent.ListChildren", Ids: []string{"a", "aa", "a."}, Size: 2}, "meaning": "collection built from these ids, pages of 2 followed until next_page_token is empty, concatenation compared with the sorted listing; then every real token is corrupted (truncation at each byte, one flipped bit per byte, non-base64, tokens naming absent keys)"})
	})
	h.Run()
}
