package main

// Large items: twelve items that each carry a 600 KiB payload (a picture, a body, a title) - a page of them is several
// megabytes, more than a default gRPC message. Paging is counted in ITEMS: following the tokens still returns every
// item exactly once, in order, with pages as large as asked for (pages of 0 = the default 50, 7 and 1000).

import (
	"bytes"
	"fmt"
	"strings"

	"github.com/smart-core-os/sc-api/go/traits"
	"github.com/smart-core-os/sc-api/go/types"

	"github.com/smart-core-os/sc-golang/pkg/trait/electricpb"
	"github.com/smart-core-os/sc-golang/pkg/trait/publicationpb"
	"github.com/smart-core-os/sc-golang/pkg/trait/vendingpb"
	"verifrt/hx"
)

type bigLister struct {
	name string
	list func(size int32, tok string) (ids []string, next string, total int32, err error)
}

func bigListers() []bigLister {
	const n = 12
	blob := bytes.Repeat([]byte{0xAB}, 600*1024)
	text := strings.Repeat("t", 600*1024)
	id := func(i int) string { return fmt.Sprintf("item-%02d", i) }
	vm := vendingpb.NewModel()
	pm := publicationpb.NewModel()
	em := electricpb.NewModel()
	for i := 0; i < n; i++ {
		if _, err := vm.CreateConsumable(&traits.Consumable{Name: id(i), Picture: &types.Image{Sources: []*types.Image_Source{{Src: []*types.Image_Content{{Type: "image/png", Content: &types.Image_Content_Body{Body: blob}}}}}}}); err != nil {
			panic(err)
		}
		if _, err := vm.CreateStock(&traits.Consumable_Stock{Consumable: id(i)}); err != nil {
			panic(err)
		}
		if _, err := pm.CreatePublication(&traits.Publication{Id: id(i), Body: blob}); err != nil {
			panic(err)
		}
		if err := em.AddMode(&traits.ElectricMode{Id: id(i), Title: text}); err != nil {
			panic(err)
		}
	}
	vs, ps, es := vendingpb.NewModelServer(vm), publicationpb.NewModelServer(pm), electricpb.NewModelServer(em)
	return []bigLister{
		{"vending.ListConsumables", func(size int32, tok string) ([]string, string, int32, error) {
			r, err := vs.ListConsumables(ctx, &traits.ListConsumablesRequest{Name: "n", PageSize: size, PageToken: tok})
			if err != nil {
				return nil, "", 0, err
			}
			var ids []string
			for _, c := range r.Consumables {
				ids = append(ids, c.Name)
			}
			return ids, r.NextPageToken, r.TotalSize, nil
		}},
		{"vending.ListInventory", func(size int32, tok string) ([]string, string, int32, error) {
			r, err := vs.ListInventory(ctx, &traits.ListInventoryRequest{Name: "n", PageSize: size, PageToken: tok})
			if err != nil {
				return nil, "", 0, err
			}
			var ids []string
			for _, c := range r.Inventory {
				ids = append(ids, c.Consumable)
			}
			return ids, r.NextPageToken, r.TotalSize, nil
		}},
		{"publication.ListPublications", func(size int32, tok string) ([]string, string, int32, error) {
			r, err := ps.ListPublications(ctx, &traits.ListPublicationsRequest{Name: "n", PageSize: size, PageToken: tok})
			if err != nil {
				return nil, "", 0, err
			}
			var ids []string
			for _, c := range r.Publications {
				ids = append(ids, c.Id)
			}
			return ids, r.NextPageToken, r.TotalSize, nil
		}},
		{"electric.ListModes", func(size int32, tok string) ([]string, string, int32, error) {
			r, err := es.ListModes(ctx, &traits.ListModesRequest{Name: "n", PageSize: size, PageToken: tok})
			if err != nil {
				return nil, "", 0, err
			}
			var ids []string
			for _, c := range r.Modes {
				ids = append(ids, c.Id)
			}
			return ids, r.NextPageToken, r.TotalSize, nil
		}},
	}
}

func bigItems(s *hx.Seq) {
	type bcase struct {
		Lister string
		Size   int32
	}
	run := func(c bcase) {
		for _, l := range bigListers() {
			if l.name != c.Lister {
				continue
			}
			var all []string
			tok := ""
			for page := 0; page < 20; page++ {
				ids, next, total, err := l.list(c.Size, tok)
				if err != nil {
					s.Fail(fmt.Sprintf("big-items-error %s size=%d", c.Lister, c.Size), err.Error(), c)
					return
				}
				if total != 12 {
					s.Fail(fmt.Sprintf("big-items-total %s size=%d", c.Lister, c.Size), fmt.Sprintf("total_size %d, there are 12 items", total), c)
					return
				}
				if lim := limit(c.Size); len(ids) > lim || (next != "" && len(ids) < lim) {
					s.Fail(fmt.Sprintf("big-items-page %s size=%d", c.Lister, c.Size), fmt.Sprintf("page %d has %d items (page size %d) and next token %q: a page that is followed by another one is full", page, len(ids), lim, next), c)
					return
				}
				all = append(all, ids...)
				if tok = next; tok == "" {
					break
				}
			}
			var want []string
			for i := 0; i < 12; i++ {
				want = append(want, fmt.Sprintf("item-%02d", i))
			}
			if fmt.Sprint(all) != fmt.Sprint(want) {
				s.Fail(fmt.Sprintf("big-items %s size=%d", c.Lister, c.Size), fmt.Sprintf("12 items of 600 KiB each listed as %v", all), c)
			}
		}
	}
	var rc bcase
	if s.Replaying(&rc) {
		run(rc)
		return
	}
	if !s.Own() {
		return
	}
	for _, l := range []string{"vending.ListConsumables", "vending.ListInventory", "publication.ListPublications", "electric.ListModes"} {
		for _, size := range []int32{0, 7, 1000} {
			c := bcase{l, size}
			s.Eval(1)
			s.Trans(2)
			s.State(fmt.Sprint(c))
			s.Distinct(fmt.Sprint(c))
			run(c)
		}
	}
	s.Sample("twelve items of 600 KiB each per lister, pages of 0 / 7 / 1000: every item once, pages full")
}
