#!/bin/sh
# tools/trymut.sh <patch.diff> <property id>... — apply a patch to a scratch worktree of /repo's HEAD (or $MUT_BASE)
# (outside /repo and /verif), run the given checks against it, remove the worktree.
set -u
patch=$(realpath "$1"); shift
wt=$(mktemp -d /tmp/wt-mut-XXXXXX)
rmdir "$wt"
git -C /repo worktree add -q --detach "$wt" "${MUT_BASE:-HEAD}" || exit 2
VERIF_ALT_OUT=$(mktemp -d /tmp/verif-alt-XXXXXX); export VERIF_ALT_OUT  # private: several trials may run side by side
trap 'git -C /repo worktree remove --force "$wt" >/dev/null 2>&1; rm -rf "$VERIF_ALT_OUT"' EXIT
if ! git -C "$wt" apply "$patch" 2>/dev/null; then ( cd "$wt" && git apply --3way "$patch" >/dev/null 2>&1 && git reset -q ) || { echo "patch does not apply (not even three-way)"; exit 2; }; echo "(patch carried over with a three-way merge)"; fi
rc=0
for id in "$@"; do
  VERIF_REPO="$wt" /verif/check "$id" --tier "${TIER:-quick}" 2>&1 | grep -v '^   ' | tail -${LINES_SHOWN:-6}
done
