// vinst: type-directed source instrumenter for the verifrt controlled runtime.
//
//	vinst -repo /repo -rt /verif/rt -out DIR -h name=/verif/h/c02 [-h lib=/verif/h/lib] ...
//
// It loads the harness packages (mounted as virtual packages
// <module>/verif_h/<name> through a go-build overlay) together with every package
// of the repository module they import, rewrites every goroutine start, channel
// operation, select, range-over-channel, close, sync primitive and context
// constructor into verifrt calls, and writes DIR/overlay.json for
// `go build -overlay`. /repo itself is never modified.
//
// Constructs the rewriter does not understand are a hard error (exit 2).
package main

import (
	"bytes"
	"encoding/json"
	"flag"
	"fmt"
	"go/ast"
	"go/format"
	"go/token"
	"go/types"
	"os"
	"path/filepath"
	"sort"
	"strings"

	"golang.org/x/tools/go/ast/astutil"
	"golang.org/x/tools/go/packages"
)

type multi []string

func (m *multi) String() string     { return strings.Join(*m, ",") }
func (m *multi) Set(s string) error { *m = append(*m, s); return nil }

var (
	repo     = flag.String("repo", "/repo", "repository root")
	rtDir    = flag.String("rt", "/verif/rt", "verifrt module directory")
	outDir   = flag.String("out", "", "output directory")
	noInst   = flag.Bool("plain", false, "do not instrument: only mount the harness packages (free-running build)")
	skipFns  = flag.String("skip", "github.com/smart-core-os/sc-golang/pkg/resource.timeoutAlarm", "comma separated pkgpath.Func left un-instrumented")
	extraOvl = flag.String("overlay-extra", "", "JSON file {path: replacement} merged into the overlay (used to mount deliberately broken files)")
	harness  multi
)

func die(f string, a ...any) {
	fmt.Fprintf(os.Stderr, "vinst: "+f+"\n", a...)
	os.Exit(2)
}

func main() {
	flag.Var(&harness, "h", "name=dir harness package to mount at <module>/verif_h/<name> (repeatable)")
	flag.Parse()
	if *outDir == "" || len(harness) == 0 {
		die("need -out and at least one -h")
	}
	must(os.MkdirAll(*outDir, 0o755))

	replace := map[string]string{} // overlay: virtual path -> real file
	if *extraOvl != "" {
		b, err := os.ReadFile(*extraOvl)
		must(err)
		must(json.Unmarshal(b, &replace))
	}
	// go.mod with the runtime module
	gomod, err := os.ReadFile(filepath.Join(*repo, "go.mod"))
	must(err)
	modPath := ""
	for _, l := range strings.Split(string(gomod), "\n") {
		if strings.HasPrefix(l, "module ") {
			modPath = strings.TrimSpace(strings.TrimPrefix(l, "module "))
		}
	}
	gomod = append(gomod, []byte(fmt.Sprintf("\nrequire verifrt v0.0.0\n\nreplace verifrt => %s\n", *rtDir))...)
	gm := filepath.Join(*outDir, "go.mod")
	must(os.WriteFile(gm, gomod, 0o644))
	replace[filepath.Join(*repo, "go.mod")] = gm

	var patterns []string
	for _, h := range harness {
		name, dir, ok := strings.Cut(h, "=")
		if !ok {
			die("bad -h %q", h)
		}
		ents, err := os.ReadDir(dir)
		must(err)
		for _, e := range ents {
			if e.IsDir() || !strings.HasSuffix(e.Name(), ".go") || strings.HasSuffix(e.Name(), "_test.go") {
				continue
			}
			replace[filepath.Join(*repo, "verif_h", name, e.Name())] = filepath.Join(dir, e.Name())
		}
		patterns = append(patterns, modPath+"/verif_h/"+name)
	}

	if !*noInst {
		instrument(modPath, patterns, replace)
	}

	ov := struct{ Replace map[string]string }{replace}
	b, _ := json.MarshalIndent(ov, "", " ")
	must(os.WriteFile(filepath.Join(*outDir, "overlay.json"), b, 0o644))
}

func must(err error) {
	if err != nil {
		die("%v", err)
	}
}

func overlayBytes(replace map[string]string) map[string][]byte {
	m := map[string][]byte{}
	for k, v := range replace {
		b, err := os.ReadFile(v)
		must(err)
		m[k] = b
	}
	return m
}

func instrument(modPath string, patterns []string, replace map[string]string) {
	env := append(os.Environ(), "GOFLAGS=-mod=mod", "GOPROXY=off", "GOSUMDB=off", "GOTOOLCHAIN=local")
	ovl := overlayBytes(replace)
	// phase 1: import closure, names only
	cfg := &packages.Config{Mode: packages.NeedName | packages.NeedImports | packages.NeedDeps | packages.NeedModule, Dir: *repo, Env: env, Overlay: ovl}
	roots, err := packages.Load(cfg, patterns...)
	must(err)
	inMod := map[string]bool{}
	packages.Visit(roots, nil, func(p *packages.Package) {
		for _, e := range p.Errors {
			die("load %s: %v", p.PkgPath, e)
		}
		if p.Module != nil && p.Module.Path == modPath {
			inMod[p.PkgPath] = true
		}
	})
	var list []string
	for p := range inMod {
		list = append(list, p)
	}
	sort.Strings(list)
	// phase 2: syntax + types of exactly those packages
	cfg2 := &packages.Config{Mode: packages.NeedName | packages.NeedFiles | packages.NeedCompiledGoFiles | packages.NeedSyntax | packages.NeedTypes | packages.NeedTypesInfo | packages.NeedImports, Dir: *repo, Env: env, Overlay: ovl}
	pkgs, err := packages.Load(cfg2, list...)
	must(err)
	skip := map[string]bool{}
	for _, s := range strings.Split(*skipFns, ",") {
		if s != "" {
			skip[s] = true
		}
	}
	nfiles, nrew := 0, 0
	counts := map[string]int{}
	for _, p := range pkgs {
		for _, e := range p.Errors {
			die("typecheck %s: %v", p.PkgPath, e)
		}
		for i, f := range p.Syntax {
			fn := p.CompiledGoFiles[i]
			nfiles++
			r := &rewriter{fset: p.Fset, info: p.TypesInfo, pkg: p, file: f, skip: skip, counts: counts}
			if !r.run() {
				continue
			}
			nrew++
			var buf bytes.Buffer
			if err := format.Node(&buf, p.Fset, f); err != nil {
				die("print %s: %v", fn, err)
			}
			rel := strings.TrimPrefix(fn, *repo+"/")
			out := filepath.Join(*outDir, "src", rel)
			must(os.MkdirAll(filepath.Dir(out), 0o755))
			must(os.WriteFile(out, buf.Bytes(), 0o644))
			replace[fn] = out
		}
	}
	var cs []string
	for k, v := range counts {
		cs = append(cs, fmt.Sprintf("%s=%d", k, v))
	}
	sort.Strings(cs)
	fmt.Fprintf(os.Stderr, "vinst: %d packages, %d files, %d rewritten; %s\n", len(pkgs), nfiles, nrew, strings.Join(cs, " "))
}

type rewriter struct {
	fset     *token.FileSet
	info     *types.Info
	pkg      *packages.Package
	file     *ast.File
	skip     map[string]bool
	counts   map[string]int
	changed  bool
	needRT   bool
	tmp      int
	noTouch  map[ast.Node]bool // comm statements of selects, handled by the select rewrite
	recv2    map[ast.Node]bool // <-ch used in a two-value assignment
	tickerOK map[ast.Node]bool // time.NewTicker selectors whose result initialises a new variable
	genBlk   map[*ast.BlockStmt]ast.Stmt
}

func (r *rewriter) name(p string) *ast.Ident {
	r.tmp++
	return ast.NewIdent(fmt.Sprintf("_vr%s%d", p, r.tmp))
}

func rt(fn string) ast.Expr {
	return &ast.SelectorExpr{X: ast.NewIdent("verifrt"), Sel: ast.NewIdent(fn)}
}

func call(fn ast.Expr, args ...ast.Expr) *ast.CallExpr { return &ast.CallExpr{Fun: fn, Args: args} }

func define(lhs ast.Expr, rhs ast.Expr) ast.Stmt {
	return &ast.AssignStmt{Lhs: []ast.Expr{lhs}, Tok: token.DEFINE, Rhs: []ast.Expr{rhs}}
}

func (r *rewriter) isConstOrNil(e ast.Expr) bool {
	tv, ok := r.info.Types[e]
	if !ok {
		return false
	}
	return tv.Value != nil || tv.IsNil()
}

// ctxOfDone: if e is `X.Done()` with X a context, return X.
func (r *rewriter) ctxOfDone(e ast.Expr) ast.Expr {
	c, ok := e.(*ast.CallExpr)
	if !ok || len(c.Args) != 0 {
		return nil
	}
	sel, ok := c.Fun.(*ast.SelectorExpr)
	if !ok || sel.Sel.Name != "Done" {
		return nil
	}
	t := r.info.TypeOf(sel.X)
	if t == nil {
		return nil
	}
	for _, m := range []string{"Err", "Deadline", "Value", "Done"} {
		o, _, _ := types.LookupFieldOrMethod(t, true, r.pkg.Types, m)
		if _, ok := o.(*types.Func); !ok {
			return nil
		}
	}
	rt := r.info.TypeOf(e)
	ch, ok := rt.Underlying().(*types.Chan)
	if !ok || ch.Dir() != types.RecvOnly {
		return nil
	}
	return sel.X
}

func (r *rewriter) isContext(e ast.Expr) bool {
	t := r.info.TypeOf(e)
	if t == nil {
		return false
	}
	for _, m := range []string{"Err", "Deadline", "Value", "Done"} {
		o, _, _ := types.LookupFieldOrMethod(t, true, r.pkg.Types, m)
		if _, ok := o.(*types.Func); !ok {
			return false
		}
	}
	return true
}

func (r *rewriter) isChan(e ast.Expr) bool {
	t := r.info.TypeOf(e)
	if t == nil {
		return false
	}
	_, ok := t.Underlying().(*types.Chan)
	if ok {
		return true
	}
	// type parameters with a channel core type are not supported
	return false
}

func (r *rewriter) run() bool {
	r.noTouch = map[ast.Node]bool{}
	r.recv2 = map[ast.Node]bool{}
	r.tickerOK = map[ast.Node]bool{}
	r.genBlk = map[*ast.BlockStmt]ast.Stmt{}

	// imports
	for _, im := range r.file.Imports {
		if im.Path.Value == `"sync"` {
			im.Path.Value = `"verifrt/vsync"`
			if im.Name == nil {
				im.Name = ast.NewIdent("sync")
			}
			r.changed = true
			r.counts["sync-import"]++
		}
	}

	pre := func(c *astutil.Cursor) bool {
		switch n := c.Node().(type) {
		case *ast.FuncDecl:
			if n.Recv == nil && r.skip[r.pkg.PkgPath+"."+n.Name.Name] {
				return false
			}
		case *ast.SelectStmt:
			for _, cl := range n.Body.List {
				cc := cl.(*ast.CommClause)
				if cc.Comm != nil {
					r.noTouch[cc.Comm] = true
					switch s := cc.Comm.(type) {
					case *ast.ExprStmt:
						r.noTouch[ast.Unparen(s.X)] = true
					case *ast.AssignStmt:
						r.noTouch[ast.Unparen(s.Rhs[0])] = true
					}
				}
			}
		case *ast.AssignStmt:
			if n.Tok == token.DEFINE && len(n.Lhs) == 1 && len(n.Rhs) == 1 {
				// `t := time.NewTicker(d)`: the variable takes whatever type the call has, so the call can be replaced
				if ce, ok := ast.Unparen(n.Rhs[0]).(*ast.CallExpr); ok {
					if sel, ok := ce.Fun.(*ast.SelectorExpr); ok && sel.Sel.Name == "NewTicker" {
						r.tickerOK[sel] = true
					}
				}
			}
			if len(n.Lhs) == 2 && len(n.Rhs) == 1 {
				if u, ok := ast.Unparen(n.Rhs[0]).(*ast.UnaryExpr); ok && u.Op == token.ARROW {
					r.recv2[u] = true
				}
			}
		case *ast.ValueSpec:
			if len(n.Names) == 2 && len(n.Values) == 1 {
				if u, ok := ast.Unparen(n.Values[0]).(*ast.UnaryExpr); ok && u.Op == token.ARROW {
					r.recv2[u] = true
				}
			}
		}
		return true
	}

	post := func(c *astutil.Cursor) bool {
		switch n := c.Node().(type) {
		case *ast.SelectorExpr:
			if id, ok := n.X.(*ast.Ident); ok {
				if pn, ok := r.info.Uses[id].(*types.PkgName); ok && pn.Imported().Path() == "context" {
					switch n.Sel.Name {
					case "WithCancel", "WithTimeout", "WithDeadline":
						c.Replace(rt(n.Sel.Name))
						r.mark("ctx-" + n.Sel.Name)
					case "WithCancelCause", "WithTimeoutCause", "WithDeadlineCause", "AfterFunc":
						r.fail(n, "context.%s is not supported by the instrumenter", n.Sel.Name)
					}
				}
				if pn, ok := r.info.Uses[id].(*types.PkgName); ok && pn.Imported().Path() == "time" {
					switch {
					case n.Sel.Name == "Now":
						c.Replace(rt("Now"))
						r.mark("time-now")
					case n.Sel.Name == "NewTicker" && r.tickerOK[n]:
						c.Replace(rt("NewTicker"))
						r.mark("time-ticker")
					}
				}
				if pn, ok := r.info.Uses[id].(*types.PkgName); ok && pn.Imported().Path() == "sync/atomic" {
					r.fail(n, "sync/atomic is not supported by the instrumenter")
				}
			}
		case *ast.CallExpr:
			if sel, ok := n.Fun.(*ast.SelectorExpr); ok && sel.Sel.Name == "Err" && len(n.Args) == 0 && r.isContext(sel.X) {
				c.Replace(call(rt("CtxErr"), sel.X))
				r.mark("ctx-err")
				return true
			}
			if id, ok := n.Fun.(*ast.Ident); ok && id.Name == "close" && len(n.Args) == 1 {
				if _, ok := r.info.Uses[id].(*types.Builtin); ok {
					n.Fun = rt("Close")
					r.mark("close")
				}
			}
		case *ast.UnaryExpr:
			if n.Op != token.ARROW || r.noTouch[n] {
				return true
			}
			if ctx := r.ctxOfDone(ast.Unparen(n.X)); ctx != nil && !r.recv2[n] {
				c.Replace(call(rt("RecvDone"), ctx))
				r.mark("recv-done")
				return true
			}
			if r.recv2[n] {
				c.Replace(call(rt("Recv2"), n.X))
			} else {
				c.Replace(call(rt("Recv"), n.X))
			}
			r.mark("recv")
		case *ast.SendStmt:
			if r.noTouch[n] {
				return true
			}
			var pre []ast.Stmt
			ch := n.Chan
			if !isSimple(ch) {
				t := r.name("c")
				pre = append(pre, define(t, ch))
				ch = t
			}
			val := n.Value
			if !r.isConstOrNil(val) {
				t := r.name("v")
				pre = append(pre, define(t, val))
				val = t
			}
			pre = append(pre,
				&ast.ExprStmt{X: call(rt("BeforeSend"), ch)},
				&ast.SendStmt{Chan: ch, Value: val},
				&ast.ExprStmt{X: call(rt("AfterSend"))})
			c.Replace(&ast.BlockStmt{List: pre})
			r.mark("send")
		case *ast.GoStmt:
			c.Replace(r.goStmt(n))
			r.mark("go")
		case *ast.RangeStmt:
			if r.isChan(n.X) {
				blk, loop := r.rangeChan(n)
				r.genBlk[blk] = loop
				c.Replace(blk)
				r.mark("range-chan")
			}
		case *ast.SelectStmt:
			blk, sw := r.selectStmt(n)
			r.genBlk[blk] = sw
			c.Replace(blk)
			r.mark("select")
		case *ast.LabeledStmt:
			// a label on a rewritten select / range must stay on the switch / for
			if blk, ok := n.Stmt.(*ast.BlockStmt); ok {
				if inner, ok := r.genBlk[blk]; ok {
					last := len(blk.List) - 1
					if blk.List[last] != inner {
						r.fail(n, "internal: generated block shape")
					}
					blk.List[last] = &ast.LabeledStmt{Label: n.Label, Stmt: inner}
					c.Replace(blk)
				}
			}
		}
		return true
	}
	astutil.Apply(r.file, pre, post)
	if r.needRT {
		astutil.AddImport(r.fset, r.file, "verifrt")
	}
	if r.changed && !astutil.UsesImport(r.file, "time") {
		for _, im := range r.file.Imports {
			if im.Path.Value == `"time"` && im.Name == nil {
				astutil.DeleteImport(r.fset, r.file, "time")
				break
			}
		}
	}
	if r.changed && !astutil.UsesImport(r.file, "context") {
		// context.WithCancel & co were its only use
		for _, im := range r.file.Imports {
			if im.Path.Value == `"context"` {
				name := ""
				if im.Name != nil {
					name = im.Name.Name
				}
				if name != "_" && name != "." {
					astutil.DeleteNamedImport(r.fset, r.file, name, "context")
				}
				break
			}
		}
	}
	if r.changed {
		// keep only the comments in front of the package clause (build constraints);
		// everything else could be misplaced by the printer after the rewrite.
		var keep []*ast.CommentGroup
		for _, cg := range r.file.Comments {
			if cg.End() < r.file.Package {
				keep = append(keep, cg)
			}
		}
		r.file.Comments = keep
		r.file.Doc = nil
	}
	return r.changed
}

func (r *rewriter) mark(k string) {
	r.changed = true
	r.needRT = true
	r.counts[k]++
}

func (r *rewriter) fail(n ast.Node, f string, a ...any) {
	die("%s: %s", r.fset.Position(n.Pos()), fmt.Sprintf(f, a...))
}

func isSimple(e ast.Expr) bool {
	switch x := e.(type) {
	case *ast.Ident:
		return true
	case *ast.SelectorExpr:
		return isSimple(x.X)
	case *ast.ParenExpr:
		return isSimple(x.X)
	}
	return false
}

func (r *rewriter) goStmt(n *ast.GoStmt) ast.Stmt {
	callx := n.Call
	if fl, ok := callx.Fun.(*ast.FuncLit); ok && len(callx.Args) == 0 && fl.Type.Results == nil && (fl.Type.Params == nil || len(fl.Type.Params.List) == 0) {
		return &ast.ExprStmt{X: call(rt("Go"), fl)}
	}
	var pre []ast.Stmt
	fun := callx.Fun
	switch f := fun.(type) {
	case *ast.FuncLit:
	case *ast.Ident:
		if _, ok := r.info.Uses[f].(*types.Func); !ok {
			t := r.name("f")
			pre = append(pre, define(t, fun))
			fun = t
		}
	case *ast.SelectorExpr:
		if sel, ok := r.info.Selections[f]; ok && sel.Kind() == types.MethodVal {
			t := r.name("f")
			pre = append(pre, define(t, fun))
			fun = t
		} else if _, ok := r.info.Uses[f.Sel].(*types.Func); !ok {
			t := r.name("f")
			pre = append(pre, define(t, fun))
			fun = t
		}
	default:
		t := r.name("f")
		pre = append(pre, define(t, fun))
		fun = t
	}
	args := make([]ast.Expr, len(callx.Args))
	for i, a := range callx.Args {
		if r.isConstOrNil(a) {
			args[i] = a
			continue
		}
		t := r.name("a")
		pre = append(pre, define(t, a))
		args[i] = t
	}
	inner := &ast.CallExpr{Fun: fun, Args: args, Ellipsis: callx.Ellipsis}
	if callx.Ellipsis == token.NoPos {
		inner.Ellipsis = token.NoPos
	}
	lit := &ast.FuncLit{Type: &ast.FuncType{Params: &ast.FieldList{}}, Body: &ast.BlockStmt{List: []ast.Stmt{&ast.ExprStmt{X: inner}}}}
	pre = append(pre, &ast.ExprStmt{X: call(rt("Go"), lit)})
	return &ast.BlockStmt{List: pre}
}

func (r *rewriter) rangeChan(n *ast.RangeStmt) (*ast.BlockStmt, ast.Stmt) {
	c := r.name("c")
	ok := r.name("ok")
	var recv ast.Stmt
	var pre []ast.Stmt
	pre = append(pre, define(c, n.X))
	rx := call(rt("Recv2"), c)
	switch {
	case n.Key == nil:
		recv = &ast.AssignStmt{Lhs: []ast.Expr{ast.NewIdent("_"), ok}, Tok: token.DEFINE, Rhs: []ast.Expr{rx}}
	case n.Tok == token.DEFINE:
		recv = &ast.AssignStmt{Lhs: []ast.Expr{n.Key, ok}, Tok: token.DEFINE, Rhs: []ast.Expr{rx}}
	default:
		pre = append(pre, &ast.DeclStmt{Decl: &ast.GenDecl{Tok: token.VAR, Specs: []ast.Spec{&ast.ValueSpec{Names: []*ast.Ident{ok}, Type: ast.NewIdent("bool")}}}})
		recv = &ast.AssignStmt{Lhs: []ast.Expr{n.Key, ok}, Tok: token.ASSIGN, Rhs: []ast.Expr{rx}}
	}
	if n.Value != nil {
		r.fail(n, "range over channel with two variables")
	}
	body := []ast.Stmt{
		recv,
		&ast.IfStmt{Cond: &ast.UnaryExpr{Op: token.NOT, X: ok}, Body: &ast.BlockStmt{List: []ast.Stmt{&ast.BranchStmt{Tok: token.BREAK}}}},
	}
	// the original body keeps its own scope: it may redeclare the loop variable
	body = append(body, &ast.BlockStmt{List: n.Body.List})
	loop := &ast.ForStmt{Body: &ast.BlockStmt{List: body}}
	pre = append(pre, loop)
	return &ast.BlockStmt{List: pre}, loop
}

func (r *rewriter) selectStmt(n *ast.SelectStmt) (*ast.BlockStmt, ast.Stmt) {
	var pre []ast.Stmt
	var cases []ast.Expr
	var clauses []ast.Stmt
	hasDefault := false
	idx := 0
	for _, cl := range n.Body.List {
		cc := cl.(*ast.CommClause)
		if cc.Comm == nil {
			hasDefault = true
			clauses = append(clauses, &ast.CaseClause{List: nil, Body: cc.Body})
			continue
		}
		var first []ast.Stmt
		switch s := cc.Comm.(type) {
		case *ast.SendStmt:
			ct := r.name("c")
			pre = append(pre, define(ct, s.Chan))
			val := s.Value
			if !r.isConstOrNil(val) {
				vt := r.name("v")
				pre = append(pre, define(vt, val))
				val = vt
			}
			cases = append(cases, call(rt("SendCase"), ct))
			first = []ast.Stmt{&ast.SendStmt{Chan: ct, Value: val}, &ast.ExprStmt{X: call(rt("AfterSend"))}}
		case *ast.ExprStmt, *ast.AssignStmt:
			var u *ast.UnaryExpr
			if es, ok := s.(*ast.ExprStmt); ok {
				u, _ = ast.Unparen(es.X).(*ast.UnaryExpr)
			} else {
				u, _ = ast.Unparen(s.(*ast.AssignStmt).Rhs[0]).(*ast.UnaryExpr)
			}
			if u == nil || u.Op != token.ARROW {
				r.fail(cc, "select case is not a receive")
			}
			if ctx := r.ctxOfDone(ast.Unparen(u.X)); ctx != nil {
				xt := r.name("x")
				pre = append(pre, define(xt, ctx))
				cases = append(cases, call(rt("DoneCase"), xt))
				u.X = call(&ast.SelectorExpr{X: xt, Sel: ast.NewIdent("Done")})
			} else {
				ct := r.name("c")
				pre = append(pre, define(ct, u.X))
				cases = append(cases, call(rt("RecvCase"), ct))
				u.X = ct
			}
			first = []ast.Stmt{s}
		default:
			r.fail(cc, "unsupported select communication")
		}
		body := append(first, cc.Body...)
		clauses = append(clauses, &ast.CaseClause{List: []ast.Expr{&ast.BasicLit{Kind: token.INT, Value: fmt.Sprint(idx)}}, Body: body})
		idx++
	}
	hd := "false"
	if hasDefault {
		hd = "true"
	} else {
		clauses = append(clauses, &ast.CaseClause{List: nil, Body: []ast.Stmt{&ast.ExprStmt{X: call(ast.NewIdent("panic"), &ast.BasicLit{Kind: token.STRING, Value: `"verifrt: select index out of range"`})}}})
	}
	args := append([]ast.Expr{ast.NewIdent(hd)}, cases...)
	sw := &ast.SwitchStmt{Tag: call(rt("Select"), args...), Body: &ast.BlockStmt{List: clauses}}
	pre = append(pre, sw)
	return &ast.BlockStmt{List: pre}, sw
}
