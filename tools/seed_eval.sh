#!/bin/bash
# tools/seed_eval.sh <property> <tag> <demo-target-path> <demo-run-regex> [extra checks...]
# Confirms an independently written property-breaking change: applies, compiles, pinned suite passes,
# demo fails with it and passes without it; then runs the property's check (and extras) against it.
set -u
HERE=$(cd "$(dirname "$0")/.." && pwd)   # the checks of THIS copy (a `vp run` snapshot works)
pid=$1; tag=$2; demopath=$3; demorun=$4; shift 4
out=/tmp/seed-$pid-$tag-out
export GOFLAGS=-mod=mod GOPROXY=off GOSUMDB=off GOTOOLCHAIN=local
W=$(mktemp -d /tmp/wt-seed-XXXXXX); rmdir $W
git -C /repo worktree add -q --detach $W ${SEED_BASE:-HEAD} || exit 2   # SEED_BASE pins the commit while /repo moves on
VERIF_ALT_OUT=$(mktemp -d /tmp/verif-alt-XXXXXX); export VERIF_ALT_OUT  # private: several evaluations may run side by side
trap 'git -C /repo worktree remove --force $W >/dev/null 2>&1; rm -rf "$VERIF_ALT_OUT"' EXIT
demo=${DEMOFILE:-}; [ -n "$demo" ] || demo=$(ls $out/demo_test.go $out/demo*_test.go $out/demo/main.go 2>/dev/null | head -1)
res=/tmp/seed-$pid-$tag-eval.txt; : > $res
mkdir -p $(dirname $W/$demopath); cp "$demo" $W/$demopath
( cd $W && go test ${DEMOFLAGS:-} -vet=off -count=1 -run "$demorun" ./$(dirname $demopath)/ ) > /tmp/seed-$pid-$tag-demo-clean.txt 2>&1; echo "demo on clean tree: exit $?" | tee -a $res
rm $W/$demopath
if ! ( cd $W && git apply $out/patch.diff 2>/dev/null ); then
  # /repo has moved on since the change was written (fix: commits): carry it over with a three-way merge
  if ( cd $W && git apply --3way $out/patch.diff >/dev/null 2>&1 && git reset -q ); then
    ( cd $W && git diff ) > $out/patch.rebased.diff
    echo "patch carried over to the current /repo with a three-way merge (patch.rebased.diff)" | tee -a $res
  elif [ -f $out/patch.rebased.diff ] && ( cd $W && git reset -q --hard && git apply $out/patch.rebased.diff 2>/dev/null ); then
    echo "patch carried over to the current /repo by hand (patch.rebased.diff)" | tee -a $res
  else
    echo "PATCH DOES NOT APPLY (not even three-way)" | tee -a $res; exit 1
  fi
fi
( cd $W && go build ./... ) && echo "builds: yes" | tee -a $res
( cd $W && go test -vet=off -count=1 ./... 2>&1 | grep -v "no test files" | grep -v "^ok" ) > /tmp/seed-$pid-$tag-suite.txt; if [ -s /tmp/seed-$pid-$tag-suite.txt ]; then echo "SUITE OUTPUT:"; cat /tmp/seed-$pid-$tag-suite.txt; ( cd $W && go test -vet=off -count=1 ./... 2>&1 | grep -v "no test files" | grep -v "^ok" ) | tee -a $res; else echo "pinned suite with the change: passes" | tee -a $res; fi
mkdir -p $(dirname $W/$demopath); cp "$demo" $W/$demopath
( cd $W && go test ${DEMOFLAGS:-} -vet=off -count=1 -run "$demorun" ./$(dirname $demopath)/ ) > /tmp/seed-$pid-$tag-demo-mut.txt 2>&1; echo "demo with the change: exit $?" | tee -a $res
rm $W/$demopath
for c in $pid "$@"; do
  VERIF_REPO=$W "$HERE/check" $c --tier ${TIER:-quick} > /tmp/seed-$pid-$tag-check-$c.txt 2>&1; rc=$?
  echo "check $c (${TIER:-quick}): exit $rc; $(grep -c '^VIOLATION' /tmp/seed-$pid-$tag-check-$c.txt) violation lines; $(tail -1 /tmp/seed-$pid-$tag-check-$c.txt | cut -c1-160)" | tee -a $res
  grep -A2 '^VIOLATION' /tmp/seed-$pid-$tag-check-$c.txt | grep -v '^--\|VIOLATION' | head -4 | cut -c1-300 | tee -a $res
done
