#!/usr/bin/env python3
"""seed_save.py <property> <tag> <demo target path> <caught_by comma list> <needs text> [<strengthening note>]
copies a confirmed independently written change into /verif/seeded/<property>-<tag>/ with meta.json"""
import sys, os, shutil, json, glob
pid, tag, demopath, caught, needs = sys.argv[1:6]
note = sys.argv[6] if len(sys.argv) > 6 else ""
out = "/tmp/seed-%s-%s-out" % (pid, tag)
dst = "/verif/seeded/%s-%s" % (pid, tag)
os.makedirs(dst, exist_ok=True)
shutil.copy(os.path.join(out, "patch.diff"), dst)
if os.path.exists(os.path.join(out, "patch.rebased.diff")):
    # the change as written is kept as patch.orig.diff; patch.diff is what applies to the current /repo
    shutil.copy(os.path.join(out, "patch.diff"), os.path.join(dst, "patch.orig.diff"))
    shutil.copy(os.path.join(out, "patch.rebased.diff"), os.path.join(dst, "patch.diff"))
for f in glob.glob(os.path.join(out, "demo*_test.go")) + glob.glob(os.path.join(out, "demo/main.go")):
    shutil.copy(f, os.path.join(dst, os.path.basename(f) + ".txt"))  # .txt: not compiled as part of /verif
if os.path.exists(os.path.join(out, "notes.md")):
    shutil.copy(os.path.join(out, "notes.md"), dst)
ev = open("/tmp/seed-%s-%s-eval.txt" % (pid, tag)).read()
meta = {
    "property": pid,
    "origin": "written by an independent sub-agent that was given only the property text and a scratch worktree",
    "breaks": open(os.path.join(out, "notes.md")).read().split("\n")[0:1],
    "needs_to_manifest": needs,
    "demo_placement": demopath,
    "confirmed_by_me": ev.strip().split("\n"),
    "caught_by": [c for c in caught.split(",") if c],
    "strengthening": note,
    "how_to_rerun": "tools/trymut.sh seeded/%s-%s/patch.diff %s" % (pid, tag, " ".join(c for c in caught.split(",") if c) or pid),
}
json.dump(meta, open(os.path.join(dst, "meta.json"), "w"), indent=1)
print("saved", dst)
