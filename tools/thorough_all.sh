#!/bin/sh
# run every thorough tier sequentially, print the summary line of each
for p in C02 C03 C04 C05 C06 C07 C08 C09 C10 C12 C13 C14 C15 C16 C17 C18 C19 C20 C11 C01; do
  /usr/bin/time -f "%es" ./check $p --tier thorough 2>&1 | grep -v "^   \|KNOWN-FINDING" | tail -3 | cut -c1-260
done
