#!/bin/bash
# tools/seeds_recheck.sh [ids...]: every kept property-breaking change must still apply to the current /repo and
# still be reported by the checks recorded in its meta.json (regression suite for the checks themselves).
VERIF_ALT_OUT=$(mktemp -d /tmp/verif-alt-XXXXXX); export VERIF_ALT_OUT; trap 'rm -rf "$VERIF_ALT_OUT" "$OUT"' EXIT
HERE=$(cd "$(dirname "$0")/.." && pwd); cd "$HERE"   # the checks of THIS copy (a `vp run` snapshot works)
SEEDS=${SEEDS_DIR:-$HERE/seeded}   # where the kept changes live (and where carried-over patches are written)
OUT=$(mktemp /tmp/seedre-XXXXXX.out)
export GOFLAGS=-mod=mod GOPROXY=off GOSUMDB=off GOTOOLCHAIN=local
ids=${@:-$(ls $SEEDS)}
bad=0
for id in $ids; do
  checks=$(python3 -c "import json;print(' '.join(json.load(open('$SEEDS/$id/meta.json'))['caught_by']))")
  W=$(mktemp -d /tmp/wt-seedre-XXXXXX); rmdir $W
  git -C /repo worktree add -q --detach $W HEAD || exit 2
  applied=1
  if ! git -C $W apply $SEEDS/$id/patch.diff 2>/dev/null; then
    # /repo has moved on (fix: commits): carry the change over with a three-way merge and keep the result
    if ( cd $W && git apply --3way $SEEDS/$id/patch.diff >/dev/null 2>&1 && git reset -q ); then
      [ -f $SEEDS/$id/patch.orig.diff ] || cp $SEEDS/$id/patch.diff $SEEDS/$id/patch.orig.diff
      ( cd $W && git diff ) > $SEEDS/$id/patch.diff
      echo "$id: patch carried over to the current /repo (patch.orig.diff keeps the delivered one)"
    else
      echo "$id: PATCH NO LONGER APPLIES (not even three-way)"; bad=1; applied=0
    fi
  fi
  if [ $applied = 1 ]; then
    for c in $checks; do
      VERIF_REPO=$W ./check $c --tier quick > $OUT 2>&1; rc=$?
      n=$(grep -c '^VIOLATION' $OUT)
      if [ $rc -eq 1 ] && [ $n -gt 0 ]; then echo "$id: $c reports it ($n)"; else echo "$id: $c DOES NOT REPORT IT (exit $rc)"; bad=1; fi
    done
  fi
  git -C /repo worktree remove --force $W >/dev/null 2>&1; rm -rf "$VERIF_ALT_OUT"/*
done
exit $bad
