#!/bin/bash
# tools/seeds_recheck.sh [ids...]: every kept property-breaking change must still apply to the current /repo and
# still be reported by the checks recorded in its meta.json (regression suite for the checks themselves).
cd /verif
export GOFLAGS=-mod=mod GOPROXY=off GOSUMDB=off GOTOOLCHAIN=local
ids=${@:-$(ls seeded)}
bad=0
for id in $ids; do
  checks=$(python3 -c "import json;print(' '.join(json.load(open('seeded/$id/meta.json'))['caught_by']))")
  W=$(mktemp -d /tmp/wt-seedre-XXXXXX); rmdir $W
  git -C /repo worktree add -q --detach $W HEAD || exit 2
  applied=1
  if ! git -C $W apply /verif/seeded/$id/patch.diff 2>/dev/null; then
    # /repo has moved on (fix: commits): carry the change over with a three-way merge and keep the result
    if ( cd $W && git apply --3way /verif/seeded/$id/patch.diff >/dev/null 2>&1 && git reset -q ); then
      [ -f seeded/$id/patch.orig.diff ] || cp seeded/$id/patch.diff seeded/$id/patch.orig.diff
      ( cd $W && git diff ) > seeded/$id/patch.diff
      echo "$id: patch carried over to the current /repo (patch.orig.diff keeps the delivered one)"
    else
      echo "$id: PATCH NO LONGER APPLIES (not even three-way)"; bad=1; applied=0
    fi
  fi
  if [ $applied = 1 ]; then
    for c in $checks; do
      VERIF_REPO=$W ./check $c --tier quick > /tmp/seedre.out 2>&1; rc=$?
      n=$(grep -c '^VIOLATION' /tmp/seedre.out)
      if [ $rc -eq 1 ] && [ $n -gt 0 ]; then echo "$id: $c reports it ($n)"; else echo "$id: $c DOES NOT REPORT IT (exit $rc)"; bad=1; fi
    done
  fi
  git -C /repo worktree remove --force $W >/dev/null 2>&1; rm -rf /tmp/verif-alt-out
done
exit $bad
