#!/usr/bin/env python3
"""Regenerates MANIFEST.json from checks.json (single source of truth for what is claimed)."""
import json, os
V = os.path.dirname(os.path.dirname(os.path.abspath(__file__)))
conf = json.load(open(os.path.join(V, "checks.json")))
props = [json.loads(l) for l in open(os.path.join(V, "properties.jsonl"))]
na_reasons = json.load(open(os.path.join(V, "not_applicable.json"))) if os.path.exists(os.path.join(V, "not_applicable.json")) else {}
checks, na = [], []
sched, seqx = [], []
for p in props:
    pid = p["id"]
    c = conf.get(pid)
    if not c:
        na.append({"property_id": pid, "reason": na_reasons.get(pid, "no check built yet for this property (work in progress); nothing is claimed")})
        continue
    (sched if "SCHED" in c.get("engine", "SCHED") else seqx).append(pid)
    if "SEQX" in c.get("engine", ""):
        seqx.append(pid)
    checks.append({
        "property_id": pid,
        "quick_cmd": "./check %s --tier quick" % pid,
        "thorough_cmd": "./check %s --tier thorough" % pid,
        "evidence_file": "evidence/%s.json" % pid,
        "replay_cmd_template": "./check %s --replay {path}" % pid,
        "engine": c.get("engine", "SCHED"),
        "level_claimed": {"category": "model_checking", "text": c["level_text"], "design_ref": c.get("design_ref", "DESIGN.md section 6, " + pid)},
        "level_note": c["level_note"],
        "technique": c["technique"],
    })
m = {
    "version": 1,
    "setup_cmd": "./setup.sh",
    "hooks": {
        "guard": "verif-overlay",
        "enable": "no hook is committed to /repo: every check instruments the current working tree into a temporary go-build overlay (tools/vinst rewrites go/chan/select/close/sync/context operations into verifrt calls) and builds with `go build -overlay`; see DESIGN.md section 2",
        "baseline_off_cmd": "cd /repo && go test -mod=mod -json -vet=off -count=1 -timeout 25m ./...",
        "source_commits": [],
        "add_only": True,
    },
    "engines": [
        {"name": "SCHED", "path": "rt/ (module verifrt) + tools/vinst", "serves_properties": sorted(set(sched)),
         "kind_free_text": "stateless model checking of the real code: a cooperative scheduler owns every lock / channel / select / close / cancel / virtual-timer decision; iterative preemption-bounded depth-first enumeration of all decision sequences"},
        {"name": "SEQX", "path": "rt/hx + h/*", "serves_properties": sorted(set(seqx)),
         "kind_free_text": "bounded-exhaustive explicit-state enumeration of operation sequences / inputs on the real code, compared step by step with reference models"},
    ],
    "checks": checks,
    "not_applicable": na,
    "notes": "All checks rebuild from /repo's working tree ($VERIF_REPO overrides). Genuine defects: known_findings.json. Design: DESIGN.md.",
}
json.dump(m, open(os.path.join(V, "MANIFEST.json"), "w"), indent=1)
print("MANIFEST.json: %d checks, %d not_applicable" % (len(checks), len(na)))
